"""Helpers to query the serialised HIR expression tree."""


def walk(node):
    """Yield every expression node (dict with key 'e') in pre-order, closures included."""
    st = [node]
    while st:
        x = st.pop()
        if isinstance(x, dict):
            if "e" in x:
                yield x
            # deterministic order: reverse so that pre-order matches source order
            vals = list(x.values())
            for v in reversed(vals):
                if isinstance(v, (dict, list)):
                    st.append(v)
        elif isinstance(x, list):
            for v in reversed(x):
                if isinstance(v, (dict, list)):
                    st.append(v)


def walk_pats(node):
    st = [node]
    while st:
        x = st.pop()
        if isinstance(x, dict):
            if "p" in x:
                yield x
            for v in reversed(list(x.values())):
                if isinstance(v, (dict, list)):
                    st.append(v)
        elif isinstance(x, list):
            for v in reversed(x):
                if isinstance(v, (dict, list)):
                    st.append(v)


def matches(body):
    if not body.hir:
        return
    for n in walk(body.hir["body"]):
        if n["e"] == "match":
            yield n


def flat_pats(p):
    """Flatten or-patterns; returns list of leaf patterns."""
    if p.get("p") == "or":
        out = []
        for q in p["pats"]:
            out.extend(flat_pats(q))
        return out
    if p.get("p") == "ref":
        return flat_pats(p["sub"])
    return [p]


def pat_key(p):
    """Literal / path key of a leaf pattern, else None."""
    k = p.get("p")
    if k == "lit":
        return ("lit", p["lit"])
    if k == "path":
        return ("path", p.get("path"))
    if k == "ts":
        return ("ts", p.get("path"))
    if k == "struct":
        return ("struct", p.get("path"))
    if k == "wild":
        return ("wild", None)
    if k == "bind":
        return ("bind", p.get("name"))
    return (k, None)


def strip(e):
    """Strip blocks with a single tail expression, drop-temps, refs."""
    while isinstance(e, dict):
        if e.get("e") == "block" and not e.get("stmts") and e.get("tail") is not None:
            e = e["tail"]
        elif e.get("e") == "addr":
            e = e["a"]
        else:
            break
    return e


def lits_in(node):
    return [n for n in walk(node) if n["e"] == "lit"]


def paths_in(node):
    return [n for n in walk(node) if n["e"] == "path"]


def last_seg(path):
    if not path:
        return path
    return path.rsplit("::", 1)[-1]


def is_panic_expr(e):
    """unreachable!/unimplemented!/todo!/panic! expansions."""
    e = strip(e)
    if not isinstance(e, dict):
        return None
    for n in walk(e):
        if n["e"] == "path" and n.get("path", "").startswith("core::panicking::"):
            return n["path"]
        if n["e"] == "path" and n.get("path", "").startswith("std::rt::begin_panic"):
            return n["path"]
        # only look at the head of the expression: stop descending at the first call chain
    return None


def arm_is_pure_panic(arm_body):
    """The arm does nothing but panic (no other call with side effects before)."""
    e = strip(arm_body)
    if not isinstance(e, dict):
        return False
    if e.get("e") == "call":
        f = strip(e["f"])
        if f.get("e") == "path" and (f.get("path", "").startswith("core::panicking::")):
            return True
    if e.get("e") == "block":
        # `{ unreachable!() }` with statements only being the panic
        items = list(e.get("stmts", []))
        if e.get("tail") is not None:
            items.append(e["tail"])
        return len(items) == 1 and arm_is_pure_panic(items[0])
    return False


def parent_map(root):
    """id(node) -> parent expression node (nearest enclosing dict with key 'e'), plus id -> node."""
    par = {}
    st = [(root, None)]
    while st:
        x, p = st.pop()
        if isinstance(x, dict):
            np = p
            if "e" in x:
                par[id(x)] = p
                np = x
            for v in x.values():
                if isinstance(v, (dict, list)):
                    st.append((v, np))
        elif isinstance(x, list):
            for v in x:
                if isinstance(v, (dict, list)):
                    st.append((v, p))
    return par


def stmts_after(block, node):
    """statements of `block` that follow the statement containing `node` (by identity)"""
    items = list(block.get("stmts", []))
    if block.get("tail") is not None:
        items.append(block["tail"])
    for i, s in enumerate(items):
        if any(n is node for n in walk(s)) or s is node:
            return items[i + 1:]
    return []


# ---------------------------------------------------------------- helper inlining


def _deep_offset(x, off, path):
    """deep copy of a callee tree with HirIds shifted (so that they cannot collide with the caller's) and its `return`s
    marked as returns of the inlined helper"""
    if isinstance(x, dict):
        out = {}
        for k, v in x.items():
            if k == "hid" and isinstance(v, int):
                out[k] = v + off
            else:
                out[k] = _deep_offset(v, off, path)
        if out.get("e") == "ret":
            out["e"] = "ret_inl"
            out["inl"] = path
        return out
    if isinstance(x, list):
        return [_deep_offset(v, off, path) for v in x]
    return x


def inline_helpers(unit, body, keep=(), prefixes=None, max_depth=2, only_if=None):
    """HIR of `body` with calls of local helper functions expanded in place.

    A call / method call whose callee is a function of this crate with a serialised body, that is not in `keep`, not the
    function itself, and whose path starts with one of `prefixes` (default: the impl / module of `body`), is replaced by

        { let <param_0> = <arg_0>; ...; <callee body> }            (node key "inl" = callee path)

    so that syntactic rules see through an extracted helper. `keep` lists the anchors the rule itself looks for."""
    import copy
    if prefixes is None:
        prefixes = (body.path.rsplit("::", 1)[0] + "::",)
    keep = set(keep)
    counter = [0]

    def expand(node, depth, stack):
        if isinstance(node, list):
            return [expand(v, depth, stack) for v in node]
        if not isinstance(node, dict):
            return node
        out = {k: expand(v, depth, stack) for k, v in node.items()}
        if out.get("e") not in ("call", "mcall") or depth >= max_depth:
            return out
        if out["e"] == "mcall":
            callee = out.get("def") or ""
            args = [out["recv"]] + list(out["args"])
        else:
            f = strip(out["f"])
            callee = f.get("path") or "" if f.get("e") == "path" else ""
            args = list(out["args"])
        cb = unit.body(callee) if callee else None
        if cb is None or not cb.hir or callee in keep or callee in stack or callee == body.path or not callee.startswith(tuple(prefixes)) or cb.kind == "closure":
            return out
        if only_if is not None and not only_if(cb):
            return out
        params = cb.hir.get("params") or []
        if len(params) != len(args):
            return out
        counter[0] += 1
        off = 100000 * counter[0]
        stmts = []
        for p, a in zip(params, args):
            p2 = _deep_offset(p, off, callee)
            a0 = strip(a)
            if p2.get("p") == "bind" and p2.get("name") == "self" and a0.get("e") == "path" and a0.get("local") == "self":
                continue
            stmts.append({"e": "let", "pat": p2, "init": a, "ln": out.get("ln"), "inl_param": True})
        inner = expand(_deep_offset(cb.hir["body"], off, callee), depth + 1, stack | {callee})
        return {"e": "block", "unsafe": False, "ln": out.get("ln"), "stmts": stmts, "tail": inner, "inl": callee, "ty": out.get("ty")}

    return expand(copy.deepcopy(body.hir["body"]), 0, frozenset())


def derived_hids(root, seeds):
    """HirIds of bindings whose value derives from the bindings in `seeds` through `let` initialisers (to a fixed point)"""
    d = set(seeds)
    lets = [n for n in walk(root) if n["e"] == "let" and n.get("init") is not None]
    changed = True
    while changed:
        changed = False
        for n in lets:
            hs = [q.get("hid") for q in walk_pats(n["pat"]) if q.get("p") == "bind" and "hid" in q]
            if not hs or all(h in d for h in hs):
                continue
            if any(m["e"] == "path" and m.get("hid") in d for m in walk(n["init"])):
                d.update(hs)
                changed = True
    return d


def path_hid(e):
    """HirId of the local an expression names, looking through & and * and clones"""
    e = strip(e)
    while isinstance(e, dict):
        if e.get("e") in ("addr", "unary"):
            e = strip(e["a"])
        elif e.get("e") == "mcall" and e.get("name") in ("clone", "as_slice", "as_ref", "to_vec", "iter") and not e.get("args"):
            e = strip(e["recv"])
        else:
            break
    if isinstance(e, dict) and e.get("e") == "path" and "hid" in e:
        return e["hid"]
    return None
