"""Helpers to query the serialised HIR expression tree."""


def walk(node):
    """Yield every expression node (dict with key 'e') in pre-order, closures included."""
    st = [node]
    while st:
        x = st.pop()
        if isinstance(x, dict):
            if "e" in x:
                yield x
            # deterministic order: reverse so that pre-order matches source order
            vals = list(x.values())
            for v in reversed(vals):
                if isinstance(v, (dict, list)):
                    st.append(v)
        elif isinstance(x, list):
            for v in reversed(x):
                if isinstance(v, (dict, list)):
                    st.append(v)


def walk_pats(node):
    st = [node]
    while st:
        x = st.pop()
        if isinstance(x, dict):
            if "p" in x:
                yield x
            for v in reversed(list(x.values())):
                if isinstance(v, (dict, list)):
                    st.append(v)
        elif isinstance(x, list):
            for v in reversed(x):
                if isinstance(v, (dict, list)):
                    st.append(v)


def matches(body):
    if not body.hir:
        return
    for n in walk(body.hir["body"]):
        if n["e"] == "match":
            yield n


def flat_pats(p):
    """Flatten or-patterns; returns list of leaf patterns."""
    if p.get("p") == "or":
        out = []
        for q in p["pats"]:
            out.extend(flat_pats(q))
        return out
    if p.get("p") == "ref":
        return flat_pats(p["sub"])
    return [p]


def pat_key(p):
    """Literal / path key of a leaf pattern, else None."""
    k = p.get("p")
    if k == "lit":
        return ("lit", p["lit"])
    if k == "path":
        return ("path", p.get("path"))
    if k == "ts":
        return ("ts", p.get("path"))
    if k == "struct":
        return ("struct", p.get("path"))
    if k == "wild":
        return ("wild", None)
    if k == "bind":
        return ("bind", p.get("name"))
    return (k, None)


def strip(e):
    """Strip blocks with a single tail expression, drop-temps, refs."""
    while isinstance(e, dict):
        if e.get("e") == "block" and not e.get("stmts") and e.get("tail") is not None:
            e = e["tail"]
        elif e.get("e") == "addr":
            e = e["a"]
        else:
            break
    return e


def lits_in(node):
    return [n for n in walk(node) if n["e"] == "lit"]


def paths_in(node):
    return [n for n in walk(node) if n["e"] == "path"]


def last_seg(path):
    if not path:
        return path
    return path.rsplit("::", 1)[-1]


def is_panic_expr(e):
    """unreachable!/unimplemented!/todo!/panic! expansions."""
    e = strip(e)
    if not isinstance(e, dict):
        return None
    for n in walk(e):
        if n["e"] == "path" and n.get("path", "").startswith("core::panicking::"):
            return n["path"]
        if n["e"] == "path" and n.get("path", "").startswith("std::rt::begin_panic"):
            return n["path"]
        # only look at the head of the expression: stop descending at the first call chain
    return None


def arm_is_pure_panic(arm_body):
    """The arm does nothing but panic (no other call with side effects before)."""
    e = strip(arm_body)
    if not isinstance(e, dict):
        return False
    if e.get("e") == "call":
        f = strip(e["f"])
        if f.get("e") == "path" and (f.get("path", "").startswith("core::panicking::")):
            return True
    if e.get("e") == "block":
        # `{ unreachable!() }` with statements only being the panic
        items = list(e.get("stmts", []))
        if e.get("tail") is not None:
            items.append(e["tail"])
        return len(items) == 1 and arm_is_pure_panic(items[0])
    return False


def parent_map(root):
    """id(node) -> parent expression node (nearest enclosing dict with key 'e'), plus id -> node."""
    par = {}
    st = [(root, None)]
    while st:
        x, p = st.pop()
        if isinstance(x, dict):
            np = p
            if "e" in x:
                par[id(x)] = p
                np = x
            for v in x.values():
                if isinstance(v, (dict, list)):
                    st.append((v, np))
        elif isinstance(x, list):
            for v in x:
                if isinstance(v, (dict, list)):
                    st.append((v, p))
    return par


def stmts_after(block, node):
    """statements of `block` that follow the statement containing `node` (by identity)"""
    items = list(block.get("stmts", []))
    if block.get("tail") is not None:
        items.append(block["tail"])
    for i, s in enumerate(items):
        if any(n is node for n in walk(s)) or s is node:
            return items[i + 1:]
    return []
