"""A bit-level abstract interpreter over the serialised MIR (forward dataflow with joins over the
acyclic CFGs of the accessor functions, branches on decided conditions pruned — sparse conditional
constant propagation on a lattice of *symbolic bits*).

Bit lattice:   0 | 1 | atom (name, i) | negated atom | TOP          (join: equal -> itself, else TOP)
Values:        bit-vectors, booleans, Option (tag bit + payload), structs, references (heap paths),
               fieldless enum constants, tuples, TOP.

Nothing of asca is executed: the analysis transforms abstract states along MIR statements. It is used
to *decide* the get/set laws of `Place` and `Segment` for all 2^16 place words at once: the entry state
is partitioned by the shape of the input (which sub-nodes are present), payload bits are symbolic.
"""
from facts import callee_path

TOP = "T"


class Unsupported(Exception):
    pass


# ---------------------------------------------------------------- bits


def bnot(b):
    if b == 0:
        return 1
    if b == 1:
        return 0
    if b == TOP:
        return TOP
    return ("n" if b[0] == "a" else "a",) + b[1:]


def band(a, b):
    if a == 0 or b == 0:
        return 0
    if a == 1:
        return b
    if b == 1:
        return a
    if a == b:
        return a
    if a != TOP and b != TOP and a == bnot(b):
        return 0
    return TOP


def bor(a, b):
    if a == 1 or b == 1:
        return 1
    if a == 0:
        return b
    if b == 0:
        return a
    if a == b:
        return a
    if a != TOP and b != TOP and a == bnot(b):
        return 1
    return TOP


def bxor(a, b):
    if a == 0:
        return b
    if b == 0:
        return a
    if a == 1:
        return bnot(b)
    if b == 1:
        return bnot(a)
    if a == b and a != TOP:
        return 0
    if a != TOP and b != TOP and a == bnot(b):
        return 1
    return TOP


def bjoin(a, b):
    return a if a == b else TOP


def beq(a, b):
    """bit expressing a == b"""
    return bnot(bxor(a, b))


# ---------------------------------------------------------------- values


def bv(w, bits):
    return ("bv", w, tuple(bits))


def bv_const(w, v):
    return bv(w, [(v >> i) & 1 for i in range(w)])


def bv_sym(w, name, lo=0, hi=None, base=0):
    hi = w if hi is None else hi
    return bv(w, [("a", name, base + i - lo) if lo <= i < hi else 0 for i in range(w)])


def opt(tag, payload):
    return ("opt", tag, payload)


NONE = lambda payload_like=None: ("opt", 0, payload_like)


def vjoin(a, b):
    if a is None:
        return b
    if b is None:
        return a
    if a == b:
        return a
    if a[0] != b[0]:
        return ("top",)
    k = a[0]
    if k == "bv" and a[1] == b[1]:
        return bv(a[1], [bjoin(x, y) for x, y in zip(a[2], b[2])])
    if k == "bool":
        return ("bool", bjoin(a[1], b[1]))
    if k == "opt":
        return ("opt", bjoin(a[1], b[1]), vjoin(a[2], b[2]) if (a[2] is not None and b[2] is not None) else (a[2] if b[2] is None else b[2]))
    if k == "struct" and set(a[1]) == set(b[1]):
        return ("struct", {f: vjoin(a[1][f], b[1][f]) for f in a[1]})
    if k == "tuple" and len(a[1]) == len(b[1]):
        return ("tuple", tuple(vjoin(x, y) for x, y in zip(a[1], b[1])))
    return ("top",)


def bite(c, x, y):
    """bit expressing `if c { x } else { y }` for a symbolic bit c"""
    if x == y:
        return x
    if x == 1 and y == 0:
        return c
    if x == 0 and y == 1:
        return bnot(c)
    if x == c and y == 0:
        return c
    if x == 1 and y == c:
        return c
    return TOP


def vite(c, a, b):
    """value expressing `if c { a } else { b }`: bitwise where both sides have the same shape, else the join"""
    if a is None or b is None or a == b:
        return vjoin(a, b)
    if a[0] != b[0]:
        return ("top",)
    k = a[0]
    if k == "bv" and a[1] == b[1]:
        return bv(a[1], [bite(c, x, y) for x, y in zip(a[2], b[2])])
    if k == "bool":
        return ("bool", bite(c, a[1], b[1]))
    if k == "opt":
        pay = vite(c, a[2], b[2]) if (a[2] is not None and b[2] is not None) else (a[2] if b[2] is None else b[2])
        return ("opt", bite(c, a[1], b[1]), pay)
    if k == "struct" and set(a[1]) == set(b[1]):
        return ("struct", {f: vite(c, a[1][f], b[1][f]) for f in a[1]})
    if k == "tuple" and len(a[1]) == len(b[1]):
        return ("tuple", tuple(vite(c, x, y) for x, y in zip(a[1], b[1])))
    return vjoin(a, b)


def is_zero(v):
    """decide v == 0 for a bit-vector: True / False / None (unknown)"""
    if v[0] != "bv":
        return None
    if any(x == 1 for x in v[2]):
        return False
    if all(x == 0 for x in v[2]):
        return True
    return None


# ---------------------------------------------------------------- interpreter


class Interp:
    def __init__(self, unit, max_depth=8):
        self.unit = unit
        self.max_depth = max_depth
        self.notes = []

    # ---- places
    def _get(self, root, path):
        v = root
        for p in path:
            if v is None:
                raise Unsupported("path into nothing")
            if v[0] == "struct":
                v = v[1][p]
            elif v[0] == "opt":
                if p == "Some0":
                    v = v[2]
                else:
                    raise Unsupported("opt path " + str(p))
            elif v[0] == "tuple":
                v = v[1][int(p)]
            elif v[0] == "closure":
                # a captured variable: field i of the closure environment
                v = v[2][int(p)]
            elif v[0] == "top":
                return ("top",)
            else:
                raise Unsupported("path %r into %s" % (p, v[0]))
        return v

    def _set(self, root, path, val):
        if not path:
            return val
        p = path[0]
        if root is None or root[0] == "top":
            raise Unsupported("write into unknown")
        if root[0] == "struct":
            d = dict(root[1])
            d[p] = self._set(d[p], path[1:], val)
            return ("struct", d)
        if root[0] == "opt" and p == "Some0":
            return ("opt", root[1], self._set(root[2], path[1:], val))
        if root[0] == "tuple":
            l = list(root[1])
            l[int(p)] = self._set(l[int(p)], path[1:], val)
            return ("tuple", tuple(l))
        raise Unsupported("write path %r into %s" % (p, root[0]))

    def resolve(self, st, place):
        """-> ('L', local, path) or ('H', name, path): the location a MIR place denotes"""
        loc = ("L", place["l"], ())
        for pr in place["p"]:
            if pr == "*":
                v = self.load(st, loc)
                if v is not None and v[0] == "top":
                    return ("U", None, ())
                if v is None or v[0] != "ref":
                    raise Unsupported("deref of non-reference")
                loc = v[1]
                if loc[0] == "U":
                    return loc
            elif isinstance(pr, dict) and "f" in pr:
                base = self.load(st, loc)
                name = pr.get("n", str(pr["f"]))
                if base is not None and base[0] == "opt":
                    name = "Some0"
                elif base is not None and base[0] == "tuple":
                    name = str(pr["f"])
                loc = (loc[0], loc[1], loc[2] + (name,))
            elif isinstance(pr, dict) and "dc" in pr:
                continue
            else:
                raise Unsupported("projection %r" % (pr,))
        return loc

    def load(self, st, loc):
        if loc[0] == "U":
            return ("top",)
        root = st["L"].get(loc[1]) if loc[0] == "L" else st["H"].get(loc[1])
        return self._get(root, loc[2])

    def store(self, st, loc, val):
        if loc[0] == "U":
            raise Unsupported("write through an unknown reference")
        if loc[0] == "L":
            st["L"][loc[1]] = self._set(st["L"].get(loc[1]), loc[2], val) if loc[2] else val
        else:
            st["H"][loc[1]] = self._set(st["H"].get(loc[1]), loc[2], val) if loc[2] else val

    # ---- operands / rvalues
    def operand(self, st, op):
        k = op.get("k")
        if k in ("copy", "move"):
            return self.load(st, self.resolve(st, op["pl"]))
        if k == "const":
            ty = op.get("ty", "")
            if "bool" in op:
                return ("bool", 1 if op["bool"] else 0)
            if "int" in op and ty in ("u8", "u16", "u32", "u64", "usize", "i8", "i16", "i32", "i64", "isize"):
                w = {"u8": 8, "i8": 8, "u16": 16, "i16": 16, "u32": 32, "i32": 32}.get(ty, 64)
                return bv_const(w, op["int"] & ((1 << w) - 1))
            if "variant" in op and "adt" in op:
                return ("enum", op["adt"], op["variant"])
            if op.get("zst"):
                return ("unit",)
            return ("top",)
        return ("top",)

    def binop(self, name, a, b):
        if a[0] == "bool" and b[0] == "bool" and name in ("BitAnd", "BitOr", "BitXor", "Eq", "Ne"):
            f = {"BitAnd": band, "BitOr": bor, "BitXor": bxor, "Eq": beq, "Ne": bxor}[name]
            return ("bool", f(a[1], b[1]))
        if a[0] == "enum" and b[0] == "enum" and name in ("Eq", "Ne"):
            e = 1 if a == b else 0
            return ("bool", e if name == "Eq" else 1 - e)
        if a[0] != "bv" or b[0] != "bv":
            return ("bool", TOP) if name in ("Eq", "Ne", "Lt", "Le", "Gt", "Ge") else ("top",)
        w = a[1]
        if name in ("BitAnd", "BitOr", "BitXor") and b[1] == w:
            f = {"BitAnd": band, "BitOr": bor, "BitXor": bxor}[name]
            return bv(w, [f(x, y) for x, y in zip(a[2], b[2])])
        if name in ("Shl", "Shr", "ShlUnchecked", "ShrUnchecked"):
            n = self.const_of(b)
            if n is None:
                return ("top",)
            bits = list(a[2])
            if name.startswith("Shl"):
                return bv(w, ([0] * n + bits)[:w])
            return bv(w, (bits[n:] + [0] * n)[:w])
        if name in ("Eq", "Ne") and b[1] == w:
            acc = 1
            for x, y in zip(a[2], b[2]):
                acc = band(acc, beq(x, y))
            return ("bool", acc if name == "Eq" else bnot(acc))
        ca, cb = self.const_of(a), self.const_of(b)
        if ca is not None and cb is not None:
            r = {"Lt": ca < cb, "Le": ca <= cb, "Gt": ca > cb, "Ge": ca >= cb}.get(name)
            if r is not None:
                return ("bool", 1 if r else 0)
            if name in ("Add", "Sub", "Mul"):
                v = {"Add": ca + cb, "Sub": ca - cb, "Mul": ca * cb}[name]
                return bv_const(w, v & ((1 << w) - 1))
            if name in ("AddWithOverflow", "SubWithOverflow", "MulWithOverflow"):
                v = {"AddWithOverflow": ca + cb, "SubWithOverflow": ca - cb, "MulWithOverflow": ca * cb}[name]
                return ("tuple", (bv_const(w, v & ((1 << w) - 1)), ("bool", 0 if 0 <= v < (1 << w) else 1)))
        if name in ("Lt", "Le", "Gt", "Ge"):
            return ("bool", TOP)
        return ("top",)

    @staticmethod
    def const_of(v):
        if v[0] == "bv" and all(x in (0, 1) for x in v[2]):
            return sum(x << i for i, x in enumerate(v[2]))
        return None

    def rvalue(self, st, rv):
        k = rv["k"]
        if k == "use":
            return self.operand(st, rv["op"])
        if k == "ref" or k == "rawptr":
            return ("ref", self.resolve(st, rv["pl"]))
        if k == "binop":
            return self.binop(rv["op"], self.operand(st, rv["a"]), self.operand(st, rv["b"]))
        if k == "unop":
            a = self.operand(st, rv["a"])
            if rv["op"] == "Not":
                if a[0] == "bv":
                    return bv(a[1], [bnot(x) for x in a[2]])
                if a[0] == "bool":
                    return ("bool", bnot(a[1]))
            return ("top",)
        if k == "cast":
            a = self.operand(st, rv["op"])
            w = {"u8": 8, "i8": 8, "u16": 16, "i16": 16, "u32": 32, "i32": 32, "u64": 64, "usize": 64, "isize": 64, "i64": 64}.get(rv.get("ty"))
            if a[0] == "bv" and w and rv.get("ck") == "IntToInt":
                bits = list(a[2])
                return bv(w, (bits + [0] * w)[:w])
            if a[0] == "enum" and w:
                adt = self.unit.adts.get(a[1])
                if adt:
                    for v in adt["variants"]:
                        if v["name"] == a[2]:
                            return bv_const(w, v.get("discr", v["idx"]))
            return ("top",)
        if k == "discr":
            v = self.load(st, self.resolve(st, rv["pl"]))
            if v is not None and v[0] == "opt":
                return bv(64, [v[1]] + [0] * 63)
            if v is not None and v[0] == "enum":
                adt = self.unit.adts.get(v[1])
                if adt:
                    for x in adt["variants"]:
                        if x["name"] == v[2]:
                            return bv_const(64, x.get("discr", x["idx"]))
            return ("top",)
        if k == "agg":
            ops = [self.operand(st, o) for o in rv["ops"]]
            if rv.get("ak") == "adt":
                if rv.get("adt") == "core::option::Option":
                    return opt(1, ops[0]) if rv.get("variant") == "Some" else opt(0, None)
                adt = self.unit.adts.get(rv.get("adt"))
                if adt is not None and adt["kind"] == "Struct":
                    return ("struct", dict(zip(rv.get("fields", []), ops)))
                if not ops:
                    return ("enum", rv.get("adt"), rv.get("variant"))
                return ("top",)
            if rv.get("ak") == "tuple":
                return ("tuple", tuple(ops))
            if rv.get("ak") == "closure" and rv.get("fn"):
                return ("closure", rv["fn"], tuple(ops))
            return ("top",)
        return ("top",)

    # ---- calls
    def call(self, st, t, depth):
        cp = callee_path(t) or ""
        args = [self.operand(st, a) for a in t["args"]]
        short = cp.rsplit("::", 1)[-1]
        if cp.startswith("core::panicking::") or cp.endswith("rt::begin_panic"):
            return "diverge"
        if cp.startswith("core::option::Option::"):
            a0 = args[0]
            if a0[0] == "ref":
                a0 = self.load(st, a0[1])
            if a0 is None or a0[0] != "opt":
                return ("top",)
            if short in ("unwrap", "unwrap_unchecked", "expect"):
                if a0[1] == 0:
                    return "diverge"
                return a0[2] if a0[2] is not None else ("top",)
            if short == "unwrap_or":
                if a0[1] == 1:
                    return a0[2]
                if a0[1] == 0:
                    return args[1]
                return vjoin(a0[2], args[1])
            if short == "unwrap_or_default":
                d = bv_const(a0[2][1], 0) if a0[2] is not None and a0[2][0] == "bv" else ("top",)
                if a0[1] == 1:
                    return a0[2]
                if a0[1] == 0:
                    return d
                return vjoin(a0[2], d)
            if short in ("is_some_and", "is_none_or", "map", "map_or", "and_then", "filter") and len(args) >= 2:
                clo = args[-1]
                cb = self.unit.body(clo[1]) if clo[0] == "closure" else None
                if cb is None or depth >= self.max_depth:
                    return ("top",)
                if a0[1] == 0:
                    # the closure is not called
                    if short == "is_some_and":
                        return ("bool", 0)
                    if short == "is_none_or":
                        return ("bool", 1)
                    if short == "map_or":
                        return args[1]
                    return opt(0, None)
                # captured references to locals of this frame are lent to the closure through the heap
                lent, ops = [], []
                for ci, op in enumerate(clo[2]):
                    if isinstance(op, tuple) and op and op[0] == "ref" and op[1][0] == "L":
                        nm = "$c%d_%d_%d" % (depth, ci, op[1][1])
                        st["H"][nm] = st["L"].get(op[1][1])
                        ops.append(("ref", ("H", nm, op[1][2])))
                        lent.append((nm, op[1][1]))
                    else:
                        ops.append(op)
                clo = ("closure", clo[1], tuple(ops))
                res = self.run(cb, [clo, a0[2] if a0[2] is not None else ("top",)], st["H"], depth + 1)
                for nm, l in lent:
                    if nm in st["H"]:
                        st["L"][l] = st["H"].pop(nm)
                if res == "diverge":
                    return "diverge" if a0[1] == 1 else ("top",)
                if short == "is_some_and" and res[0] == "bool":
                    return ("bool", band(a0[1], res[1]))
                if short == "is_none_or" and res[0] == "bool":
                    return ("bool", bor(bnot(a0[1]), res[1]))
                if short == "map":
                    return opt(a0[1], res)
                if short == "map_or":
                    return res if a0[1] == 1 else vjoin(res, args[1])
                if short == "and_then" and res[0] == "opt":
                    return opt(band(a0[1], res[1]), res[2])
                if short == "filter" and res[0] == "bool":
                    return opt(band(a0[1], res[1]), a0[2])
                return ("top",)
            if short == "is_some":
                return ("bool", a0[1])
            if short == "is_none":
                return ("bool", bnot(a0[1]))
            return ("top",)
        if cp.endswith("bool>::then") or cp.endswith("bool>::then_some"):
            # `cond.then(|| v)` / `cond.then_some(v)`: Some(v) iff cond
            c0 = args[0]
            if c0[0] == "ref":
                c0 = self.load(st, c0[1])
            if c0 is None or c0[0] != "bool" or len(args) < 2:
                return ("top",)
            if c0[1] == 0:
                return opt(0, None)
            if short == "then_some":
                return opt(c0[1], args[1])
            clo = args[1]
            cb = self.unit.body(clo[1]) if clo[0] == "closure" else None
            if cb is None or depth >= self.max_depth:
                return ("top",)
            lent, ops = [], []
            for ci, op in enumerate(clo[2]):
                if isinstance(op, tuple) and op and op[0] == "ref" and op[1][0] == "L":
                    nm = "$c%d_%d_%d" % (depth, ci, op[1][1])
                    st["H"][nm] = st["L"].get(op[1][1])
                    ops.append(("ref", ("H", nm, op[1][2])))
                    lent.append((nm, op[1][1]))
                else:
                    ops.append(op)
            res = self.run(cb, [("closure", clo[1], tuple(ops))], st["H"], depth + 1)
            for nm, l in lent:
                if nm in st["H"]:
                    st["L"][l] = st["H"].pop(nm)
            if res == "diverge":
                return "diverge" if c0[1] == 1 else ("top",)
            return opt(c0[1], res)
        if cp.endswith(("PartialEq>::eq", "PartialEq>::ne")) or cp in ("core::cmp::PartialEq::eq", "core::cmp::PartialEq::ne"):
            a = [self.load(st, x[1]) if x[0] == "ref" else x for x in args[:2]]
            if len(a) == 2 and a[0] is not None and a[1] is not None:
                r = self.binop("Eq", a[0], a[1]) if a[0][0] in ("bv", "enum", "bool") and a[0][0] == a[1][0] else ("bool", TOP)
                if a[0][0] == "opt" and a[1][0] == "opt":
                    r = ("bool", self._opt_eq(a[0], a[1]))
                if short == "ne" and r[0] == "bool":
                    r = ("bool", bnot(r[1]))
                return r
            return ("bool", TOP)
        b = self.unit.body(cp)
        if b is not None and depth < self.max_depth:
            # references to locals of this frame are lent to the callee through the heap
            lent = []
            for i, a in enumerate(args):
                if a[0] == "ref" and a[1][0] == "L":
                    nm = "$f%d_%d" % (depth, a[1][1])
                    st["H"][nm] = st["L"].get(a[1][1])
                    args[i] = ("ref", ("H", nm, a[1][2]))
                    lent.append((nm, a[1][1]))
            r = self.run(b, args, st["H"], depth + 1)
            for nm, l in lent:
                if nm in st["H"]:
                    st["L"][l] = st["H"].pop(nm)
            if r != "diverge" and r[0] == "ref" and r[1][0] == "H" and r[1][1].startswith("$f%d_" % depth):
                r = ("ref", ("L", int(r[1][1].split("_")[1]), r[1][2]))
            return r
        if cp.startswith("core::fmt::") or cp.startswith("core::cmp::"):
            return ("top",) if not cp.startswith("core::cmp::PartialOrd") else ("bool", TOP)
        self.notes.append("unmodelled call " + cp)
        return ("top",)

    def _opt_eq(self, a, b):
        # None == None ; Some(x) == Some(y) iff x == y
        if a[1] in (0, 1) and b[1] in (0, 1):
            if a[1] != b[1]:
                return 0
            if a[1] == 0:
                return 1
            r = self.binop("Eq", a[2], b[2])
            return r[1] if r[0] == "bool" else TOP
        return TOP

    # ---- a function
    def run(self, body, args, heap, depth=0):
        """abstractly execute `body`; returns the joined return value ('diverge' if no return is reachable);
        the heap dict is updated in place with the joined heap at the returns"""
        cfg = body.cfg
        if cfg.loops:
            raise Unsupported("loop in " + body.path)
        n = len(body.blocks)
        order = self._rpo(cfg)
        ins = {0: {"L": {i + 1: a for i, a in enumerate(args)}, "H": dict(heap), "C": ()}}
        ret_val, ret_heap, any_ret = None, None, False
        for bi in order:
            if bi not in ins:
                continue
            st = {"L": dict(ins[bi]["L"]), "H": dict(ins[bi]["H"])}
            pc = ins[bi].get("C", ())
            blk = body.blocks[bi]
            for s in blk["s"]:
                if s["k"] == "assign":
                    self.store(st, self.resolve(st, s["lhs"]), self.rvalue(st, s["rv"]))
            t = blk["t"]
            k = t["k"]
            succs = []
            lit = {}
            if k == "goto":
                succs = [t["t"]]
            elif k == "return":
                any_ret = True
                ret_val = vjoin(ret_val, st["L"].get(0, ("unit",))) if ret_val is not None else st["L"].get(0, ("unit",))
                ret_heap = st["H"] if ret_heap is None else {h: vjoin(ret_heap.get(h), st["H"].get(h)) for h in set(ret_heap) | set(st["H"])}
            elif k == "switch":
                v = self.operand(st, t["op"])
                succs = self._switch(v, t)
                # a branch on a symbolic bit: remember on which side of it each successor lies, so that the two sides can be
                # merged as `if c { a } else { b }` instead of being joined to "unknown"
                if v[0] == "bool" and isinstance(v[1], tuple) and len(t["vals"]) == 1 and t["vals"][0][0] == 0 and t["vals"][0][1] != t["otherwise"]:
                    lit = {t["vals"][0][1]: (v[1], 0), t["otherwise"]: (v[1], 1)}
            elif k == "assert":
                succs = [t["t"]]
            elif k == "drop":
                succs = [t["t"]]
            elif k == "call":
                r = self.call(st, t, depth)
                if r != "diverge" and t.get("t") is not None:
                    self.store(st, self.resolve(st, t["dest"]), r)
                    succs = [t["t"]]
            for su in succs:
                npc = pc + ((lit[su],) if su in lit else ())
                if su in ins:
                    old = ins[su]
                    opc = old.get("C", ())
                    if opc and npc and opc[:-1] == npc[:-1] and opc[-1][0] == npc[-1][0] and opc[-1][1] != npc[-1][1]:
                        # the two sides of one symbolic test meet again
                        c = npc[-1][0]
                        hi, lo = (st, old) if npc[-1][1] == 1 else (old, st)
                        ins[su] = {"L": {l: vite(c, hi["L"].get(l), lo["L"].get(l)) for l in set(old["L"]) | set(st["L"])},
                                   "H": {h: vite(c, hi["H"].get(h), lo["H"].get(h)) for h in set(old["H"]) | set(st["H"])},
                                   "C": npc[:-1]}
                    else:
                        k0 = 0
                        while k0 < len(opc) and k0 < len(npc) and opc[k0] == npc[k0]:
                            k0 += 1
                        ins[su] = {"L": {l: vjoin(old["L"].get(l), st["L"].get(l)) for l in set(old["L"]) | set(st["L"])},
                                   "H": {h: vjoin(old["H"].get(h), st["H"].get(h)) for h in set(old["H"]) | set(st["H"])},
                                   "C": npc[:k0]}
                else:
                    ins[su] = {"L": dict(st["L"]), "H": dict(st["H"]), "C": npc}
        if not any_ret:
            return "diverge"
        heap.clear()
        heap.update(ret_heap)
        return ret_val

    def _switch(self, v, t):
        vals = t["vals"]
        if v[0] == "bool":
            if v[1] in (0, 1):
                for val, tg in vals:
                    if val == v[1]:
                        return [tg]
                return [t["otherwise"]]
            return [tg for _, tg in vals] + [t["otherwise"]]
        if v[0] == "bv":
            c = self.const_of(v)
            if c is not None:
                for val, tg in vals:
                    if val == c:
                        return [tg]
                return [t["otherwise"]]
            # partially known: rule out targets whose value contradicts a known bit
            poss = []
            for val, tg in vals:
                if all(x == TOP or not isinstance(x, int) or x == ((val >> i) & 1) for i, x in enumerate(v[2])):
                    poss.append(tg)
            others_possible = True
            if len(vals) == 1 and vals[0][0] == 0 and is_zero(v) is False:
                return [t["otherwise"]]
            return poss + ([t["otherwise"]] if others_possible else [])
        return [tg for _, tg in vals] + [t["otherwise"]]

    @staticmethod
    def _rpo(cfg):
        seen, order = set(), []

        def dfs(x):
            st = [(x, iter(cfg.succ[x]))]
            seen.add(x)
            while st:
                y, it = st[-1]
                adv = False
                for z in it:
                    if z not in seen:
                        seen.add(z)
                        st.append((z, iter(cfg.succ[z])))
                        adv = True
                        break
                if not adv:
                    order.append(y)
                    st.pop()
        dfs(0)
        return list(reversed(order))
