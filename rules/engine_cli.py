"""CLI engine — command line wiring (C19, C20).

CLI-1  swapped same-typed arguments (crossed names), lib and bin
CLI-4  `asca run` wiring and output provenance
TAB-7  writer/reader agreement of the text file formats
CLI-2  cycle rejection is a must-pass-through of config parsing
CLI-3  filter order and case folding
CLI-5  stage order of `seq` and of the exported rule history
"""
import re

import hirq
from core import AnchorMissing, RuleResult, fn_loc
from engine_err import for_loops, expr_name, enumerate_index, single_lets

FILLER = {"maybe", "path", "dir", "unparsed", "file", "str", "the", "in", "i", "opt", "s"}


def words_of(name):
    ws = set()
    for w in re.split(r"[_\W]+", name.lower()):
        if not w or w in FILLER:
            continue
        if len(w) > 3 and w.endswith("s"):
            w = w[:-1]
        ws.add(w)
    return ws


def arg_name(e):
    """user-visible name of an argument expression: x, &x, &mut x, x.clone(), x.as_deref(), &x.f -> f"""
    e = hirq.strip(e)
    while e.get("e") == "mcall" and e.get("name") in ("clone", "as_deref", "as_ref", "to_owned", "as_str", "as_slice", "to_vec", "into") and not e["args"]:
        e = hirq.strip(e["recv"])
    if e.get("e") == "path" and "local" in e:
        return e["local"]
    if e.get("e") == "field":
        return e["name"]
    return None


def all_calls(body):
    """(callee path, args, line) for path calls and method calls (receiver is arg 0)"""
    out = []
    for n in hirq.walk(body.hir["body"]):
        if n.get("exp"):
            continue
        if n["e"] == "call":
            f = hirq.strip(n["f"])
            if f.get("e") == "path" and f.get("path"):
                out.append((f["path"], n["args"], n["ln"]))
        elif n["e"] == "mcall" and n.get("def"):
            out.append((n["def"], [n["recv"]] + n["args"], n["ln"]))
    return out


def cli1(ctx):
    r = RuleResult("CLI-1", "no call passes same-typed arguments to each other's parameters (crossed names)", floor=340)
    sigs = {}
    for u in (ctx.lib, ctx.bin):
        for b in u.bodies:
            if b.kind in ("fn", "assoc_fn") and b.param_names:
                sigs.setdefault(b.path, (b.param_names, b.param_tys))
    n_pairs = 0
    for u in (ctx.lib, ctx.bin):
        for b in u.bodies:
            if b.in_test_mod() or not b.hir or b.kind == "closure":
                continue
            for callee, args, ln in all_calls(b):
                if callee not in sigs:
                    continue
                pn, pt = sigs[callee]
                if len(pn) != len(args):
                    continue
                names = [arg_name(a) for a in args]
                for i in range(len(args)):
                    for j in range(i + 1, len(args)):
                        if pt[i] != pt[j] or not names[i] or not names[j] or not pn[i] or not pn[j]:
                            continue
                        n_pairs += 1
                        ai, aj, pi, pj = words_of(names[i]), words_of(names[j]), words_of(pn[i]), words_of(pn[j])
                        crossed = bool(ai & pj) and not (ai & pi) and bool(aj & pi) and not (aj & pj)
                        r.inst("%s -> %s(%s=%s, %s=%s)" % (b.path.split("::", 1)[-1], callee.split("::", 1)[-1], pn[i], names[i], pn[j], names[j]),
                               fn_loc(b, ln), "ok" if not crossed else "report", nontrivial=bool((ai | aj) & (pi | pj)))
                        if crossed:
                            r.report("CLI-1|%s|%s|%s-%s" % (b.path, callee, pn[i], pn[j]), fn_loc(b, ln), b.path,
                                     "call of %s passes `%s` to parameter `%s` and `%s` to parameter `%s` (same type %s): the two are exchanged"
                                     % (callee, names[i], pn[i], names[j], pn[j], pt[i]))
    r.analysed = {"same_typed_named_pairs": n_pairs}
    return r


# ---------------------------------------------------------------- CLI-4


def cli4(ctx):
    r = RuleResult("CLI-4", "`asca run`: files -> asca::run roles; printed and written value is the Ok payload of that call", floor=14)
    bn = ctx.bin
    run = ctx.fn(bn, "asca_bin::cli::run::run")
    gi = ctx.fn(bn, "asca_bin::cli::run::get_input")
    roles = ["words", "rules", "into", "from"]
    # get_input: every Ok((a,b,c,d)) lists the four roles in order
    n_ok = 0
    for n in hirq.walk(gi.hir["body"]):
        if n["e"] == "call" and (hirq.strip(n["f"]).get("path") or "").endswith("Result::Ok") and not n.get("exp"):
            t = hirq.strip(n["args"][0])
            if t.get("e") == "tup" and len(t["items"]) == 4:
                n_ok += 1
                got = [arg_name(x) for x in t["items"]]
                ok = got == roles
                r.inst("get_input returns (%s)" % ", ".join(str(g) for g in got), fn_loc(gi, n["ln"]), "ok" if ok else "report")
                if not ok:
                    r.report("CLI-4|get_input|tuple|%d" % n_ok, fn_loc(gi, n["ln"]), gi.path,
                             "get_input returns (%s); the roles are (words, rules, into, from)" % ", ".join(str(g) for g in got))
    if n_ok < 2:
        raise AnchorMissing("get_input: fewer than 2 `Ok((words, rules, into, from))` returns found")
    # parse_alias returns (into, from): destructured in that order wherever it is called
    for u_b in bn.bodies:
        if u_b.in_test_mod() or not u_b.hir or u_b.kind == "closure":
            continue
        for n in hirq.walk(u_b.hir["body"]):
            if n["e"] == "let" and n["pat"].get("p") == "tup" and n.get("init") is not None:
                calls = [c for c in hirq.walk(n["init"]) if c["e"] == "call" and (hirq.strip(c["f"]).get("path") or "").endswith("cli::parse::parse_alias")]
                if calls and len(n["pat"]["pats"]) == 2:
                    nm = [p.get("name") if p.get("p") == "bind" else "_" for p in n["pat"]["pats"]]
                    bad = (nm[0] not in ("into", "_") and "from" in (nm[0] or "")) or (nm[1] not in ("from", "_") and "into" in (nm[1] or ""))
                    r.inst("%s destructures parse_alias as (%s, %s)" % (u_b.path.split("::", 1)[-1], nm[0], nm[1]), fn_loc(u_b, n["ln"]),
                           "ok" if not bad else "report")
                    if bad:
                        r.report("CLI-4|parse_alias-destructure|%s" % u_b.path, fn_loc(u_b, n["ln"]), u_b.path,
                                 "parse_alias returns (into, from) but is destructured as (%s, %s)" % (nm[0], nm[1]))
    # run: destructuring order
    pat = None
    for n in hirq.walk(run.hir["body"]):
        if n["e"] == "let" and n["pat"].get("p") == "tup" and n.get("init") is not None:
            if any(c["e"] == "call" and (hirq.strip(c["f"]).get("path") or "").endswith("cli::run::get_input") for c in hirq.walk(n["init"])):
                pat = [p.get("name") if p.get("p") == "bind" else None for p in n["pat"]["pats"]]
                ok = pat == roles
                r.inst("run destructures get_input as (%s)" % ", ".join(str(p) for p in pat), fn_loc(run, n["ln"]), "ok" if ok else "report")
                if not ok:
                    r.report("CLI-4|run|destructure", fn_loc(run, n["ln"]), run.path,
                             "run binds get_input's result as (%s); get_input returns (words, rules, into, from)" % ", ".join(str(p) for p in pat))
    if pat is None:
        raise AnchorMissing("cli::run::run: destructuring of get_input not found")
    # the asca::run call and the Ok arm
    m_run = None
    for m in hirq.matches(run):
        sc = hirq.strip(m["scrut"])
        if sc.get("e") == "call" and hirq.strip(sc["f"]).get("path") == "asca::run":
            m_run = (m, sc)
    if m_run is None:
        raise AnchorMissing("cli::run::run: `match asca::run(..)` not found")
    m, sc = m_run
    lib_run = ctx.fn(ctx.lib, "asca::run")
    want = {"rules": 0, "words": 1, "into": 2, "from": 3}
    got = [arg_name(a) for a in sc["args"]]
    ok = got == ["rules", "words", "into", "from"]
    r.inst("asca::run(%s) against parameters %s" % (", ".join(str(g) for g in got), lib_run.param_names), fn_loc(run, sc["ln"]),
           "ok" if ok else "report")
    if not ok:
        r.report("CLI-4|run|asca::run-args", fn_loc(run, sc["ln"]), run.path,
                 "asca::run receives (%s); its parameters are %s" % (", ".join(str(g) for g in got), lib_run.param_names))
    okvar = None
    for arm in m["arms"]:
        p = arm["pat"]
        if p.get("p") in ("ts", "struct") and (p.get("path") or "").endswith("Result::Ok"):
            sub = p["pats"][0] if p.get("p") == "ts" else p["fields"][0][1]
            okvar = sub.get("name")
            for callee, args, ln in all_calls_node(arm["body"]):
                if callee.endswith(("cli::run::print_result", "cli::run::output_result")):
                    cb = bn.body(callee)
                    idx = [i for i, nme in enumerate(cb.param_names) if nme in ("result", "res")]
                    a = arg_name(args[idx[0]]) if idx else None
                    ok = a == okvar
                    r.inst("%s receives the Ok payload `%s`" % (callee.rsplit("::", 1)[-1], okvar), fn_loc(run, ln), "ok" if ok else "report")
                    if not ok:
                        r.report("CLI-4|run|%s-arg" % callee.rsplit("::", 1)[-1], fn_loc(run, ln), run.path,
                                 "%s is given `%s`, not the result `%s` of asca::run" % (callee.rsplit("::", 1)[-1], a, okvar))
    if okvar is None:
        raise AnchorMissing("cli::run::run: Ok arm not found")
    # output_result writes res.join(LINE_ENDING)
    orb = ctx.fn(bn, "asca_bin::cli::run::output_result")
    joins = [n for n in hirq.walk(orb.hir["body"]) if n["e"] == "mcall" and n["name"] == "join"]
    ok = len(joins) == 1 and arg_name(joins[0]["recv"]) == orb.param_names[1] and (hirq.strip(joins[0]["args"][0]).get("path") or "").endswith("LINE_ENDING")
    r.inst("output_result writes `res.join(LINE_ENDING)` of its parameter", fn_loc(orb), "ok" if ok else "report")
    if not ok:
        r.report("CLI-4|output_result|join", fn_loc(orb), orb.path, "output_result does not write its `res` parameter joined by LINE_ENDING")
    return r


def all_calls_node(node):
    out = []
    for n in hirq.walk(node):
        if n["e"] == "call":
            f = hirq.strip(n["f"])
            if f.get("e") == "path" and f.get("path"):
                out.append((f["path"], n["args"], n["ln"]))
        elif n["e"] == "mcall" and n.get("def"):
            out.append((n["def"], [n["recv"]] + n["args"], n["ln"]))
    return out


# ---------------------------------------------------------------- TAB-7


def _lits(body, kinds=("str", "char", "fmt")):
    return [n for n in hirq.walk(body.hir["body"]) if n["e"] == "lit" and n.get("lk") in kinds]


def _starts_with_lits(body):
    out = []
    for n in hirq.walk(body.hir["body"]):
        if n["e"] == "mcall" and n["name"] in ("starts_with", "strip_prefix") and n["args"]:
            a = hirq.strip(n["args"][0])
            if a.get("e") == "lit":
                out.append((a["lit"], n["ln"]))
    return out


def tab7(ctx):
    r = RuleResult("TAB-7", "writers and readers of .rsca / .alias / .wsca agree on sigils; one JSON schema type in every direction", floor=14)
    bn = ctx.bin
    # --- rsca
    w = ctx.fn(bn, "asca_bin::cli::util::to_rsca_format")
    rd = ctx.fn(bn, "asca_bin::cli::parse::parse_rsca")
    wl = [n["lit"] for n in _lits(w, ("fmt", "str"))]
    w_sigils = set()
    indented = False
    for t in wl:
        s = t.lstrip(" \t")
        if s != t:
            indented = True
        if s and not s.startswith("{}"):
            w_sigils.add(s[0])
    r_sigils = {l for l, _ in _starts_with_lits(rd)}
    ok = w_sigils == r_sigils and len(w_sigils) >= 2
    r.inst("rsca: writer line sigils %s == reader `starts_with` sigils %s" % (sorted(w_sigils), sorted(r_sigils)), fn_loc(rd), "ok" if ok else "report")
    if not ok:
        r.report("TAB-7|rsca|sigils", fn_loc(rd), rd.path, "to_rsca_format writes line sigils %s but parse_rsca recognises %s" % (sorted(w_sigils), sorted(r_sigils)))
    trims = [n for n in hirq.walk(rd.hir["body"]) if n["e"] == "mcall" and n["name"] == "trim"]
    ok = (not indented) or bool(trims)
    r.inst("rsca: writer indents rule lines, reader trims each line", fn_loc(rd), "ok" if ok else "report")
    if not ok:
        r.report("TAB-7|rsca|trim", fn_loc(rd), rd.path, "to_rsca_format indents lines but parse_rsca does not trim them")
    # description lines: writer splits on '\n' and writes one `# ` line each; reader joins with '\n'
    wsplit = [hirq.strip(n["args"][0]).get("lit") for n in hirq.walk(w.hir["body"]) if n["e"] == "mcall" and n["name"] == "split" and n["args"]]
    rpush = [hirq.strip(n["args"][0]).get("lit") for n in hirq.walk(rd.hir["body"]) if n["e"] == "mcall" and n["name"] == "push" and n["args"]
             and hirq.strip(n["args"][0]).get("lk") == "char"]
    ok = wsplit == ["\n"] and rpush == ["\n"]
    r.inst("rsca: multi-line descriptions split on %r by the writer and re-joined with %r by the reader" % (wsplit, rpush), fn_loc(rd), "ok" if ok else "report")
    if not ok:
        r.report("TAB-7|rsca|description-lines", fn_loc(rd), rd.path, "description line separator: writer splits on %r, reader joins with %r" % (wsplit, rpush))
    # every group is delimited: the reader starts a new group only at a `@` line (or after a description), so the writer must emit
    # the `@` header for every group, unconditionally
    par = hirq.parent_map(w.hir["body"])
    gsig = [n for n in _lits(w, ("fmt", "str")) if n["lit"].lstrip(" \t").startswith("@")]
    if not gsig:
        raise AnchorMissing("to_rsca_format: no `@` header literal")
    for n in gsig:
        conds = []
        x = par.get(id(n))
        while x is not None:
            if not x.get("exp") and (x.get("e") == "if" or (x.get("e") == "match" and x.get("src") in (None, "Normal"))):
                conds.append(x.get("ln"))
            x = par.get(id(x))
        ok = not conds
        r.inst("rsca: the group header `%s` is written for every group (not under a condition)" % n["lit"].strip(), fn_loc(w, n.get("ln")), "ok" if ok else "report")
        if not ok:
            r.report("TAB-7|rsca|header-conditional", fn_loc(w, n.get("ln")), w.path,
                     "the `@` group header is written only under a condition (line %s): parse_rsca starts a group only at an `@` line, so a group written without it is merged into the previous one" % conds[-1])
    # --- alias
    w = ctx.fn(bn, "asca_bin::cli::util::to_alias")
    rd = ctx.fn(bn, "asca_bin::cli::parse::parse_alias")
    sections = [n["lit"].strip() for n in _lits(w, ("str", "fmt")) if n["lit"].strip().startswith("@")]
    rsec = [l for l, _ in _starts_with_lits(rd)]
    missing = [s for s in sections if s not in rsec]
    extra = [s for s in rsec if s not in sections and s != "#"]
    ok = not missing and not extra and len(sections) == 2
    r.inst("alias: writer sections %s recognised by the reader %s" % (sections, rsec), fn_loc(rd), "ok" if ok else "report")
    if not ok:
        r.report("TAB-7|alias|sections", fn_loc(rd), rd.path, "to_alias writes sections %s, parse_alias recognises %s" % (sections, rsec))
    # which section feeds which vector: `@into` -> state true -> into.push
    order_w = sections
    if sections == ["@into", "@from"]:
        # writer: first loop over `into` param after "@into"
        loops = for_loops(w.hir["body"])
        bases = [expr_name(it)[-1] for _, it, _, _ in loops]
        ok = bases == ["into", "from"]
        r.inst("alias: writer lists `into` under @into and `from` under @from", fn_loc(w), "ok" if ok else "report")
        if not ok:
            r.report("TAB-7|alias|writer-order", fn_loc(w), w.path, "to_alias writes the vectors %s under the sections %s" % (bases, sections))
    st = {}
    for n in hirq.walk(rd.hir["body"]):
        if n["e"] == "if":
            sw = [hirq.strip(c["args"][0]).get("lit") for c in hirq.walk(n["cond"]) if c["e"] == "mcall" and c["name"] == "starts_with" and c["args"]]
            if len(sw) == 1 and sw[0] in ("@into", "@from"):
                vals = [l["lit"] for a in hirq.walk(n["then"]) if a["e"] == "assign" for l in hirq.walk(a["rhs"]) if l["e"] == "lit" and l.get("lk") == "bool"]
                if vals:
                    st[sw[0]] = vals[0]
    push_under = {}
    for n in hirq.walk(rd.hir["body"]):
        if n["e"] == "if":
            c = hirq.strip(n["cond"])
            if c.get("e") == "path" and "local" in c:
                for branch, val in (("then", True), ("else", False)):
                    if n.get(branch) is not None:
                        for p in hirq.walk(n[branch]):
                            if p["e"] == "mcall" and p["name"] == "push":
                                push_under[val] = arg_name(p["recv"])
    # the same dispatch written as match arms `Some(true) => into.push(..)`, `Some(false) => from.push(..)`
    for m in hirq.matches(rd):
        for arm in m["arms"]:
            lits = [q["lit"] for q in hirq.walk_pats(arm["pat"]) if q.get("p") == "lit" and q.get("lk") == "bool"]
            if len(lits) == 1:
                for p in hirq.walk(arm["body"]):
                    if p["e"] == "mcall" and p["name"] == "push":
                        push_under.setdefault(lits[0], arg_name(p["recv"]))
    ok = bool(st) and bool(push_under) and push_under.get(st.get("@into")) == "into" and push_under.get(st.get("@from")) == "from"
    r.inst("alias: reader files lines after @into into `into` and after @from into `from`", fn_loc(rd), "ok" if ok else "report")
    if not ok:
        r.report("TAB-7|alias|reader-state", fn_loc(rd), rd.path,
                 "parse_alias state machine: section flags %s, pushes %s; lines after @into must land in `into`, after @from in `from`" % (st, push_under))
    # blank lines: the reader files EVERY non-comment line that follows a section tag, so a blank separator written by
    # to_alias comes back as an empty alias -- unless the reader skips empty lines
    blanks = [n for n in _lits(w, ("str", "fmt")) if n["lit"].startswith("\n") or "\n\n" in n["lit"] or (n["lit"].endswith("\n") and not n["lit"].strip())]
    skips = False
    for n in hirq.walk(rd.hir["body"]):
        if n["e"] == "if" and any(c["e"] == "mcall" and c["name"] == "is_empty" and (c.get("rty") or "").lstrip("&") == "str" for c in hirq.walk(n["cond"])) \
                and any(c["e"] == "continue" for c in hirq.walk(n["then"])):
            skips = True
    ok = not blanks or skips
    r.inst("alias: the writer emits no blank line (%d literal(s) would), or the reader skips blank lines (%s)" % (len(blanks), "it does" if skips else "it files them"),
           fn_loc(w, blanks[0].get("ln") if blanks else None), "ok" if ok else "report")
    if not ok:
        r.report("TAB-7|alias|blank-line", fn_loc(w, blanks[0].get("ln")), w.path,
                 "to_alias writes a blank line (%r) but parse_alias files every non-comment line after a section tag: the separator is read back as an empty alias at the end of `into`, so json -> alias -> json is not the identity" % blanks[0]["lit"])
    # --- wsca comments
    pw = ctx.fn(bn, "asca_bin::cli::parse::parse_wsca")
    sp = [hirq.strip(n["args"][0]).get("lit") for n in hirq.walk(pw.hir["body"]) if n["e"] == "mcall" and n["name"] == "split" and n["args"]]
    ok = sp == ["#"]
    r.inst("wsca: comments split off at '#'", fn_loc(pw), "ok" if ok else "report")
    if not ok:
        r.report("TAB-7|wsca|comment", fn_loc(pw), pw.path, "parse_wsca splits on %r, the documented comment sigil is '#'" % sp)
    # --- JSON: one schema type both ways
    for f in ("asca_bin::cli::convert::from_asca", "asca_bin::cli::convert::from_json", "asca_bin::cli::convert::from_seq",
              "asca_bin::cli::run::get_input"):
        b = ctx.fn(bn, f)
        uses = any("asca_bin::cli::AscaJson" in (t["callee"].get("inst") or "") for _, t in b.calls()) or any(
            n["e"] == "struct" and n.get("path") == "asca_bin::cli::AscaJson" for n in hirq.walk(b.hir["body"])) or any(
            "asca_bin::cli::AscaJson" in (l.get("ty") or "") for l in b.locals)
        r.inst("%s (de)serialises through cli::AscaJson" % f.rsplit("::", 1)[-1], fn_loc(b), "ok" if uses else "report")
        if not uses:
            r.report("TAB-7|json|%s" % f, fn_loc(b), f, "%s does not go through the shared AscaJson type" % f)
    aj = ctx.adt(bn, "asca_bin::cli::AscaJson")
    fields = [f["name"] for f in aj["variants"][0]["fields"]]
    ok = fields == ["into", "from", "words", "rules"] or set(fields) == {"into", "from", "words", "rules"}
    r.inst("AscaJson has the fields %s" % fields, aj["loc"], "ok" if ok else "report")
    if not ok:
        r.report("TAB-7|json|fields", aj["loc"], "asca_bin::cli::AscaJson", "AscaJson fields are %s" % fields)
    return r


# ---------------------------------------------------------------- CLI-2

RECURSIVE = ["get_all_rules", "get_orig_alias_into", "get_orig_words", "get_words", "run_sequence"]


def cli2(ctx):
    r = RuleResult("CLI-2", "cyclic / dangling `%tag` references are rejected before any function follows them", floor=22)
    bn = ctx.bin
    P = "asca_bin::cli::config::parser::Parser::"
    parse = ctx.fn(bn, P + "parse")
    stmts = list(parse.hir["body"].get("stmts", []))
    tail = parse.hir["body"].get("tail")
    # tail is Ok(conf); no other Ok return
    ok_tail = tail is not None and hirq.strip(tail).get("e") == "call" and (hirq.strip(hirq.strip(tail)["f"]).get("path") or "").endswith("Result::Ok")
    other_ok = [n for n in hirq.walk({"e": "x", "s": stmts}) if n["e"] == "ret" and not n.get("exp")
                and any((hirq.strip(c.get("f") or {}).get("path") or "").endswith("Result::Ok") for c in hirq.walk(n) if c["e"] == "call")]
    r.inst("Parser::parse returns Ok only at its end", fn_loc(parse), "ok" if ok_tail and not other_ok else "report")
    if not ok_tail or other_ok:
        r.report("CLI-2|parse|early-ok", fn_loc(parse), parse.path, "Parser::parse can return Ok before the validation loops")
    lets = single_lets(parse.hir["body"])
    top_loops = []
    for s in stmts:
        for pat, it, body, ln in for_loops(s):
            top_loops.append((s, pat, it, body, ln))
            break
    # a validation helper called as a top-level statement `self.h(&conf, ..)?;` contributes its own top-level loops
    rename = {}
    for s in stmts:
        s0 = hirq.strip(s)
        if not (s0.get("e") == "match" and str(s0.get("src", "")).startswith("TryDesugar")):
            continue
        sc = hirq.strip(s0["scrut"])
        inner = hirq.strip(sc["args"][0]) if sc.get("e") == "call" and sc.get("args") else {}
        if inner.get("e") != "mcall" or not (inner.get("def") or "").startswith(P):
            continue
        hb = bn.body(inner["def"])
        if hb is None or not hb.hir:
            continue
        hstmts = list(hb.hir["body"].get("stmts", []))
        for hs in hstmts:
            if hirq.strip(hs).get("src") == "ForLoopDesugar":
                for pat, it, body, ln in for_loops(hs):
                    top_loops.append((hs, pat, it, body, ln))
                    break
        for pname, a in zip(hb.param_names[1:], inner["args"]):
            rename[pname] = arg_name(a)
    dangling = cycle = None
    for s, pat, it, body, ln in top_loops:
        if hirq.strip(s).get("src") != "ForLoopDesugar":
            continue            # the loop must be a direct statement of the function body
        names = {n.get("def") or "" for n in hirq.walk(body) if n["e"] == "mcall"}
        if any(d.endswith("HashSet::contains") for d in names):
            dangling = (pat, it, body, ln)
        if any(d == P + "detect_tag_loop" for d in names):
            cycle = (pat, it, body, ln)
    for name, L in (("dangling-reference", dangling), ("cycle", cycle)):
        r.inst("Parser::parse has a top-level %s validation loop before Ok" % name, fn_loc(parse, L[3]) if L else fn_loc(parse),
               "ok" if L else "report")
        if not L:
            r.report("CLI-2|parse|%s-loop" % name, fn_loc(parse), parse.path,
                     "the %s validation loop is missing from (or no longer a top-level statement of) Parser::parse" % name)
            continue
        pat, it, body, ln = L
        # ranges over all elements: base is the vector being returned; adaptors: only filter(|c| c.from.is_some())
        e = hirq.strip(it)
        while e.get("e") == "path" and e.get("local") in lets and hirq.strip(lets[e["local"]]).get("e") == "mcall":
            e = hirq.strip(lets[e["local"]])
        adaptors = []
        while e.get("e") in ("mcall", "addr"):
            if e["e"] == "addr":
                e = hirq.strip(e["a"])
                continue
            adaptors.append(e)
            e = hirq.strip(e["recv"])
        base = expr_name(e)
        if base[0] == "local" and base[1] in rename:
            base = ("local", rename[base[1]])
        ret_name = arg_name(hirq.strip(tail)["args"][0]) if ok_tail else None
        bad = []
        for a in adaptors:
            if a["name"] in ("iter", "collect", "into_iter"):
                continue
            if a["name"] == "filter":
                clo = hirq.strip(a["args"][0])
                flds = [n["name"] for n in hirq.walk(clo) if n["e"] == "field"]
                calls = [n["name"] for n in hirq.walk(clo) if n["e"] == "mcall"]
                if flds == ["from"] and calls == ["is_some"]:
                    continue
            bad.append(a["name"])
        ok = base == ("local", ret_name) and not bad
        r.inst("%s loop ranges over every element of `%s`" % (name, ret_name), fn_loc(parse, ln), "ok" if ok else "report")
        if not ok:
            r.report("CLI-2|parse|%s-range" % name, fn_loc(parse, ln), parse.path,
                     "the %s loop iterates %s through %s: not every tag with a reference is checked" % (name, base[-1], bad or "-"))
        # the failing edge returns Err
        errs = [n for n in hirq.walk(body) if n["e"] == "ret" and not n.get("exp")]
        ok = bool(errs) and all(any((hirq.strip(c.get("f") or {}).get("path") or "").endswith("Result::Err") for c in hirq.walk(x) if c["e"] == "call") for x in errs)
        exits = [n for n in hirq.walk(body) if n["e"] in ("break", "continue") and not n.get("exp")]
        r.inst("%s loop rejects with `return Err` and has no break/continue" % name, fn_loc(parse, ln), "ok" if ok and not exits else "report")
        if not ok or exits:
            r.report("CLI-2|parse|%s-reject" % name, fn_loc(parse, ln), parse.path, "the %s loop does not end in `return Err(..)` on failure" % name)
    # detector: loop with set.insert; failed insert returns true
    det = ctx.fn(bn, P + "detect_tag_loop")
    loops = [n for n in hirq.walk(det.hir["body"]) if n["e"] == "loop"]
    good = False
    for n in hirq.walk(det.hir["body"]):
        if n["e"] == "if":
            c = hirq.strip(n["cond"])
            if c.get("e") == "unary" and c["op"] == "Not":
                ins = [x for x in hirq.walk(c) if x["e"] == "mcall" and (x.get("def") or "").endswith("HashSet::insert")]
                rets = [x for x in hirq.walk(n["then"]) if x["e"] == "ret" and x.get("a") is not None and hirq.strip(x["a"]).get("lit") is True]
                if ins and rets:
                    good = True
    ok = len(loops) == 1 and good
    r.inst("detect_tag_loop inserts every visited tag into a set and returns true on a repeated tag", fn_loc(det), "ok" if ok else "report")
    if not ok:
        r.report("CLI-2|detect_tag_loop|shape", fn_loc(det), det.path,
                 "detect_tag_loop no longer has the shape `if !set.insert(tag) { return true }` inside its single loop")
    # ASCAConfig literals with a non-None `from` only in the config parser
    for b in bn.bodies:
        if b.in_test_mod() or not b.hir or b.kind == "closure" or b.exp:
            continue          # b.exp: derive(Clone) output copies an existing value
        for n in hirq.walk(b.hir["body"]):
            if n["e"] == "struct" and n.get("path") == "asca_bin::cli::seq::ASCAConfig":
                fv = dict((k, v) for k, v in n["fields"])
                frm = hirq.strip(fv.get("from") or {})
                is_none = frm.get("e") == "path" and (frm.get("path") or "").endswith("Option::None")
                ok = is_none or b.path.startswith("asca_bin::cli::config::parser::")
                r.inst("%s builds an ASCAConfig (from = %s)" % (b.path.split("::", 1)[-1], "None" if is_none else "value"), fn_loc(b, n["ln"]),
                       "ok" if ok else "report")
                if not ok:
                    r.report("CLI-2|literal|%s" % b.path, fn_loc(b, n["ln"]), b.path, "ASCAConfig with a `from` reference is built outside the validating parser")
    # provenance of the config slice handed to the recursive functions
    S = "asca_bin::cli::seq::"
    rec = {S + n for n in RECURSIVE}
    for f in rec:
        ctx.fn(bn, f)
    n_sites = 0
    for b in bn.bodies:
        if b.in_test_mod() or not b.hir or b.kind == "closure":
            continue
        lets_b = single_lets(b.hir["body"])
        for callee, args, ln in all_calls(b):
            if callee not in rec:
                continue
            n_sites += 1
            a = hirq.strip(args[0])
            while a.get("e") == "addr":
                a = hirq.strip(a["a"])
            nm = expr_name(a)
            ok = False
            why = ""
            if nm[0] == "local" and nm[1] in b.param_names:
                ok = b.path in rec or b.path in (S + "handle_sequence",)
                why = "parameter of %s" % b.path.rsplit("::", 1)[-1]
                if b.path == S + "handle_sequence":
                    why += " (called from seq::run with the get_config result)"
            elif nm[0] == "local" and nm[1] in lets_b:
                init = lets_b[nm[1]]
                ok = any(c["e"] == "call" and (hirq.strip(c["f"]).get("path") or "").endswith("cli::seq::get_config") for c in hirq.walk(init))
                why = "bound from get_config(..)?"
            r.inst("%s -> %s: config slice is %s" % (b.path.split("::", 1)[-1], callee.rsplit("::", 1)[-1], why or nm), fn_loc(b, ln),
                   "ok" if ok else "report")
            if not ok:
                r.report("CLI-2|provenance|%s|%s" % (b.path, callee), fn_loc(b, ln), b.path,
                         "%s receives a config slice that does not come from get_config (validated by Parser::parse)" % callee)
    # handle_sequence callers
    for b in bn.bodies:
        if b.in_test_mod() or not b.hir or b.kind == "closure":
            continue
        lets_b = single_lets(b.hir["body"])
        for callee, args, ln in all_calls(b):
            if callee == S + "handle_sequence":
                a = hirq.strip(args[0])
                while a.get("e") == "addr":
                    a = hirq.strip(a["a"])
                nm = expr_name(a)
                ok = nm[0] == "local" and nm[1] in lets_b and any(
                    c["e"] == "call" and (hirq.strip(c["f"]).get("path") or "").endswith("cli::seq::get_config") for c in hirq.walk(lets_b[nm[1]]))
                r.inst("%s -> handle_sequence: config bound from get_config(..)?" % b.path.split("::", 1)[-1], fn_loc(b, ln), "ok" if ok else "report")
                if not ok:
                    r.report("CLI-2|provenance|%s|handle_sequence" % b.path, fn_loc(b, ln), b.path, "handle_sequence receives a config not obtained from get_config")
    gc = ctx.fn(bn, S + "get_config")
    tl = hirq.strip(gc.hir["body"].get("tail") or {})
    ok = tl.get("e") == "mcall" and tl.get("def") == P + "parse"
    r.inst("get_config returns the result of config::Parser::parse", fn_loc(gc), "ok" if ok else "report")
    if not ok:
        r.report("CLI-2|get_config|tail", fn_loc(gc), gc.path, "get_config no longer returns Parser::parse(..) directly")
    r.analysed = {"recursive_call_sites": n_sites}
    return r


# ---------------------------------------------------------------- CLI-3


def cli3(ctx):
    r = RuleResult("CLI-3", "filters: `~` keeps the named groups in the order named, `!` removes in file order; names compared case-insensitively", floor=8)
    bn = ctx.bin
    P = "asca_bin::cli::config::parser::Parser::"
    pe = ctx.fn(bn, P + "parse_entry")
    rules_param = pe.param_names[1]
    m = None
    for mm in hirq.matches(pe):
        if any((p.get("path") or "").startswith("asca_bin::cli::seq::RuleFilter::") for a in mm["arms"] for p in hirq.flat_pats(a["pat"])):
            m = mm
            break
    if m is None:
        raise AnchorMissing("parse_entry: match on RuleFilter not found")
    arms = {}
    for arm in m["arms"]:
        p = hirq.flat_pats(arm["pat"])[0]
        v = (p.get("path") or "").rsplit("::", 1)[-1]
        bind = None
        if p.get("pats"):
            bind = p["pats"][0].get("name")
        arms[v] = (arm, bind)
    for v in ("Only", "Without", "OnlyMult", "WithoutMult"):
        if v not in arms:
            r.report("CLI-3|parse_entry|missing|%s" % v, fn_loc(pe), pe.path, "no arm for RuleFilter::%s" % v)
    # OnlyMult: loop over the filter list, one push per filter, error when absent
    if "OnlyMult" in arms:
        arm, bind = arms["OnlyMult"]
        loops = for_loops(arm["body"])
        okl = False
        for pat, it, body, ln in loops:
            e = hirq.strip(it)
            adapt = []
            while e.get("e") in ("mcall", "addr"):
                if e["e"] == "mcall":
                    adapt.append(e["name"])
                    e = hirq.strip(e["recv"])
                else:
                    e = hirq.strip(e["a"])
            if expr_name(e) == ("local", bind) and all(a in ("iter",) for a in adapt):
                finds = [n for n in hirq.walk(body) if n["e"] == "mcall" and n["name"] == "find"]
                pushes = [n for n in hirq.walk(body) if n["e"] == "mcall" and n["name"] == "push"]
                errs = [n for n in hirq.walk(body) if n["e"] == "ret" and not n.get("exp")]
                okl = len(finds) == 1 and len(pushes) == 1 and len(errs) >= 1 and expr_name(hirq.strip(_chain_base(finds[0]))) == ("local", rules_param)
        r.inst("`~{..}`: result built by a loop over the filter list `%s`, one push per name, error if absent" % bind, fn_loc(pe, arm["ln"]),
               "ok" if okl else "report")
        if not okl:
            r.report("CLI-3|OnlyMult|order", fn_loc(pe, arm["ln"]), pe.path,
                     "the `~{a,b}` filter does not build its result by looping over the filter list in the order named (one group per name, error when missing)")
    # Without / WithoutMult: filter over the file's groups
    for v in ("Without", "WithoutMult"):
        if v not in arms:
            continue
        arm, bind = arms[v]
        colls = [n for n in hirq.walk(arm["body"]) if n["e"] == "mcall" and n["name"] == "collect"]
        ok = False
        for c in colls:
            names = []
            e = c
            while e.get("e") == "mcall":
                names.append(e["name"])
                e = hirq.strip(e["recv"])
            if expr_name(e) == ("local", rules_param) and set(names) <= {"collect", "cloned", "filter", "iter"} and "filter" in names:
                ok = True
        r.inst("`!` (%s): result is a `filter` over the file's groups (file order kept)" % v, fn_loc(pe, arm["ln"]), "ok" if ok else "report")
        if not ok:
            r.report("CLI-3|%s|order" % v, fn_loc(pe, arm["ln"]), pe.path, "the `!` filter (%s) is not a plain filter over the file's groups in file order" % v)
    # case folding of every name comparison
    n_cmp = 0
    for v, (arm, bind) in arms.items():
        for n in hirq.walk(arm["body"]):
            if n["e"] == "binary" and n["op"] in ("Eq", "Ne"):
                sides = [hirq.strip(n["a"]), hirq.strip(n["b"])]
                if not any(x["e"] == "field" and x["name"] == "name" for s_ in sides for x in hirq.walk(s_)):
                    continue
                n_cmp += 1
                ok = all(s_.get("e") == "mcall" and s_["name"] == "to_lowercase" for s_ in sides)
                r.inst("%s: name comparison folds case on both sides" % v, fn_loc(pe, n["ln"]), "ok" if ok else "report")
                if not ok:
                    r.report("CLI-3|%s|case" % v, fn_loc(pe, n["ln"]), pe.path, "group name and filter name are compared without `to_lowercase()` on both sides")
            if n["e"] == "mcall" and n["name"] in ("eq_ignore_ascii_case",) and any(x["e"] == "field" and x["name"] == "name" for x in hirq.walk(n)):
                n_cmp += 1
                r.inst("%s: name comparison folds ASCII case only" % v, fn_loc(pe, n["ln"]), "report")
                r.report("CLI-3|%s|ascii-fold" % v, fn_loc(pe, n["ln"]), pe.path,
                         "group name and filter name are compared with `eq_ignore_ascii_case`, while get_filter_list stores the filter names through the Unicode `to_lowercase()`: a group whose name has a non-ASCII capital (`Élision`) can no longer be named by any spelling in the config")
            if n["e"] == "mcall" and n["name"] == "contains" and expr_name(n["recv"]) == ("local", bind):
                n_cmp += 1
                ok = any(x["e"] == "mcall" and x["name"] == "to_lowercase" for x in hirq.walk(n["args"][0]))
                r.inst("%s: `contains` looks up the lower-cased group name" % v, fn_loc(pe, n["ln"]), "ok" if ok else "report")
                if not ok:
                    r.report("CLI-3|%s|case-contains" % v, fn_loc(pe, n["ln"]), pe.path, "filter list lookup does not lower-case the group name")
    fl = ctx.fn(bn, P + "get_filter_list")
    pushes = [n for n in hirq.walk(fl.hir["body"]) if n["e"] == "mcall" and n["name"] == "push"]
    ok = bool(pushes) and all(hirq.strip(p["args"][0]).get("e") == "mcall" and hirq.strip(p["args"][0])["name"] == "to_lowercase" for p in pushes)
    r.inst("get_filter_list lower-cases every filter name it stores (%d pushes)" % len(pushes), fn_loc(fl), "ok" if ok else "report")
    if not ok:
        r.report("CLI-3|get_filter_list|case", fn_loc(fl), fl.path, "a filter name is stored without `to_lowercase()`")
    if n_cmp < 4:
        raise AnchorMissing("parse_entry: fewer than 4 name comparisons found (%d)" % n_cmp)
    return r


def _chain_base(mcall):
    e = mcall
    while e.get("e") == "mcall":
        e = hirq.strip(e["recv"])
    return e


# ---------------------------------------------------------------- CLI-5


def cli5(ctx):
    r = RuleResult("CLI-5", "`seq` stages are applied in listed order on the previous stage's output; exported history = upstream rules then own entries", floor=11)
    bn = ctx.bin
    S = "asca_bin::cli::seq::"
    rs = ctx.fn(bn, S + "run_sequence")
    loops = for_loops(rs.hir["body"])
    L = None
    for pat, it, body, ln in loops:
        e = enumerate_index(pat, it, with_adaptors=True, lets=single_lets(rs.hir["body"]))
        if e and expr_name(e[2])[-1] == "entries":
            L = (e, body, ln)
    if L is None:
        raise AnchorMissing("run_sequence: `for (i, entry) in seq.entries.iter().enumerate()` not found")
    (iname, xname, base, adaptors), body, ln = L
    r.inst("run_sequence iterates seq.entries front to back (adaptors: %s)" % (adaptors or "none"), fn_loc(rs, ln), "ok" if not adaptors else "report")
    if adaptors:
        r.report("CLI-5|run_sequence|adaptor", fn_loc(rs, ln), rs.path, "the stage loop goes through %s" % adaptors)
    runs = [(c, a, l) for c, a, l in all_calls_node(body) if c == "asca::run"]
    if len(runs) != 1:
        raise AnchorMissing("run_sequence: exactly one asca::run call expected in the stage loop, found %d" % len(runs))
    _, args, cl = runs[0]
    a0 = expr_name(args[0])
    a1 = hirq.strip(args[1])
    while a1.get("e") == "addr":
        a1 = hirq.strip(a1["a"])
    ok0 = a0 == ("field", ("local", xname), "rules")
    ok1 = a1.get("e") == "index" and expr_name(a1["a"]) == ("local", "trace") and expr_name(a1["i"]) == ("local", iname)
    r.inst("stage i runs `%s.rules` on trace[%s]" % (xname, iname), fn_loc(rs, cl), "ok" if ok0 and ok1 else "report")
    if not (ok0 and ok1):
        r.report("CLI-5|run_sequence|stage-input", fn_loc(rs, cl), rs.path,
                 "stage %s does not run the entry's own rules on the previous stage's output trace[%s]" % (iname, iname))
    trace_name = "trace"
    pushes = [n for n in hirq.walk(body) if n["e"] == "mcall" and n["name"] == "push" and expr_name(n["recv"]) == ("local", trace_name)]
    r.inst("each stage pushes exactly one result onto the trace", fn_loc(rs, ln), "ok" if len(pushes) == 1 else "report")
    if len(pushes) != 1:
        r.report("CLI-5|run_sequence|push", fn_loc(rs, ln), rs.path, "%d pushes onto the trace per stage" % len(pushes))
    ex = [n for n in hirq.walk(body) if n["e"] in ("break", "continue") and not n.get("exp")]
    r.inst("stage loop has no break/continue", fn_loc(rs, ln), "ok" if not ex else "report")
    if ex:
        r.report("CLI-5|run_sequence|exit", fn_loc(rs, ex[0]["ln"]), rs.path, "`%s` in the stage loop skips stages" % ex[0]["e"])
    # initial trace element = the words
    pre = [n for n in hirq.walk(rs.hir["body"]) if n["e"] == "mcall" and n["name"] == "push" and expr_name(n["recv"]) == ("local", trace_name) and n not in pushes]
    ok = len(pre) == 1 and arg_name(pre[0]["args"][0]) == "words"
    r.inst("trace starts with the input words", fn_loc(rs), "ok" if ok else "report")
    if not ok:
        r.report("CLI-5|run_sequence|init", fn_loc(rs), rs.path, "the trace is not initialised with exactly the input words")
    # cached value for a tag is the last trace element
    for f in ("get_words", "handle_sequence"):
        b = ctx.fn(bn, S + f)
        ins = [n for n in hirq.walk(b.hir["body"]) if n["e"] == "mcall" and n["name"] == "insert" and (n.get("def") or "").endswith("HashMap::insert")]
        lets = single_lets(b.hir["body"])
        for n in ins:
            v = hirq.strip(n["args"][1])
            seen = 0
            while v.get("e") == "mcall" and v["name"] in ("clone", "unwrap", "to_vec") and seen < 6:
                v = hirq.strip(v["recv"])
                seen += 1
            if v.get("e") == "path" and v.get("local") in lets:
                v = hirq.strip(lets[v["local"]])
                while v.get("e") == "mcall" and v["name"] in ("clone", "unwrap", "to_vec"):
                    v = hirq.strip(v["recv"])
            ok = v.get("e") == "mcall" and v["name"] == "last"
            r.inst("%s caches the final stage's words for the tag" % f, fn_loc(b, n["ln"]), "ok" if ok else "report")
            if not ok:
                r.report("CLI-5|%s|cache" % f, fn_loc(b, n["ln"]), b.path, "the per-tag cache stores something other than `trace.last()`")
            # the key is the tag of the sequence that was run
            ran = [arg_name(a[3]) for c_, a, _l in all_calls(b) if c_ == S + "run_sequence" and len(a) > 3]
            k = hirq.strip(n["args"][0])
            while k.get("e") == "mcall" and k["name"] in ("clone", "to_owned", "into"):
                k = hirq.strip(k["recv"])
            kn = expr_name(k)
            okk = len(set(ran)) == 1 and kn == ("field", ("local", ran[0]), "tag")
            r.inst("%s files the cached words under the tag of the sequence it ran (`%s.tag`)" % (f, ran[0] if ran else "?"), fn_loc(b, n["ln"]),
                   "ok" if okk else "report")
            if not okk:
                r.report("CLI-5|%s|cache-key" % f, fn_loc(b, n["ln"]), b.path,
                         "the result of run_sequence(.., %s, ..) is cached under the key %s" % (ran, kn))
    # get_words: extra word files appended after upstream words
    gw = ctx.fn(bn, S + "get_words")
    bad = [n["name"] for n in hirq.walk(gw.hir["body"]) if n["e"] == "mcall" and expr_name(n["recv"]) == ("local", "words")
           and n["name"] in ("insert", "splice", "rotate_left", "rotate_right", "reverse", "sort", "dedup", "retain", "truncate", "clear")]
    r.inst("get_words only appends to the upstream words", fn_loc(gw), "ok" if not bad else "report")
    if bad:
        r.report("CLI-5|get_words|append", fn_loc(gw), gw.path, "get_words uses %s on the word list" % bad)
    # get_all_rules: upstream first, then own entries in order
    gar = ctx.fn(bn, S + "get_all_rules")
    seq_ok = True
    n_branch = 0
    for n in hirq.walk(gar.hir["body"]):
        if n["e"] == "block":
            st = [hirq.strip(s) for s in n.get("stmts", [])]
            rec_i = [i for i, s in enumerate(st) if s.get("e") == "let" and s.get("init") is not None and any(
                c["e"] == "call" and hirq.strip(c["f"]).get("path") == S + "get_all_rules" for c in hirq.walk(s["init"]))]
            loop_i = [i for i, s in enumerate(st) if s.get("src") == "ForLoopDesugar"]
            if rec_i and loop_i:
                n_branch += 1
                if not rec_i[0] < loop_i[0]:
                    seq_ok = False
    ext = [n for n in hirq.walk(gar.hir["body"]) if n["e"] == "mcall" and expr_name(n["recv"]) == ("local", "rules")]
    bad = sorted({n["name"] for n in ext if n["name"] not in ("extend_from_slice", "extend", "push", "append")})
    loops = for_loops(gar.hir["body"])
    adapt_bad = []
    for pat, it, body, ln in loops:
        e = hirq.strip(it)
        while e.get("e") in ("mcall", "addr"):
            if e["e"] == "mcall":
                if e["name"] not in ("iter",):
                    adapt_bad.append(e["name"])
                e = hirq.strip(e["recv"])
            else:
                e = hirq.strip(e["a"])
    ok = seq_ok and n_branch >= 1 and not bad and not adapt_bad
    r.inst("get_all_rules: upstream history first, then own entries front to back, append-only", fn_loc(gar), "ok" if ok else "report")
    if not ok:
        r.report("CLI-5|get_all_rules|order", fn_loc(gar), gar.path,
                 "exported rule history is not `upstream ++ own entries` (recursive call before loop: %s, other Vec ops: %s, loop adaptors: %s)" % (seq_ok and n_branch >= 1, bad, adapt_bad))
    return r
