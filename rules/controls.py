"""Positive controls: every generic analysis core must fire on the deliberately bad instance of the
fixture crate (/verif/fixtures/positive) and stay silent on its good twin. A control that does not
behave makes the check fail closed."""
import hirq
from core import Ctx, RuleResult


def _ctx(unit):
    return Ctx(unit, unit, "/nonexistent")


def c_pur1(unit):
    import engine_pur
    r = engine_pur.pur1(_ctx(unit), unit=unit, roots=["poscontrol::pur1_root"], rule_id="PUR-1")
    bad = [x for x in r.reports if "std::env::var" in x.msg]
    r2 = engine_pur.pur1(_ctx(unit), unit=unit, roots=["poscontrol::err1_real"], rule_id="PUR-1")
    return {"fired": bool(bad), "good_silent": not [x for x in r2.reports if "|deny|" in x.key], "detail": [x.msg[:120] for x in bad[:1]]}


def c_pur2(unit):
    import engine_pur
    out = {}
    for name in ("pur2_bad", "pur2_good", "pur2_first"):
        b = unit.body("poscontrol::" + name)
        sites = engine_pur.hash_iteration_sites(b)
        out[name] = [engine_pur.classify_hash_site(b, k, n) for k, n in sites]
    fired = bool(out["pur2_bad"]) and not out["pur2_bad"][0][0] and bool(out["pur2_first"]) and not out["pur2_first"][0][0]
    good = bool(out["pur2_good"]) and out["pur2_good"][0][0]
    return {"fired": fired, "good_silent": good, "detail": [str(out["pur2_bad"][:1]), str(out["pur2_good"][:1])]}


def c_pur3(unit):
    bad = [s for s in unit.statics if not s["freeze"] and "Mutex" in s["ty"]]
    return {"fired": bool(bad), "good_silent": True, "detail": [s["path"] for s in bad]}


def c_pan1(unit):
    import engine_pan
    r = engine_pan.pan1(_ctx(unit), min_sites=0)
    bad = [x for x in r.reports if "pan1_bad" in x.fn]
    good = [x for x in r.reports if "pan1_good" in x.fn]
    return {"fired": bool(bad), "good_silent": not good, "detail": [x.msg[:140] for x in bad[:1]]}


def c_cli1(unit):
    import engine_cli
    r = engine_cli.cli1(_ctx(unit))
    bad = [x for x in r.reports if "cli1_bad" in x.fn]
    good = [x for x in r.reports if "cli1_good" in x.fn]
    return {"fired": bool(bad), "good_silent": not good, "detail": [x.msg[:140] for x in bad[:1]]}


def c_err1(unit):
    import engine_err
    return {"fired": engine_err.is_stub(unit.body("poscontrol::err1_stub")), "good_silent": not engine_err.is_stub(unit.body("poscontrol::err1_real")), "detail": []}


def c_flw_guard(unit):
    from engine_flw import track_value, guard_switches, only_reachable_via, find_calls
    res = {}
    for name in ("flw_bad", "flw_good"):
        b = unit.body("poscontrol::" + name)
        cfg = b.cfg
        T = find_calls(b, "poscontrol::write")[0][0]
        chk = find_calls(b, "poscontrol::check")[0]
        vals = track_value(b, chk[1]["dest"]["l"])
        bools, _ = guard_switches(b, vals)
        res[name] = any(cfg.dominates(sb, T) and only_reachable_via(cfg, sb, f_succ, T) for sb, t_succ, f_succ in bools)
    return {"fired": not res["flw_bad"], "good_silent": res["flw_good"], "detail": [str(res)]}


def c_syn1(unit):
    import engine_tab2
    bad = engine_tab2.kind_tests(unit.body("poscontrol::P::syn1_bad"), "Tok")
    good = engine_tab2.kind_tests(unit.body("poscontrol::P::syn1_good"), "Tok")
    f = len(bad.get("Pipe", [])) != len(bad.get("DubSlash", []))
    g = len(good.get("Pipe", [])) == len(good.get("DubSlash", [])) == 1
    return {"fired": f, "good_silent": g, "detail": [str({k: len(v) for k, v in bad.items()})]}


def c_pan3(unit):
    import engine_pan as P
    EN = "poscontrol::El"
    kf = P.KindFlow(unit, "poscontrol::Gram::", EN, "poscontrol::It::new", {"Set": 0}, item_marker="It")
    content = kf.content.get("Set", set())
    tf = P.TagFlow(unit, lambda b: b.path == "poscontrol::consume", EN, {"Set": 0}, {}, item_marker="It")
    b = unit.body("poscontrol::consume")
    allv = ["A", "B", "Set"]
    hits = []
    for m in hirq.matches(b):
        if "El" not in (m.get("sty") or ""):
            continue
        pan = P.panic_variants(m, EN, allv)
        tags = P.flat_tags(tf.eval(b.path, m["scrut"]))
        for t in tags:
            hits += sorted(content & set(pan)) if t == "Set" else []
    return {"fired": hits == ["B"], "good_silent": content == {"A", "B"}, "detail": [str(sorted(content)), str(hits)]}


def c_bit(unit):
    """bit-level abstract interpretation: get/set law (set_b keeps old payload bits) and canonical form
    (set_a(None) leaves residual payload) are refuted on `bitbad::Pk` and proved on `bitgood::Pk`"""
    import engine_bit
    out = {}
    for m in ("bitbad", "bitgood"):
        pm = engine_bit.PlaceModel(_ctx(unit), PLACE="poscontrol::%s::Pk" % m, min_subs=2, bits=8)
        r1 = engine_bit.bit1(_ctx(unit), pm=pm, floor=0)
        r2 = engine_bit.bit2(_ctx(unit), pm=pm, floor=0)
        out[m] = (r1.reports, r2.reports)
    fired = any("|law|set_b(Some)|get_b|" in x.key for x in out["bitbad"][0]) and any("set_a(None)" in x.key for x in out["bitbad"][1])
    good = not out["bitgood"][0] and not out["bitgood"][1]
    return {"fired": fired, "good_silent": good, "detail": [x.msg[:160] for x in (out["bitbad"][0][:1] + out["bitbad"][1][:1])]}


def c_pan7(unit):
    import engine_pan
    r = engine_pan.pan7(_ctx(unit), unit=unit, only=["pan7_"])
    bad = [x for x in r.reports if "pan7_bad" in x.fn]
    good = [x for x in r.reports if "pan7_good" in x.fn]
    seen = [i for i in r.instances if "pan7_good" in i["what"]]
    return {"fired": bool(bad), "good_silent": not good and bool(seen), "detail": [x.msg[:140] for x in bad[:1]]}


def c_syn2(unit):
    import engine_tab2
    r = engine_tab2.syn2(_ctx(unit), unit=unit, grammars=[("control", "poscontrol::Cur2")])
    bad = [x for x in r.reports if "syn2_bad" in x.fn]
    good = [x for x in r.reports if "syn2_good" in x.fn]
    seen = [i for i in r.instances if "syn2_good" in i["what"]]
    return {"fired": bool(bad), "good_silent": not good and bool(seen), "detail": [x.msg[:140] for x in bad[:1]]}


def c_syn6(unit):
    import engine_r5
    r = engine_r5.syn6(_ctx(unit), unit=unit, prefix="poscontrol::Rd6::", floor=1)
    bad = [x for x in r.reports if "syn6_bad" in x.key]
    good = [x for x in r.reports if "syn6_good" in x.key]
    seen = [i for i in r.instances if "syn6_good" in i["what"]]
    return {"fired": bool(bad), "good_silent": not good and bool(seen), "detail": [x.msg[:140] for x in bad[:1]]}


def c_sup10(unit):
    import engine_r5
    r = engine_r5.sup10(_ctx(unit), unit=unit, prefixes=("poscontrol::Tn10::",), floor=1)
    bad = [x for x in r.reports if "sup10_bad" in x.key]
    good = [x for x in r.reports if "sup10_good" in x.key]
    seen = [i for i in r.instances if "sup10_good" in i["what"]]
    return {"fired": bool(bad), "good_silent": not good and bool(seen), "detail": [x.msg[:140] for x in bad[:1]]}


def c_pan18(unit):
    import engine_r5
    r = engine_r5.pan18(_ctx(unit), unit=unit, prefix="poscontrol::Bw18::", floor=2)
    bad = [x for x in r.reports if "pan18_bad" in x.key]
    good = [x for x in r.reports if "pan18_good" in x.key]
    seen = [i for i in r.instances if "pan18_good" in i["what"]]
    return {"fired": bool(bad), "good_silent": not good and bool(seen), "detail": [x.msg[:140] for x in bad[:1]]}


CONTROLS = {
    "PUR-1": c_pur1, "PUR-2": c_pur2, "PUR-3": c_pur3, "PAN-1": c_pan1, "CLI-1": c_cli1, "ERR-1": c_err1,
    "FLW-guard": c_flw_guard, "SYN-1": c_syn1, "PAN-3": c_pan3, "BIT": c_bit, "PAN-7": c_pan7, "SYN-2": c_syn2, "SYN-6": c_syn6, "SUP-10": c_sup10, "PAN-18": c_pan18,
}
