"""Rule framework: instances, reports, anchors, results."""
import os
import re


class AnchorMissing(Exception):
    """An anchor (API item, core type, table) the rule is built on was not found.
    The rule fails closed."""


class Report:
    def __init__(self, rule, key, loc, fn, msg, detail=None):
        self.rule = rule
        self.key = key          # stable key, no line numbers
        self.loc = loc          # file:line[:col]
        self.fn = fn
        self.msg = msg
        self.detail = detail or {}

    def to_json(self):
        return {"rule": self.rule, "key": self.key, "loc": self.loc, "fn": self.fn,
                "msg": self.msg, "detail": self.detail}


class RuleResult:
    def __init__(self, rule_id, title, floor=0):
        self.rule = rule_id
        self.title = title
        self.floor = floor
        self.instances = []      # dicts: {"what":..., "loc":..., "verdict": "ok"|"report"|"accepted:<why>"}
        self.reports = []
        self.notes = []
        self.analysed = {}
        self.exceptions = []     # named one-symbol exceptions applied, with reasons
        self.nontrivial = 0      # instances where the rule had something to check

    def inst(self, what, loc=None, verdict="ok", nontrivial=True, **kw):
        d = {"what": what, "verdict": verdict}
        if loc:
            d["loc"] = loc
        d.update(kw)
        self.instances.append(d)
        if nontrivial:
            self.nontrivial += 1
        return d

    def report(self, key, loc, fn, msg, **detail):
        r = Report(self.rule, key, loc, fn, msg, detail)
        self.reports.append(r)
        return r

    def note(self, s):
        self.notes.append(s)


class Ctx:
    def __init__(self, lib, bin_, repo, tier="quick", lib_t=None, bin_t=None):
        self.lib = lib
        self.bin = bin_
        self.lib_t = lib_t
        self.bin_t = bin_t
        self.repo = repo
        self.tier = tier
        self._doc = {}

    def units(self):
        return [self.lib, self.bin]

    def read(self, rel):
        if rel not in self._doc:
            p = os.path.join(self.repo, rel)
            try:
                with open(p, "r", encoding="utf-8") as fh:
                    self._doc[rel] = fh.read()
            except OSError:
                raise AnchorMissing("file missing: " + rel)
        return self._doc[rel]

    def fn(self, unit, path):
        b = unit.body(path)
        if b is None:
            raise AnchorMissing("function not found: %s (unit %s)" % (path, unit.name))
        return b

    def adt(self, unit, path):
        a = unit.adts.get(path)
        if a is None:
            raise AnchorMissing("type not found: %s (unit %s)" % (path, unit.name))
        return a


def short_loc(loc):
    """file:line from file:line:col"""
    parts = loc.rsplit(":", 2)
    if len(parts) == 3 and parts[2].isdigit() and parts[1].isdigit():
        return parts[0] + ":" + parts[1]
    return loc


def fn_loc(body, line=None):
    return "%s:%s" % (body.file, line if line is not None else body.line)


def strip_generics(path):
    """Remove `::<...>` generic argument lists from a def path."""
    out = []
    depth = 0
    i = 0
    while i < len(path):
        c = path[i]
        if c == "<" and depth == 0 and i >= 2 and path[i - 2:i] == "::":
            # generic args after '::'
            depth = 1
            out = out[:-2]
            i += 1
            continue
        if depth > 0:
            if c == "<":
                depth += 1
            elif c == ">":
                depth -= 1
            i += 1
            continue
        out.append(c)
        i += 1
    return "".join(out)


_norm_re = re.compile(r"'[a-z_]+\b ?")


def norm_ty(t):
    """Drop lifetimes from a type string."""
    return _norm_re.sub("", t)
