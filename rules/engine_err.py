"""ERR engine — error discipline (C17; ERR-1 also counted under C02).

ERR-1  formatter dispatch agreement (no call resolves to an `unreachable!()` stub impl)
ERR-2  every error variant carries a location payload (type level)
ERR-3  index provenance: (group,line)/(kind,line) given to lexers/parsers are the enumerate indices
       of the very slices the formatters index; positions are built from self.group/self.line
"""
import re

import hirq
from core import AnchorMissing, RuleResult, fn_loc, short_loc
from facts import callee_path

TRAIT = "asca::error::ASCAError"
METHODS = ("get_error_message", "format_word_error", "format_rule_error", "format_alias_error")
LEAF_ENUMS = [
    "asca::error::syntax::WordSyntaxError", "asca::error::syntax::RuleSyntaxError", "asca::error::syntax::AliasSyntaxError",
    "asca::error::runtime::WordRuntimeError", "asca::error::runtime::RuleRuntimeError", "asca::error::runtime::AliasRuntimeError",
]


def is_stub(body):
    """The body does nothing but panic: entry reaches a diverging core::panicking call with no other call before."""
    i = 0
    seen = set()
    while i not in seen:
        seen.add(i)
        t = body.blocks[i]["t"]
        if t["k"] == "goto":
            i = t["t"]
            continue
        if t["k"] in ("call",):
            cp = callee_path(t) or ""
            return cp.startswith("core::panicking::") and t.get("t") is None
        return False
    return False


def err1(ctx):
    r = RuleResult("ERR-1", "error formatter dispatch: no call site resolves to an unreachable!() stub impl", floor=32)
    lib = ctx.lib
    impls = {}
    for b in lib.bodies:
        if b.impl_trait == TRAIT and b.kind == "assoc_fn":
            impls[b.path] = b
    if len(impls) < 28:
        raise AnchorMissing("expected 7 impls x 4 methods of ASCAError, found %d bodies" % len(impls))
    stubs = {p for p, b in impls.items() if is_stub(b)}
    r.analysed = {"impl_methods": len(impls), "stub_bodies": len(stubs)}
    if len(stubs) < 6:
        r.note("fewer stub impls than on the pinned tree (%d): the error API may have been redesigned" % len(stubs))
    n_sites = 0
    for unit in (ctx.lib, ctx.bin):
        for b in unit.bodies:
            if b.in_test_mod():
                continue
            for i, t in b.calls():
                c = t["callee"]
                if c.get("trait") != TRAIT and not (c.get("def") or "").startswith(TRAIT + "::"):
                    continue
                n_sites += 1
                res = c.get("res")
                loc = short_loc(t["loc"])
                meth = (c.get("def") or "").rsplit("::", 1)[-1]
                if res is None:
                    r.inst("%s: call of ASCAError::%s not statically resolvable (generic receiver)" % (b.path, meth), loc,
                           "accepted:generic", nontrivial=False)
                    continue
                ok = res not in stubs
                r.inst("%s calls %s" % (b.path.split("::", 1)[-1], res.split("::", 1)[-1]), loc, "ok" if ok else "report")
                if not ok:
                    r.report("ERR-1|%s|%s" % (b.path, res), loc, b.path,
                             "this call resolves to %s, whose body is a bare unreachable!(): formatting this error panics" % res)
    # dispatchers cover all variants of Error
    err = ctx.adt(lib, "asca::error::Error")
    vs = [v["name"] for v in err["variants"]]
    for unit, path in ((ctx.lib, "asca::parse_result_web"), (ctx.bin, "asca_bin::cli::util::print_asca_errors")):
        b = ctx.fn(unit, path)
        covered = set()
        for m in hirq.matches(b):
            for arm in m["arms"]:
                for p in hirq.flat_pats(arm["pat"]):
                    if p.get("p") == "ts" and (p.get("path") or "").startswith("asca::error::Error::"):
                        calls = [n.get("def") for n in hirq.walk(arm["body"]) if n["e"] in ("mcall",) and (n.get("def") or "").startswith(TRAIT)]
                        calls += [hirq.strip(n["f"]).get("path") for n in hirq.walk(arm["body"]) if n["e"] == "call"
                                  and (hirq.strip(n["f"]).get("path") or "").startswith(TRAIT)]
                        if calls:
                            covered.add(p["path"].rsplit("::", 1)[-1])
        missing = [v for v in vs if v not in covered]
        r.inst("%s dispatches every variant of Error (%d)" % (path, len(vs)), fn_loc(b), "ok" if not missing else "report")
        if missing:
            r.report("ERR-1|%s|coverage" % path, fn_loc(b), path, "no formatter call for Error variants %s" % missing)
    r.analysed["call_sites"] = n_sites
    return r


# ---------------------------------------------------------------- ERR-2

LOC_TYPES_RULE = ("asca::lexer::Position", "asca::lexer::Token", "alloc::vec::Vec<asca::parser::Item>",
                  "alloc::vec::Vec<alloc::vec::Vec<asca::parser::Item>>")
LOC_TYPES_ALIAS = ("asca::alias::AliasPosition", "asca::alias::AliasToken", "alloc::vec::Vec<asca::alias::parser::AliasItem>")


def has_location(enum_path, tys):
    n_usize = sum(1 for t in tys if t == "usize")
    if "Word" in enum_path.rsplit("::", 1)[-1]:
        return "alloc::string::String" in tys
    if "Alias" in enum_path.rsplit("::", 1)[-1]:
        return any(t in LOC_TYPES_ALIAS for t in tys) or ("asca::alias::AliasKind" in tys and n_usize >= 2)
    return any(t in LOC_TYPES_RULE for t in tys) or n_usize >= 3


def err2(ctx):
    r = RuleResult("ERR-2", "every error variant carries a location payload", floor=123)
    lib = ctx.lib
    constructed = set()
    for b in lib.bodies:
        if b.in_test_mod():
            continue
        for blk in b.blocks:
            for s in blk["s"]:
                if s["k"] == "assign" and s["rv"].get("k") == "agg" and s["rv"].get("ak") == "adt" and s["rv"].get("adt") in LEAF_ENUMS:
                    constructed.add((s["rv"]["adt"], s["rv"].get("variant")))
        if b.hir:
            for n in hirq.walk(b.hir["body"]):
                if n["e"] == "path" and n.get("rk", "").startswith("ctor") and any((n.get("path") or "").startswith(e + "::") for e in LEAF_ENUMS):
                    p = n["path"]
                    constructed.add((p.rsplit("::", 1)[0], p.rsplit("::", 1)[1]))
    dead = []
    for ep in LEAF_ENUMS:
        a = ctx.adt(lib, ep)
        for v in a["variants"]:
            tys = [f["ty"] for f in v["fields"]]
            ok = has_location(ep, tys)
            r.inst("%s::%s(%s) locates itself" % (ep.rsplit("::", 1)[-1], v["name"], ", ".join(t.rsplit("::", 1)[-1] for t in tys)),
                   a["loc"], "ok" if ok else "report", nontrivial=True)
            if not ok:
                r.report("ERR-2|%s::%s" % (ep, v["name"]), a["loc"], ep,
                         "variant %s carries no position / token / line payload: the error cannot name the line that caused it" % v["name"],
                         fields=tys)
            if (ep, v["name"]) not in constructed:
                dead.append("%s::%s" % (ep.rsplit("::", 1)[-1], v["name"]))
    # the formatters must use the payload: an arm that returns the bare message for a variant that does
    # carry a location throws the location away
    fmts = {
        "asca::error::syntax::RuleSyntaxError": "format_rule_error", "asca::error::runtime::RuleRuntimeError": "format_rule_error",
        "asca::error::syntax::AliasSyntaxError": "format_alias_error", "asca::error::runtime::AliasRuntimeError": "format_alias_error",
        "asca::error::syntax::WordSyntaxError": "format_word_error", "asca::error::runtime::WordRuntimeError": "format_word_error",
    }
    for ep, meth in fmts.items():
        fb = ctx.fn(lib, "<%s as asca::error::ASCAError>::%s" % (ep, meth))
        a = lib.adts[ep]
        located = {v["name"] for v in a["variants"] if has_location(ep, [f["ty"] for f in v["fields"]])}
        handled = set()
        for m in hirq.matches(fb):
            if hirq.strip(m["scrut"]).get("local") != "self":
                continue
            for arm in m["arms"]:
                vs_ = [p.get("path", "").rsplit("::", 1)[-1] for p in hirq.flat_pats(arm["pat"])
                       if p.get("p") in ("ts", "path", "struct") and (p.get("path") or "").startswith(ep + "::")]
                body = hirq.strip(arm["body"])
                early = body.get("e") == "ret" or (body.get("e") == "block" and not body.get("stmts") and hirq.strip(body.get("tail") or {}).get("e") == "ret")
                for v in vs_:
                    handled.add(v)
                    if v in located:
                        r.inst("%s::%s: formatter arm uses the location" % (ep.rsplit("::", 1)[-1], v), fn_loc(fb, arm["ln"]),
                               "ok" if not early else "report")
                        if early:
                            r.report("ERR-2|formatter-drops-location|%s::%s" % (ep, v), fn_loc(fb, arm["ln"]), fb.path,
                                     "the formatter returns the bare message for %s although the variant carries a location" % v)
        missing = sorted(located - handled)
        if missing and any(True for m in hirq.matches(fb) for arm in m["arms"] if any(p.get("p") == "wild" for p in hirq.flat_pats(arm["pat"]))):
            r.note("%s: variants %s fall into a wildcard arm of the formatter" % (ep, missing))
    if dead:
        r.note("never constructed outside tests (dead, not a finding): %s" % dead)
    r.analysed = {"enums": len(LEAF_ENUMS), "dead_variants": dead}
    return r


# ---------------------------------------------------------------- ERR-3


def for_loops(node):
    """(pattern, iterated expression, body, line) of every `for` loop under node (HIR desugaring:
    match IntoIterator::into_iter(<expr>) { iter => loop { match Iterator::next(&mut iter) { None => break, Some(<pat>) => <body> } } })"""
    out = []
    for n in hirq.walk(node):
        if n["e"] != "match" or n.get("src") != "ForLoopDesugar":
            continue
        it = hirq.strip(n["scrut"])
        f = hirq.strip(it.get("f") or {})
        if not (it.get("e") == "call" and (f.get("path") or "").endswith("IntoIterator::into_iter")):
            continue
        iter_expr = it["args"][0]
        pat = body = None
        for m in hirq.walk(n["arms"][0]["body"]):
            if m["e"] == "match" and m is not n and m.get("src") == "ForLoopDesugar":
                for arm in m["arms"]:
                    p0 = arm["pat"]
                    if p0.get("p") in ("struct", "ts") and (p0.get("path") or "").endswith("Option::Some"):
                        if p0.get("p") == "struct":
                            pat = p0["fields"][0][1] if p0.get("fields") else None
                        else:
                            pat = p0["pats"][0]
                        body = arm["body"]
                break
        out.append((pat, iter_expr, body, n["ln"]))
    return out


def single_lets(fn_hir_body):
    """name -> init expression for locals bound by exactly one `let` and never re-assigned"""
    inits, count, assigned = {}, {}, set()
    for n in hirq.walk(fn_hir_body):
        if n["e"] == "let" and n["pat"].get("p") == "bind" and n.get("init") is not None:
            nm = n["pat"]["name"]
            count[nm] = count.get(nm, 0) + 1
            inits[nm] = n["init"]
        elif n["e"] in ("assign", "assignop"):
            l = hirq.strip(n["lhs"])
            if l.get("e") == "path" and "local" in l:
                assigned.add(l["local"])
    return {k: v for k, v in inits.items() if count[k] == 1 and k not in assigned}


def enumerate_index(pat, iter_expr, with_adaptors=False, lets=None):
    """If the loop is `for (i, x) in <base>.iter()[.adaptor()]*.enumerate()` return (i, x, base-expression[, adaptors]).
    Locals bound once by `let` are looked through."""
    lets = lets or {}

    def look(e):
        e = hirq.strip(e)
        seen = 0
        while e.get("e") == "path" and e.get("local") in lets and seen < 5:
            e = hirq.strip(lets[e["local"]])
            seen += 1
        return e
    it = look(iter_expr)
    if not (it.get("e") == "mcall" and it.get("name") == "enumerate" and (it.get("def") or "").endswith("Iterator::enumerate")):
        return None
    inner = look(it["recv"])
    adaptors = []
    while inner.get("e") == "mcall" and inner.get("name") not in ("iter", "into_iter", "iter_mut"):
        adaptors.append(inner.get("name"))
        inner = look(inner["recv"])
    if inner.get("e") == "mcall" and inner.get("name") in ("iter", "into_iter", "iter_mut"):
        base = hirq.strip(inner["recv"])
    else:
        base = inner
    if not pat or pat.get("p") != "tup" or len(pat["pats"]) != 2:
        return None
    i, x = pat["pats"]
    iname = i.get("name") if i.get("p") == "bind" else None
    xname = x.get("name") if x.get("p") == "bind" else None
    if with_adaptors:
        return iname, xname, base, adaptors
    if adaptors:
        return None
    return iname, xname, base


def expr_name(e):
    """`x` -> ('local','x'); `self.f` -> ('field','self','f'); `a.b.c` -> ('field', <a.b>, 'c')"""
    e = hirq.strip(e)
    if e.get("e") == "unary" and e.get("op") == "Deref":
        return expr_name(e["a"])
    if e.get("e") == "path" and "local" in e:
        return ("local", e["local"])
    if e.get("e") == "field":
        return ("field", expr_name(e["a"]), e["name"])
    if e.get("e") == "lit":
        return ("lit", e["lit"])
    if e.get("e") == "path":
        return ("path", e.get("path"))
    return ("other", e.get("e"))


def calls_to(body, suffixes):
    """HIR calls (path calls and method calls) whose resolved callee ends with one of suffixes."""
    out = []
    for n in hirq.walk(body.hir["body"]):
        if n["e"] == "call":
            f = hirq.strip(n["f"])
            p = f.get("path") or ""
            if any(p.endswith(s) for s in suffixes):
                out.append((p, n["args"], n["ln"]))
        elif n["e"] == "mcall":
            p = n.get("def") or ""
            if any(p.endswith(s) for s in suffixes):
                out.append((p, [n["recv"]] + n["args"], n["ln"]))
    return out


def err3(ctx):
    r = RuleResult("ERR-3", "group/line/kind indices are the enumerate indices of the slices the formatters index; positions built from self.group/self.line", floor=221)
    lib = ctx.lib
    # ---- (i) parse_rule_groups
    prg = ctx.fn(lib, "asca::parse_rule_groups")
    loops = for_loops(prg.hir["body"])
    outer = inner = None
    for pat, it, body, ln in loops:
        e = enumerate_index(pat, it, with_adaptors=True, lets=single_lets(prg.hir["body"]))
        if not e:
            continue
        iname, xname, base, adaptors = e
        bn = expr_name(base)
        which = None
        if bn == ("local", prg.param_names[0]):
            outer = (iname, xname, ln)
            which = "group"
        elif outer and bn == ("field", ("local", outer[1]), "rule"):
            inner = (iname, xname, ln)
            which = "line"
        if which and adaptors:
            r.report("ERR-3|parse_rule_groups|%s-index-adaptor" % which, fn_loc(prg, ln), prg.path,
                     "the %s index %r is taken after `.%s()`: it no longer counts positions in the slice that format_rule_error indexes"
                     % (which, iname, "().".join(reversed(adaptors))))
    if not outer or not inner:
        raise AnchorMissing("parse_rule_groups: the two enumerate loops (groups, group.rule) were not recognised")
    r.inst("parse_rule_groups: group index %r enumerates the RuleGroup slice, line index %r enumerates `%s.rule`" % (outer[0], inner[0], outer[1]),
           fn_loc(prg, outer[2]))
    n_ctor = 0
    for p, args, ln in calls_to(prg, ("lexer::Lexer::new", "parser::Parser::new")):
        cb = lib.body(p)
        if cb is None:
            raise AnchorMissing("constructor body not found: " + p)
        names = cb.param_names
        if "group" not in names or "line" not in names:
            raise AnchorMissing("%s has no group/line parameters" % p)
        n_ctor += 1
        g = expr_name(args[names.index("group")])
        l = expr_name(args[names.index("line")])
        ok = g == ("local", outer[0]) and l == ("local", inner[0])
        r.inst("%s(group=%s, line=%s)" % (p.split("::", 1)[-1], g[-1], l[-1]), fn_loc(prg, ln), "ok" if ok else "report")
        if not ok:
            r.report("ERR-3|parse_rule_groups|%s" % p.rsplit("::", 2)[-2], fn_loc(prg, ln), prg.path,
                     "%s receives group=%s line=%s; expected the group index %r and the line index %r"
                     % (p.split("::", 1)[-1], g[-1], l[-1], outer[0], inner[0]))
    if n_ctor < 2:
        raise AnchorMissing("parse_rule_groups: Lexer::new / Parser::new calls not found")
    # formatters index rules[group].rule[line]
    for fpath in ("<asca::error::syntax::RuleSyntaxError as asca::error::ASCAError>::format_rule_error",
                  "<asca::error::runtime::RuleRuntimeError as asca::error::ASCAError>::format_rule_error"):
        fb = ctx.fn(lib, fpath)
        found = False
        for n in hirq.walk(fb.hir["body"]):
            if n["e"] == "index":
                a = hirq.strip(n["a"])
                if a.get("e") == "field" and a.get("name") == "rule":
                    inner_idx = hirq.strip(a["a"])
                    if inner_idx.get("e") == "index":
                        found = True
                        gi = expr_name(inner_idx["i"])
                        li = expr_name(n["i"])
                        base = expr_name(inner_idx["a"])
                        ok = gi == ("local", "group") and li == ("local", "line") and base == ("local", fb.param_names[1])
                        r.inst("%s indexes %s[group].rule[line]" % (fpath.split("::", 1)[-1], base[-1]), fn_loc(fb, n["ln"]),
                               "ok" if ok else "report")
                        if not ok:
                            r.report("ERR-3|formatter-index|%s" % fpath, fn_loc(fb, n["ln"]), fpath,
                                     "formatter indexes %s[%s].rule[%s]; expected rules[group].rule[line]" % (base[-1], gi[-1], li[-1]))
        if not found:
            raise AnchorMissing("%s: rules[group].rule[line] not found" % fpath)
        _check_formatter_tuple(r, fb, "group", "line")
    # ---- (ii) parse_aliases
    pa = ctx.fn(lib, "asca::parse_aliases")
    # helpers of lib.rs that build the alias lexer are looked through; plain renamings are followed by HirId
    pa_root = hirq.inline_helpers(lib, pa, prefixes=("asca::",), only_if=lambda cb: cb.path.count("::") == 1 and any(
        n["e"] == "call" and "AliasLexer::new" in (hirq.strip(n["f"]).get("path") or "") for n in hirq.walk(cb.hir["body"])))
    pa_lets = {n["pat"]["hid"]: n["init"] for n in hirq.walk(pa_root)
               if n["e"] == "let" and n["pat"].get("p") == "bind" and n.get("init") is not None and "hid" in n["pat"]}
    pa_phid = {q["hid"]: q["name"] for p_ in (pa.hir.get("params") or []) for q in hirq.walk_pats(p_) if q.get("p") == "bind"}

    def pa_resolve(e, depth=0):
        e0 = hirq.strip(e)
        while e0.get("e") in ("addr", "unary"):
            e0 = hirq.strip(e0["a"])
        if e0.get("e") == "path" and "hid" in e0:
            if e0["hid"] in pa_phid:
                return ("local", pa_phid[e0["hid"]])
            if e0["hid"] in pa_lets and depth < 6 and hirq.strip(pa_lets[e0["hid"]]).get("e") in ("path", "addr", "unary"):
                return pa_resolve(pa_lets[e0["hid"]], depth + 1)
        return expr_name(e0)
    loops = for_loops(pa_root)
    kinds_seen = {}
    for pat, it, body, ln in loops:
        e = enumerate_index(pat, it)
        if not e:
            continue
        iname, xname, base = e
        bname = pa_resolve(base)
        if bname[0] != "local" or bname[1] not in pa.param_names:
            continue
        for p, args, cln in _calls_in(body, ("alias::lexer::AliasLexer::new", "alias::parser::AliasParser::new")):
            cb = lib.body(p)
            if cb is None:
                raise AnchorMissing("constructor body not found: " + p)
            names = cb.param_names
            if "kind" not in names or "line" not in names:
                raise AnchorMissing("%s has no kind/line parameters" % p)
            k = pa_resolve(args[names.index("kind")])
            l = expr_name(args[names.index("line")])
            kind = (k[1] or "").rsplit("::", 1)[-1] if k[0] == "path" else "?"
            kinds_seen.setdefault(bname[1], set()).add(kind)
            want_kind = {"into": "Deromaniser", "from": "Romaniser"}.get(bname[1])
            ok = l == ("local", iname) and kind == want_kind
            r.inst("parse_aliases: %s(kind=%s, line=%s) inside the loop over `%s`" % (p.split("::", 1)[-1], kind, l[-1], bname[1]),
                   fn_loc(pa, cln), "ok" if ok else "report")
            if not ok:
                r.report("ERR-3|parse_aliases|%s|%s" % (bname[1], p.rsplit("::", 2)[-2]), fn_loc(pa, cln), pa.path,
                         "%s gets kind=%s line=%s in the loop over `%s`; expected kind %s and that loop's index %r"
                         % (p.split("::", 1)[-1], kind, l[-1], bname[1], want_kind, iname))
    if set(kinds_seen) != {"into", "from"}:
        raise AnchorMissing("parse_aliases: loops over `into` and `from` not both recognised (%s)" % sorted(kinds_seen))
    for fpath in ("<asca::error::syntax::AliasSyntaxError as asca::error::ASCAError>::format_alias_error",
                  "<asca::error::runtime::AliasRuntimeError as asca::error::ASCAError>::format_alias_error"):
        fb = ctx.fn(lib, fpath)
        n_arm = 0
        for m in hirq.matches(fb):
            for arm in m["arms"]:
                ps = hirq.flat_pats(arm["pat"])
                if len(ps) == 1 and ps[0].get("p") == "path" and "alias::AliasKind::" in (ps[0].get("path") or ""):
                    kind = ps[0]["path"].rsplit("::", 1)[-1]
                    idx = [n for n in hirq.walk(arm["body"]) if n["e"] == "index"]
                    bases = {(expr_name(n["a"])[-1], expr_name(n["i"])[-1]) for n in idx}
                    want = {"Deromaniser": fb.param_names[1], "Romaniser": fb.param_names[2]}.get(kind)
                    ok = bases == {(want, "line")}
                    n_arm += 1
                    r.inst("%s: %s arm indexes %s[line]" % (fpath.split("::", 1)[-1], kind, want), fn_loc(fb, arm["ln"]), "ok" if ok else "report")
                    if not ok:
                        r.report("ERR-3|alias-formatter|%s|%s" % (fpath, kind), fn_loc(fb, arm["ln"]), fpath,
                                 "the %s arm indexes %s; expected %s[line]" % (kind, sorted(bases), want))
        if n_arm < 2:
            raise AnchorMissing("%s: AliasKind dispatch not found" % fpath)
        if fb.param_names[1:3] != ["into", "from"]:
            r.note("format_alias_error parameters are %s" % fb.param_names)
        _check_formatter_tuple(r, fb, "kind", "line")
    # ---- (ii-b) the text that is lexed is the text the formatter prints: the lexer's character slice is `<line>.chars().collect()`
    #      of the very element of the caller's list, untransformed (columns are measured in it)
    TEXT_OK = ("chars", "collect", "as_str", "as_ref", "as_slice", "iter", "copied", "cloned", "to_vec", "deref", "borrow")
    n_text = 0
    for fb_, froot, ctors in ((prg, prg.hir["body"], ("lexer::Lexer::new",)), (pa, pa_root, ("alias::lexer::AliasLexer::new",))):
        slets = single_lets(froot)
        elems = set()
        for pat, it, body, ln in for_loops(froot):
            e = enumerate_index(pat, it, with_adaptors=True, lets=slets)
            if e:
                elems.add(e[1])
        for p_, args, ln in _calls_in(froot, ctors):
            cb = lib.body(p_)
            ti = [i for i, t in enumerate(cb.param_tys) if t.endswith("[char]")]
            if not ti:
                raise AnchorMissing("%s has no `&[char]` parameter" % p_)
            e = hirq.strip(args[ti[0]])
            chain, foreign = [], []
            hops = 0
            while hops < 12:
                hops += 1
                if e.get("e") in ("addr", "unary", "cast"):
                    e = hirq.strip(e["a"])
                elif e.get("e") == "mcall":
                    chain.append(e["name"])
                    if e["name"] not in TEXT_OK:
                        foreign.append(e["name"])
                    e = hirq.strip(e["recv"])
                elif e.get("e") == "call":
                    fp = (hirq.strip(e["f"]).get("path") or "?")
                    foreign.append(fp.rsplit("::", 1)[-1])
                    if not e["args"]:
                        break
                    e = hirq.strip(e["args"][0])
                elif e.get("e") == "path" and "local" in e and e["local"] in slets and e["local"] not in elems:
                    e = hirq.strip(slets[e["local"]])
                else:
                    break
            src = expr_name(e)
            ok = src[0] == "local" and src[1] in elems and not foreign
            n_text += 1
            r.inst("%s: %s lexes `%s.%s` of the enumerated line" % (fb_.path.rsplit("::", 1)[-1], p_.rsplit("::", 2)[-2], src[-1], ".".join(reversed(chain))), fn_loc(fb_, ln),
                   "ok" if ok else "report")
            if not ok:
                r.report("ERR-3|%s|lexed-text" % fb_.path.rsplit("::", 1)[-1], fn_loc(fb_, ln), fb_.path,
                         "the characters handed to %s are %s: columns in errors are measured in a different text than the line the formatter prints"
                         % (p_.rsplit("::", 2)[-2], ("transformed by `%s` first" % "`, `".join(foreign)) if foreign else "not taken from the enumerated line (%s)" % (src[-1],)))
    if n_text < 3:
        raise AnchorMissing("lexer constructions in parse_rule_groups/parse_aliases: only %d found" % n_text)
    # ---- (iii) constructors of positions / tokens in lexers and parsers
    n_pos = 0
    mods = ("asca::lexer::", "asca::parser::", "asca::alias::lexer::", "asca::alias::parser::")
    ctor_suffixes = ("lexer::Position::new", "lexer::Token::new", "alias::AliasPosition::new", "alias::AliasToken::new")
    for b in lib.bodies:
        if b.in_test_mod() or not b.hir or not b.path.startswith(mods):
            continue
        if any(b.path.endswith(s) for s in ctor_suffixes):
            continue
        placeholders = _placeholder_lets(b)
        for p, args, ln in calls_to(b, ctor_suffixes):
            cb = lib.body(p)
            names = cb.param_names
            for role in ("group", "line", "kind"):
                if role not in names:
                    continue
                if role == "kind" and not cb.param_tys[names.index(role)].endswith("asca::alias::AliasKind"):
                    continue      # `kind` of a token is its token kind, not a location
                a = expr_name(args[names.index(role)])
                ok = (a[0] == "field" and a[2] == role) or (a[0] == "local" and a[1] == role)
                if not ok and a == ("lit", 0) and ln in placeholders:
                    var = placeholders[ln]
                    exc = PLACEHOLDER_EXCEPTIONS.get((b.path, var))
                    if exc and _reassigned_from_position(b, var):
                        r.inst("%s: placeholder `%s` (%s = 0)" % (b.path.split("::", 1)[-1], var, role), fn_loc(b, ln),
                               "accepted:placeholder", nontrivial=False)
                        e = {"site": "%s::%s" % (b.path, var), "reason": exc}
                        if e not in r.exceptions:
                            r.exceptions.append(e)
                        continue
                n_pos += 1
                r.inst("%s: %s(%s = %s)" % (b.path.split("::", 1)[-1], p.rsplit("::", 2)[-2] + "::new", role, _fmt(a)),
                       fn_loc(b, ln), "ok" if ok else "report")
                if not ok:
                    r.report("ERR-3|ctor|%s|%s|%s" % (b.path, p.rsplit("::", 2)[-2], role), fn_loc(b, ln), b.path,
                             "%s::new receives %s = %s; expected self.%s (or the %s of another position)"
                             % (p.rsplit("::", 2)[-2], role, _fmt(a), role, role))
    # ---- (iv) error variants carrying raw (group, line, pos): writer/reader agreement on the field order
    for ep, fpath, roles in (
        ("asca::error::syntax::RuleSyntaxError",
         "<asca::error::syntax::RuleSyntaxError as asca::error::ASCAError>::format_rule_error", ("group", "line")),
        ("asca::error::syntax::AliasSyntaxError",
         "<asca::error::syntax::AliasSyntaxError as asca::error::ASCAError>::format_alias_error", ("kind", "line")),
    ):
        fb = ctx.fn(lib, fpath)
        slot = {}
        for m in hirq.matches(fb):
            for arm in m["arms"]:
                for p in hirq.flat_pats(arm["pat"]):
                    if p.get("p") == "ts" and (p.get("path") or "").startswith(ep + "::"):
                        for i, sp in enumerate(p["pats"]):
                            if sp.get("p") == "bind" and sp.get("name") in roles:
                                slot.setdefault(p["path"].rsplit("::", 1)[-1], {})[sp["name"]] = i
        if not slot:
            raise AnchorMissing("%s: no raw (%s) variants found in the formatter" % (ep, ",".join(roles)))
        for b in lib.bodies:
            if b.in_test_mod() or not b.hir or not b.path.startswith(mods):
                continue
            for n in hirq.walk(b.hir["body"]):
                if n["e"] != "call":
                    continue
                f = hirq.strip(n["f"])
                p = f.get("path") or ""
                if not p.startswith(ep + "::"):
                    continue
                v = p.rsplit("::", 1)[-1]
                if v not in slot:
                    continue
                for role, idx in slot[v].items():
                    if idx >= len(n["args"]):
                        continue
                    a = expr_name(n["args"][idx])
                    ok = (a[0] == "field" and a[2] == role) or (a[0] == "local" and a[1] == role)
                    n_pos += 1
                    r.inst("%s: %s(.. %s = %s ..)" % (b.path.split("::", 1)[-1], v, role, _fmt(a)), fn_loc(b, n["ln"]), "ok" if ok else "report")
                    if not ok:
                        r.report("ERR-3|raw|%s|%s|%s" % (b.path, v, role), fn_loc(b, n["ln"]), b.path,
                                 "error %s is built with %s = %s in the slot its formatter reads as `%s`" % (v, role, _fmt(a), role))
    r.analysed = {"position_sites": n_pos}
    return r


# one named symbol each, with the reason; structurally re-checked (`let mut v = ..::new(0,..)` that is
# re-assigned from a `.position` field elsewhere in the same function)
PLACEHOLDER_EXCEPTIONS = {
    ("asca::parser::Parser::get_env_elements", "word_bound_pos"):
        "dummy initial value; read only under `contains_word_bound`, which is set in the same block that assigns the real position",
}


def _placeholder_lets(b):
    """line -> variable name for `let [mut] v = <call>` statements"""
    out = {}
    for n in hirq.walk(b.hir["body"]):
        if n["e"] == "let" and n.get("init") is not None and n["pat"].get("p") == "bind":
            init = hirq.strip(n["init"])
            if init.get("e") == "call":
                out[init["ln"]] = n["pat"]["name"]
    return out


def _reassigned_from_position(b, var):
    for n in hirq.walk(b.hir["body"]):
        if n["e"] == "assign":
            if expr_name(n["lhs"]) == ("local", var):
                rhs = expr_name(n["rhs"])
                if rhs[0] == "field" and rhs[2] == "position":
                    return True
    return False


def _fmt(a):
    if a[0] == "field":
        return "%s.%s" % (_fmt(a[1]), a[2])
    return str(a[-1])


def _calls_in(node, suffixes):
    out = []
    for n in hirq.walk(node):
        if n["e"] == "call":
            f = hirq.strip(n["f"])
            p = f.get("path") or ""
            if any(p.endswith(s) for s in suffixes):
                out.append((p, n["args"], n["ln"]))
    return out


def _check_formatter_tuple(r, fb, role1, role2):
    """In the formatter, `let (arrows, X, line) = match self {..}`: every arm's tuple must put a
    `group`/`kind` thing second and a `line` thing third."""
    for m in hirq.matches(fb):
        sc = hirq.strip(m["scrut"])
        if sc.get("local") != "self":
            continue
        for arm in m["arms"]:
            v = hirq.strip(arm["body"])
            while v.get("e") == "block" and v.get("tail") is not None:
                v = hirq.strip(v["tail"])
            if v.get("e") != "tup" or len(v["items"]) != 3:
                continue
            a1 = expr_name(v["items"][1])
            a2 = expr_name(v["items"][2])
            ok = a1[-1] == role1 and a2[-1] == role2
            r.inst("%s: arm at line %d yields (.., %s, %s)" % (fb.path.split("::", 1)[-1], arm["ln"], a1[-1], a2[-1]),
                   fn_loc(fb, arm["ln"]), "ok" if ok else "report")
            if not ok:
                r.report("ERR-3|formatter-tuple|%s|%d" % (fb.path, [a["ln"] for a in m["arms"]].index(arm["ln"])),
                         fn_loc(fb, arm["ln"]), fb.path,
                         "formatter arm yields (.., %s, %s) where (.., %s, %s) is expected" % (_fmt(a1), _fmt(a2), role1, role2))


# ---------------------------------------------------------------- ERR-4


def err4(ctx):
    r = RuleResult("ERR-4", "a parsed item's span ends at its last *consumed* token: `.position.end` is read from token_list[self.pos - 1], never from the look-ahead token", floor=13)
    lib = ctx.lib
    n = 0
    for b in lib.bodies:
        if b.in_test_mod() or not b.hir or b.kind == "closure":
            continue
        if not b.path.startswith(("asca::parser::Parser::", "asca::alias::parser::AliasParser::")):
            continue
        per = 0
        for nd in hirq.walk(b.hir["body"]):
            if nd["e"] != "field" or nd["name"] != "end":
                continue
            pos = hirq.strip(nd["a"])
            if pos.get("e") != "field" or pos["name"] != "position":
                continue
            idx = hirq.strip(pos["a"])
            if idx.get("e") != "index":
                continue
            base = expr_name(idx["a"])
            if base != ("field", ("local", "self"), "token_list"):
                continue
            i0 = hirq.strip(idx["i"])
            n += 1
            ok = (i0.get("e") == "binary" and i0["op"] == "Sub" and expr_name(i0["a"]) == ("field", ("local", "self"), "pos")
                  and hirq.strip(i0["b"]).get("lit") == 1)
            fn = "::".join(b.path.rsplit("::", 2)[-2:])
            r.inst("%s: span end taken from token_list[self.pos - 1]" % fn, fn_loc(b, nd["ln"]), "ok" if ok else "report")
            if not ok:
                r.report("ERR-4|%s|#%d" % (b.path, per), fn_loc(b, nd["ln"]), b.path,
                         "a span's end is read from a token that has not been consumed (index is not `self.pos - 1`): the item's position overlaps the next token, "
                         "and error formatters that subtract neighbouring positions underflow")
                per += 1
    r.analysed = {"end_reads": n}
    return r


# ---------------------------------------------------------------- ERR-5: the formatters cannot panic on their payload

OPT_PANIC = ("core::option::Option::expect", "core::option::Option::unwrap", "core::result::Result::unwrap", "core::result::Result::expect")
KEEPS_NONEMPTY = {"iter", "into_iter", "copied", "cloned", "map", "enumerate", "rev", "inspect", "by_ref", "peekable", "chain"}
PICKS_ONE = {"min_by_key", "max_by_key", "min_by", "max_by", "min", "max", "next", "last", "first", "next_back"}

# constructor sites whose payload cannot be proven non-empty from the function alone: (function, variant, payload root) -> reason
ERR5_PAYLOAD_EXCEPTIONS = {
    ("asca::rule::Rule::split_into_subrules", "UnbalancedRuleIO", "self.input"):
        "Rule.input is Parser::get_input's result, which returns EmptyInput for an empty list; PAN-10 decides that no term of it is empty",
    ("asca::rule::Rule::split_into_subrules", "UnbalancedRuleIO", "self.output"):
        "Rule.output is Parser::get_output's result, which returns EmptyOutput for an empty list; PAN-10 decides that no term of it is empty",
}


def _canon(e):
    """a printable name for a place expression: self.context, input_terms, x.y"""
    e = hirq.strip(e)
    if not isinstance(e, dict):
        return None
    if e.get("e") == "path" and "local" in e:
        return e["local"]
    if e.get("e") == "field":
        a = _canon(e["a"])
        return None if a is None else "%s.%s" % (a, e["name"])
    if e.get("e") == "unary" and e.get("op") == "Deref":
        return _canon(e["a"])
    if e.get("e") == "mcall" and e["name"] in ("clone", "to_vec", "to_owned", "as_slice", "as_ref", "borrow") and not e.get("args"):
        return _canon(e["recv"])
    return None


def _split(e, op):
    e = hirq.strip(e)
    if isinstance(e, dict) and e.get("e") == "binary" and e.get("op") == op:
        return _split(e["a"], op) + _split(e["b"], op)
    return [e]


def _nonempty_atom(e, truth):
    """root name R when (e == truth) implies R is non-empty"""
    e = hirq.strip(e)
    if not isinstance(e, dict):
        return None
    if e.get("e") == "unary" and e.get("op") == "Not":
        return _nonempty_atom(e["a"], not truth)
    if e.get("e") == "mcall" and e["name"] == "is_empty" and not e.get("args"):
        return _canon(e["recv"]) if truth is False else None
    if e.get("e") == "binary" and e.get("op") in ("Gt", "Ne", "Ge", "Eq", "Lt", "Le"):
        a, b = hirq.strip(e["a"]), hirq.strip(e["b"])
        root = None
        if a.get("e") == "mcall" and a["name"] == "len":
            root = _canon(a["recv"])
        elif a.get("e") == "path" and a.get("hid") in _LEN_LOCALS:
            root = _LEN_LOCALS[a["hid"]]          # `let n = x.len();` ... `n != 0`
        if root and b.get("e") == "lit" and isinstance(b.get("lit"), int):
            n, op = b["lit"], e["op"]
            holds = {"Gt": n >= 0, "Ne": n == 0, "Ge": n >= 1}.get(op, False) if truth else {"Eq": n == 0, "Lt": n <= 1 and n >= 1, "Le": n == 0}.get(op, False)
            return root if holds else None
    return None


_LEN_LOCALS = {}


def _scan_len_locals(body):
    """immutable locals that hold the length of a place: `let n = <place>.len();`"""
    _LEN_LOCALS.clear()
    assigned = {hirq.path_hid(n["lhs"]) for n in hirq.walk(body.hir["body"]) if n["e"] in ("assign", "assignop")}
    for n in hirq.walk(body.hir["body"]):
        if n["e"] == "let" and (n.get("pat") or {}).get("p") == "bind" and n.get("init") is not None and n["pat"].get("hid") not in assigned:
            i0 = hirq.strip(n["init"])
            if isinstance(i0, dict) and i0.get("e") == "mcall" and i0["name"] == "len" and not i0.get("args"):
                r0 = _canon(i0["recv"])
                if r0:
                    _LEN_LOCALS[n["pat"]["hid"]] = r0


def _facts_of(cond, pol):
    out = set()
    if pol:
        for c in _split(cond, "And"):
            x = _nonempty_atom(c, True)
            if x:
                out.add(x)
    else:
        for c in _split(cond, "Or"):
            x = _nonempty_atom(c, False)
            if x:
                out.add(x)
    return out


def _diverges(e):
    e = hirq.strip(e)
    if not isinstance(e, dict):
        return False
    if e.get("e") in ("ret", "break", "continue"):
        return True
    if e.get("e") == "block":
        items = list(e.get("stmts", [])) + ([e["tail"]] if e.get("tail") is not None else [])
        return bool(items) and _diverges(items[-1] if "e" in items[-1] else items[-1].get("a", items[-1]))
    if e.get("e") == "semi" or e.get("s") == "semi":
        return _diverges(e.get("a"))
    return hirq.is_panic_expr(e) is not None and e.get("e") == "call"


def _ctor_sites(body, variants):
    """(call node, set of roots known non-empty at that point) for every constructor call of one of `variants`"""
    out = []

    def rec(x, known):
        if isinstance(x, list):
            for y in x:
                rec(y, known)
            return
        if not isinstance(x, dict):
            return
        k = x.get("e")
        if k == "if":
            rec(x["cond"], known)
            rec(x.get("then"), known | _facts_of(x["cond"], True))
            if x.get("else") is not None:
                rec(x["else"], known | _facts_of(x["cond"], False))
            return
        if k == "block":
            cur = set(known)
            for s in x.get("stmts", []):
                rec(s, cur)
                inner = s.get("a") if isinstance(s, dict) and s.get("e") in ("semi",) else s
                inner = hirq.strip(inner) if isinstance(inner, dict) else inner
                if isinstance(inner, dict) and inner.get("e") == "if" and inner.get("else") is None and _diverges(inner.get("then")):
                    cur = cur | _facts_of(inner["cond"], False)
            if x.get("tail") is not None:
                rec(x["tail"], cur)
            return
        if k == "call":
            f = hirq.strip(x["f"])
            if f.get("e") == "path" and f.get("path") in variants:
                out.append((x, frozenset(known)))
        for kk, v in x.items():
            if isinstance(v, (dict, list)):
                rec(v, known)

    _scan_len_locals(body)
    rec(body.hir["body"], frozenset())
    return out


def _producer_guarantees_nonempty(unit, body, name):
    """`let name = self.f()?` where f ends in `Ok(v)` after `if v.is_empty() { return Err(..) }`"""
    for n in hirq.walk(body.hir["body"]):
        if n.get("e") != "block":
            continue
        for s in n.get("stmts", []):
            if s.get("e") == "let" and (s.get("pat") or {}).get("p") == "bind" and s["pat"].get("name") == name and s.get("init") is not None:
                callee = None
                for c in hirq.walk(s["init"]):
                    if c["e"] == "mcall" and (c.get("def") or "").startswith("asca::"):
                        callee = c["def"]
                        break
                    if c["e"] == "call" and (hirq.strip(c["f"]).get("path") or "").startswith("asca::") and hirq.strip(c["f"]).get("rk", "").startswith(("Fn", "AssocFn")):
                        callee = hirq.strip(c["f"])["path"]
                        break
                f = unit.body(callee) if callee else None
                if f is None or not f.hir:
                    return None
                root = f.hir["body"]
                root = hirq.strip(root) if root.get("e") != "block" else root
                tail = hirq.strip(root.get("tail")) if isinstance(root, dict) and root.get("tail") is not None else None
                if not (isinstance(tail, dict) and tail.get("e") == "call" and (hirq.strip(tail["f"]).get("path") or "").endswith("Result::Ok") and tail["args"]):
                    return None
                v = _canon(tail["args"][0])
                known = set()
                for st in root.get("stmts", []):
                    inner = st.get("a") if st.get("e") == "semi" else st
                    inner = hirq.strip(inner) if isinstance(inner, dict) else inner
                    if isinstance(inner, dict) and inner.get("e") == "if" and inner.get("else") is None and _diverges(inner.get("then")):
                        known |= _facts_of(inner["cond"], False)
                return callee if v and v in known else None
    return None


def _callers_pass_nonempty(lib, fb, k):
    """every call of the private function `fb` passes, as argument k, a vector known non-empty at the call"""
    callers = [q for q, outs in lib.callgraph.items() if fb.path in outs and q != fb.path and lib.body(q) is not None and lib.body(q).hir and not lib.body(q).in_test_mod()]
    if not callers:
        return None
    hows = []
    for q in sorted(callers):
        qb = lib.body(q)
        if qb.kind == "closure":
            return None
        sites = _ctor_sites(qb, {fb.path})
        for n in hirq.walk(qb.hir["body"]):
            if n["e"] == "mcall" and n.get("def") == fb.path:
                return None         # method-call form: not traced
        if not sites:
            return None
        for call, known in sites:
            if k >= len(call["args"]):
                return None
            r2 = _canon(call["args"][k])
            if r2 and r2 in known:
                hows.append("tested non-empty in %s" % q.rsplit("::", 1)[-1])
            elif r2 and "." not in r2 and _producer_guarantees_nonempty(lib, qb, r2):
                hows.append("%s passes the result of %s, which rejects the empty list" % (q.rsplit("::", 1)[-1], _producer_guarantees_nonempty(lib, qb, r2).rsplit("::", 1)[-1]))
            else:
                return None
    return "; ".join(sorted(set(hows))) if hows else None


def err5(ctx):
    """An error that cannot be *shown* is as bad as no error. Every `expect`/`unwrap` reachable from an error formatter is
    (a) first()/last() of a payload vector -- then every constructor site of that variant must pass a vector known to be
    non-empty there -- or (b) a pick from a constant, unfiltered, non-empty table."""
    r = RuleResult("ERR-5", "every expect/unwrap reachable from an error formatter is discharged: first()/last() of a variant's payload whose every constructor site passes a vector tested non-empty (or one returned by a producer that rejects the empty list), or a min/max/next over a constant non-empty table without a filter", floor=12)
    lib = ctx.lib
    roots = [b.path for b in lib.bodies if b.impl_trait == TRAIT and b.kind == "assoc_fn" and not is_stub(b)]
    if len(roots) < 12:
        raise AnchorMissing("ERR-5: %d non-stub ASCAError formatter bodies (expected >= 12)" % len(roots))
    reach = sorted(p for p in lib.reachable(roots) if lib.body(p) is not None and lib.body(p).hir and not lib.body(p).in_test_mod() and p.startswith(("asca::", "<asca::")))
    needs = {}           # (variant path, field) -> (depth, loc, fn)
    n_sites = 0
    for p in reach:
        b = lib.body(p)
        payload = {}
        for pt in hirq.walk_pats(b.hir["body"]):
            if pt.get("p") == "ts" and any((pt.get("path") or "").startswith(e + "::") for e in LEAF_ENUMS):
                for i, sub in enumerate(pt.get("pats") or []):
                    if isinstance(sub, dict) and sub.get("p") == "bind":
                        payload[sub.get("hid")] = (pt["path"], i)
        k = 0
        for n in hirq.walk(b.hir["body"]):
            if n["e"] != "mcall" or n.get("def") not in OPT_PANIC:
                continue
            n_sites += 1
            loc = fn_loc(b, n["ln"])
            verdict, why = _classify_unwrap(n, payload)
            if verdict == "payload":
                var, idx, depth = why
                needs.setdefault((var, idx), []).append((depth, loc, b.path))
                r.inst("%s: %s() #%d reads first()/last() of the payload of %s (field %d%s)" % (short_fn(b.path), n["name"], k, var.rsplit("::", 1)[-1], idx, ", nested" if depth else ""), loc, "ok")
            elif verdict == "table":
                r.inst("%s: %s() #%d picks from the constant table %s (%s entries, no filter)" % (short_fn(b.path), n["name"], k, why[0], why[1]), loc, "ok")
            else:
                r.inst("%s: %s() #%d is not discharged" % (short_fn(b.path), n["name"], k), loc, "report")
                r.report("ERR-5|%s|%s#%d|%s" % (short_fn(b.path), n["name"], k, why), loc, b.path,
                         "`%s()` reachable from an error formatter on a value that is not provably present (%s): showing the error can panic although the run returned a proper Err" % (n["name"], why))
            k += 1
    # constructor sites of the variants whose payload the formatters read
    variants = {v for (v, _i) in needs}
    n_ctor = 0
    for b in lib.bodies:
        if b.in_test_mod() or not b.hir or b.exp:
            continue
        if not any(n.get("path") in variants for n in hirq.paths_in(b.hir["body"])):
            continue
        for call, known in _ctor_sites(b, variants):
            var = hirq.strip(call["f"])["path"]
            for (v, idx), reqs in sorted(needs.items()):
                if v != var or idx >= len(call["args"]):
                    continue
                n_ctor += 1
                arg = call["args"][idx]
                root = _canon(arg)
                loc = fn_loc(b, call["ln"])
                vshort = var.rsplit("::", 1)[-1]
                nested = any(d for d, _l, _f in reqs)
                how = None
                if root and root in known:
                    how = "tested non-empty on this path"
                elif root and "." not in root:
                    prod = _producer_guarantees_nonempty(lib, b, root)
                    if prod:
                        how = "returned by %s, which rejects the empty list" % prod.rsplit("::", 1)[-1]
                    elif not b.is_pub and root in (b.param_names or []):
                        how = _callers_pass_nonempty(lib, b, (b.param_names or []).index(root))
                exc = ERR5_PAYLOAD_EXCEPTIONS.get((b.path, vshort, root))
                if (how is None or nested) and exc:
                    how = "exception: " + exc
                    r.exceptions.append("ERR-5 %s %s(%s): %s" % (b.path, vshort, root, exc))
                elif nested and how is not None:
                    # the inner vectors must be non-empty too: only PAN-10's producers are known to guarantee that
                    how = None
                ok = how is not None
                r.inst("%s: %s(%s) — payload %s" % (b.path, vshort, root or "<expression>", how or "not known to be non-empty here"), loc, "ok" if ok else "report")
                if not ok:
                    r.report("ERR-5|ctor|%s|%s|%s" % (b.path, vshort, root or "expr"), loc, b.path,
                             "%s is built from `%s`, which is not tested non-empty on this path (known non-empty here: %s): the formatter does `.first().expect(..)` on it (%s) and panics instead of showing the error"
                             % (vshort, root or "an expression", ", ".join(sorted(known)) or "nothing", reqs[0][1]))
    r.analysed = {"formatter_bodies": len(roots), "reachable_bodies": len(reach), "unwrap_sites": n_sites, "payload_variants": len(variants), "constructor_sites": n_ctor}
    if n_sites < 6 or n_ctor < 6:
        raise AnchorMissing("ERR-5: %d unwrap sites / %d constructor sites (expected >= 6 / 6)" % (n_sites, n_ctor))
    return r


def short_fn(p):
    m = re.match(r"<asca::error::\w+::(\w+) as asca::error::ASCAError>::(\w+)", p)
    return "%s::%s" % (m.group(1), m.group(2)) if m else p


def _classify_unwrap(n, payload):
    R = hirq.strip(n["recv"])
    if R.get("e") == "mcall" and R["name"] in ("first", "last") and "slice" in (R.get("def") or ""):
        E = hirq.strip(R["recv"])
        if E.get("e") == "path" and E.get("hid") in payload:
            return "payload", payload[E["hid"]] + (0,)
        if E.get("e") == "mcall" and E.get("def") in OPT_PANIC:
            v, why = _classify_unwrap(E, payload)
            if v == "payload":
                return "payload", (why[0], why[1], why[2] + 1)
        return "other", "first()/last() of something that is not a variant payload"
    # iterator chain over a constant table
    x, saw_pick, names = R, False, []
    while isinstance(x, dict) and x.get("e") == "mcall":
        names.append(x["name"])
        x = hirq.strip(x["recv"])
    if isinstance(x, dict) and x.get("e") == "path" and (x.get("rk") or "").startswith(("Const", "Static")):
        m = re.match(r"\[.*; (\d+)\]$", x.get("ty") or "")
        if m and int(m.group(1)) > 0 and names and names[0] in PICKS_ONE and all(nm in KEEPS_NONEMPTY for nm in names[1:]):
            return "table", (x["path"].rsplit("::", 1)[-1], m.group(1))
        bad = [nm for nm in names[1:] if nm not in KEEPS_NONEMPTY]
        return "other", "the table is narrowed by %s before the pick" % "/".join(bad) if bad else "unrecognised chain over a constant table"
    return "other", "receiver is neither a payload's first()/last() nor a pick from a constant table"
