"""PAN engine — panic discipline (C02).

PAN-1  RefCell borrow discipline: no borrow/borrow_mut of a cell while a conflicting guard on it is live (interprocedural)
PAN-2  user digits -> str::parse -> unwrap/expect
PAN-3  grammar producers vs interpreter consumers (ParseElement variants per container)
PAN-4  the same for the alias grammar
"""
import re

import hirq
from core import AnchorMissing, RuleResult, fn_loc, short_loc
from engine_flw2 import _single_def, resolve_place_fields
from facts import callee_path

TOKEN_TYPES = ("asca::lexer::Token", "asca::alias::AliasToken")
INT_TYPES = ("usize", "u8", "u16", "u32", "u64", "u128", "isize", "i8", "i16", "i32", "i64", "i128")


def chain_fields(b, l, depth=0):
    """(adt, field) pairs along the reference chain that produced local l"""
    out = []
    if depth > 10:
        return out
    d = _single_def(b, l)
    if d is None:
        return out
    if d.get("k") == "ref":
        for pr in d["pl"]["p"]:
            if isinstance(pr, dict) and "f" in pr:
                out.append((pr.get("of"), pr.get("n")))
        out += chain_fields(b, d["pl"]["l"], depth + 1)
    elif d.get("k") == "use" and d["op"].get("k") in ("copy", "move"):
        for pr in d["op"]["pl"]["p"]:
            if isinstance(pr, dict) and "f" in pr:
                out.append((pr.get("of"), pr.get("n")))
        out += chain_fields(b, d["op"]["pl"]["l"], depth + 1)
    elif d.get("k") == "call":
        t = d["t"]
        cp = callee_path(t) or ""
        if cp.endswith(("Deref>::deref", "AsRef<T>>::as_ref", "AsRef<str>>::as_ref", "String::as_str", "<impl str>::trim", "Borrow<T>>::borrow",
                        # text derived from the token text by deleting / trimming characters is still the user's digits (and may be empty)
                        "<impl str>::replace", "<impl str>::trim_start_matches", "<impl str>::trim_end_matches", "<impl str>::trim_matches",
                        "<impl str>::trim_start", "<impl str>::trim_end", "ToOwned>::to_owned", "ToString>::to_string", "<impl str>::to_string", "<impl str>::to_owned")) and t["args"] \
                and t["args"][0].get("k") in ("copy", "move"):
            a = t["args"][0]["pl"]
            for pr in a["p"]:
                if isinstance(pr, dict) and "f" in pr:
                    out.append((pr.get("of"), pr.get("n")))
            out += chain_fields(b, a["l"], depth + 1)
    return out


def consumers_of(b, l, depth=0):
    """calls that take local l (or a move-copy of it) as their first argument"""
    out = []
    if depth > 4:
        return out
    for blk in b.blocks:
        for s in blk["s"]:
            if s["k"] == "assign" and not s["lhs"]["p"] and s["rv"]["k"] == "use" and s["rv"]["op"].get("k") in ("copy", "move") \
                    and s["rv"]["op"]["pl"]["l"] == l and not s["rv"]["op"]["pl"]["p"]:
                out += consumers_of(b, s["lhs"]["l"], depth + 1)
        t = blk["t"]
        if t["k"] == "call" and t["args"] and t["args"][0].get("k") in ("copy", "move") and t["args"][0]["pl"]["l"] == l and not t["args"][0]["pl"]["p"]:
            out.append(t)
    return out


def pan2(ctx):
    r = RuleResult("PAN-2", "no numeric literal of the rule / alias text is converted with parse().unwrap() / expect()", floor=19)
    lib = ctx.lib
    # arming: does the lexer of a grammar bound the length of a digit run (and by how much)?
    LIMIT = {"usize": 2 ** 32 - 1, "u64": 2 ** 64 - 1, "u32": 2 ** 32 - 1, "u16": 2 ** 16 - 1, "u8": 255, "isize": 2 ** 31 - 1, "i64": 2 ** 63 - 1, "i32": 2 ** 31 - 1, "i16": 2 ** 15 - 1, "i8": 127}
    bound = {}
    for gram, fpath, tok in (("rule", "asca::lexer::Lexer::get_numeric", "asca::lexer::Token"), ("alias", "asca::alias::lexer::AliasLexer::get_numeric", "asca::alias::AliasToken")):
        b = ctx.fn(lib, fpath)
        nmax = None
        for n_ in hirq.walk(b.hir["body"]):
            if n_["e"] == "if":
                c = hirq.strip(n_["cond"])
                if c.get("e") == "binary" and c["op"] in ("Gt", "Ge") and any(m["e"] == "mcall" and m["name"] in ("len", "count") for m in hirq.walk(c["a"])) \
                        and hirq.strip(c["b"]).get("e") == "lit" and isinstance(hirq.strip(c["b"]).get("lit"), int) \
                        and any(m["e"] == "ret" or (m["e"] == "call" and (hirq.strip(m["f"]).get("path") or "").endswith("Result::Err")) for m in hirq.walk(n_["then"])):
                    k_ = hirq.strip(c["b"])["lit"]
                    nmax = k_ if c["op"] == "Gt" else k_ - 1
        bound[tok] = nmax
        r.inst("%s lexer: digit runs are %s" % (gram, "unbounded (parse sites of that grammar are armed)" if nmax is None else "at most %d digits long" % nmax), fn_loc(b), "ok", nontrivial=False)
    armed = True
    n = 0
    for b in lib.bodies:
        if b.in_test_mod():
            continue
        per = {}
        for bi, t in sorted(b.calls(), key=lambda x: (int(x[1]["loc"].split(":")[1]), int(x[1]["loc"].split(":")[2]))):
            inst = t["callee"].get("inst") or ""
            m = re.search(r"<impl str>::parse::<(\w+)>$", inst)
            if not m or m.group(1) not in INT_TYPES:
                continue
            recv = t["args"][0]["pl"]["l"] if t["args"] and t["args"][0].get("k") in ("copy", "move") else None
            fields = chain_fields(b, recv) if recv is not None else []
            from_token = any(a in TOKEN_TYPES and f == "value" for a, f in fields)
            tok_ty = next((a for a, f in fields if a in TOKEN_TYPES and f == "value"), None)
            cons = consumers_of(b, t["dest"]["l"]) if not t["dest"]["p"] else []
            names = [(callee_path(c) or "").rsplit("::", 1)[-1] for c in cons]
            n += 1
            fn = "::".join(b.path.rsplit("::", 2)[-2:])
            ty = m.group(1)
            bad = [x for x in names if x in ("unwrap", "expect", "unwrap_unchecked")]
            ordinal = per.get(ty, 0)
            per[ty] = ordinal + 1
            if not from_token:
                r.inst("%s: parse::<%s> of a string that is not token text (%s)" % (fn, ty, names), short_loc(t["loc"]), "accepted:not user digits" if not bad else "ok",
                       nontrivial=False)
                # a parse of non-token text followed by unwrap is judged by its own origin rule (e.g. FLW-6 for tones)
                continue
            nb = bound.get(tok_ty)
            if bad and nb is not None and 10 ** nb - 1 <= LIMIT.get(ty, 0):
                r.inst("%s: token digits (at most %d, bounded by the lexer) -> parse::<%s> -> %s" % (fn, nb, ty, bad[0]), short_loc(t["loc"]), "ok")
                continue
            if bad and armed and b.path.startswith("asca::subrule::"):
                why = _arm_unreachable(lib, b, int(t["loc"].split(":")[1]))
                if why:
                    r.inst("%s: token digits -> parse::<%s> -> %s — %s" % (fn, ty, bad[0], why), short_loc(t["loc"]), "accepted:arm unreachable through the grammar")
                    continue
            if bad and armed:
                r.inst("%s: token digits -> parse::<%s> -> %s" % (fn, ty, bad[0]), short_loc(t["loc"]), "report")
                r.report("PAN-2|%s|parse::<%s>|%s|#%d" % (b.path, ty, bad[0], ordinal), short_loc(t["loc"]), b.path,
                         "digits of the rule text are parsed as %s and the Result is %s()ed: a literal that does not fit (e.g. 20 digits), or that is empty once its zeros are stripped (`[tone: 0]`), panics" % (ty, bad[0]))
            else:
                r.inst("%s: token digits -> parse::<%s> -> %s" % (fn, ty, names or "?"), short_loc(t["loc"]), "ok")
    r.analysed = {"parse_sites": n, "armed": armed}
    return r


# ====================================================================== PAN-3 / PAN-4
# A small may-analysis over the HIR trees: which element kinds can a parser put into which container
# (producers), and which containers can reach which `match` with a panicking arm (consumers).


def _names_in_pat(p):
    """binding keys (HirId-based when the driver provides it, so that re-used names in different scopes stay apart)"""
    return [q.get("hid", q["name"]) for q in hirq.walk_pats(p) if q.get("p") == "bind"]


def _param_key(body, i):
    ps = body.hir.get("params") or []
    if i < len(ps) and ps[i].get("p") == "bind":
        return ps[i].get("hid", ps[i]["name"])
    return body.param_names[i]


def _lkey(e):
    return e.get("hid", e.get("local"))


ITER_CLOSURE_METHODS = ("map", "filter_map", "flat_map", "and_then", "map_while", "scan", "fold", "try_fold", "then", "map_or", "map_or_else",
                        "for_each", "any", "all", "position", "try_for_each", "count", "filter", "find", "skip_while", "take_while", "inspect", "find_map",
                        "max_by_key", "min_by_key", "retain", "is_some_and", "is_none_or")


class KindFlow:
    """Producer side: for every function of a parser impl, the element kinds its returned items may have;
    and the contents of every container variant."""

    def __init__(self, lib, impl_prefix, elem_enum, item_ctor, container_variants, extra_struct=None, item_marker="Item", hir_override=None):
        self.lib = lib
        self.hir_override = hir_override or {}
        self.prefix = impl_prefix
        self.enum = elem_enum                   # e.g. asca::parser::ParseElement
        self.item_ctor = item_ctor              # e.g. asca::parser::Item::new
        self.containers = container_variants    # variant -> index of the Vec<Item> argument
        self.fns = {b.path: b for b in lib.bodies if b.path.startswith(impl_prefix) and b.kind in ("assoc_fn", "fn") and b.hir and not b.in_test_mod()}
        self.ret = {p: set() for p in self.fns}
        self.content = {}                       # container -> set(kinds)
        self.named = {}                         # named sinks (struct fields / ctor args) -> kinds
        self.extra_struct = extra_struct or {}
        self.item_marker = item_marker
        self.env = {p: {} for p in self.fns}
        self.solve()

    def variant_of(self, path):
        if path and path.startswith(self.enum + "::"):
            return path[len(self.enum) + 2:]
        return None

    def kinds_of_kind_expr(self, f, e):
        e = hirq.strip(e)
        if e.get("e") == "path":
            v = self.variant_of(e.get("path"))
            if v:
                return {v}
            if "local" in e:
                return set(self.env[f].get("#kind:" + e["local"], set()))
            return set()
        if e.get("e") == "call":
            fn = hirq.strip(e["f"])
            v = self.variant_of(fn.get("path"))
            if v:
                if v in self.containers:
                    idx = self.containers[v]
                    if idx < len(e["args"]):
                        self.content.setdefault(v, set()).update(flat_tags(self.eval(f, e["args"][idx])))
                return {v}
        if e.get("e") in ("match", "if", "block"):
            out = set()
            for br in self._branches(e):
                out |= self.kinds_of_kind_expr(f, br)
            return out
        return set()

    def _branches(self, e):
        e = hirq.strip(e)
        if e.get("e") == "match":
            return [a["body"] for a in e["arms"]]
        if e.get("e") == "if":
            return [e["then"]] + ([e["else"]] if e.get("else") is not None else [])
        if e.get("e") == "block":
            return [e["tail"]] if e.get("tail") is not None else []
        return []

    def eval(self, f, e):
        e = hirq.strip(e)
        k = e.get("e")
        if k == "path":
            if "local" in e:
                return set(self.env[f].get(_lkey(e), set()))
            return set()
        if k == "call":
            fn = hirq.strip(e["f"])
            p = fn.get("path") or ""
            if p == self.item_ctor:
                return self.kinds_of_kind_expr(f, e["args"][0])
            if p in self.fns:
                self._bind_args(f, p, e["args"], method=False)
                return set(self.ret[p])
            if self.variant_of(p):
                return set()
            out = set()
            for a in e["args"]:
                out |= self.eval(f, a)
            return out
        if k == "mcall":
            d = e.get("def") or ""
            if d in self.fns:
                self._bind_args(f, d, [e["recv"]] + e["args"], method=True)
                return set(self.ret[d])
            out = self.eval(f, e["recv"])
            nm = e["name"]
            if nm == "zip" and e["args"]:
                return {("zip", frozenset(out), frozenset(self.eval(f, e["args"][0])))}
            if nm == "enumerate":
                return {("enum", frozenset(out))}
            cl = [hirq.strip(a) for a in e["args"] if hirq.strip(a).get("e") == "closure"]
            if cl and nm in ITER_CLOSURE_METHODS:
                # the closure's parameter receives the elements of the receiver
                c = cl[0]
                if c.get("params"):
                    self.bind(f, c["params"][-1] if nm in ("fold", "try_fold") else c["params"][0], out)
                if nm in ("map", "filter_map", "flat_map", "and_then", "map_while", "scan", "fold", "try_fold", "then", "map_or", "map_or_else"):
                    return self.eval(f, c["body"])
                if nm in ("for_each", "any", "all", "position", "try_for_each", "count"):
                    return set()
                return out
            if nm in ("unwrap_or", "unwrap_or_else", "or", "or_else", "chain", "extend", "append"):
                for a in e["args"]:
                    out |= self.eval(f, a)
            return out
        if k in ("array", "tup"):
            out = set()
            for a in e["items"]:
                out |= self.eval(f, a)
            return out
        if k == "struct":
            sp = e.get("path") or ""
            if sp.endswith("::Item") or sp.endswith("::AliasItem"):
                for name, val in e["fields"]:
                    if name == "kind":
                        return self.kinds_of_kind_expr(f, val)
            if sp in self.extra_struct:
                for name, val in e["fields"]:
                    if name in self.extra_struct[sp]:
                        v_ = flat_tags(self.eval(f, val))
                        self.named.setdefault("%s.%s" % (sp.rsplit("::", 1)[-1], name), set()).update(v_)
                        self.named.setdefault("%s.%s@%s" % (sp.rsplit("::", 1)[-1], name, f.rsplit("::", 1)[-1]), set()).update(v_)
            return set()
        if k in ("match", "if", "block"):
            out = set()
            for br in self._branches(e):
                out |= self.eval(f, br)
            return out
        if k in ("addr", "unary", "cast"):
            return self.eval(f, e["a"])
        if k == "field":
            # a projection to a field that holds no item (x.position, x.value ...) carries no element kinds
            t = e.get("ty") or ""
            if self.item_marker not in t and "Env" not in t:
                return set()
            return self.eval(f, e["a"])
        if k == "index":
            return self.eval(f, e["a"])
        if k == "closure":
            return self.eval(f, e["body"])
        return set()

    def _bind_args(self, f, callee, args, method):
        cb = self.fns[callee]
        for i, a in enumerate(args):
            if i < len(cb.param_names) and cb.param_names[i]:
                v = self.eval(f, a)
                if v:
                    cur = self.env[callee].setdefault(_param_key(cb, i), set())
                    if not v <= cur:
                        cur |= v
                        self.changed = True

    def bind(self, f, pat, vals):
        """bind the names of `pat` to `vals`; zip / enumerate values are taken apart positionally; only
        bindings whose type mentions the item type receive tags"""
        if not vals:
            return
        p0 = pat
        while True:
            if p0.get("p") == "ref":
                p0 = p0["sub"]
            elif p0.get("p") == "ts" and len(p0.get("pats", [])) == 1 and (p0.get("path") or "").endswith(("Option::Some", "Result::Ok", "ControlFlow::Continue")):
                p0 = p0["pats"][0]
            elif p0.get("p") == "struct" and len(p0.get("fields", [])) == 1 and (p0.get("path") or "").endswith(("Option::Some", "Result::Ok", "ControlFlow::Continue")):
                p0 = p0["fields"][0][1]
            else:
                break
        plain = set()
        for v in vals:
            if isinstance(v, tuple) and p0.get("p") == "tup" and len(p0["pats"]) == 2:
                if v[0] == "zip":
                    self.bind(f, p0["pats"][0], set(v[1]))
                    self.bind(f, p0["pats"][1], set(v[2]))
                    continue
                if v[0] == "enum":
                    self.bind(f, p0["pats"][1], set(v[1]))
                    continue
            plain.add(v)
        if not plain:
            return
        for q in hirq.walk_pats(pat):
            if q.get("p") != "bind":
                continue
            ty = q.get("ty")
            if ty is not None and self.item_marker not in ty:
                continue
            n = q.get("hid", q["name"])
            cur = self.env[f].setdefault(n, set())
            if not plain <= cur:
                cur |= plain
                self.changed = True

    def step(self, f):
        b = self.fns[f]
        root = self.hir_override.get(f) or b.hir["body"]
        for n in hirq.walk(root):
            k = n["e"]
            if k == "let" and n.get("init") is not None:
                self.bind(f, n["pat"], self.eval(f, n["init"]))
            elif k == "letcond":
                self.bind(f, n["pat"], self.eval(f, n["init"]))
            elif k == "match":
                v = self.eval(f, n["scrut"])
                for a in n["arms"]:
                    if n.get("src") == "TryDesugar" and not (a["pat"].get("path") or "").endswith("ControlFlow::Continue"):
                        continue
                    self.bind(f, a["pat"], v)
            elif k == "assign":
                l = hirq.strip(n["lhs"])
                if l.get("e") == "path" and "local" in l:
                    v = self.eval(f, n["rhs"])
                    cur = self.env[f].setdefault(_lkey(l), set())
                    if not v <= cur:
                        cur |= v
                        self.changed = True
            elif k == "mcall" and n["name"] in ("push", "extend", "insert", "append", "push_back", "extend_from_slice"):
                r0 = hirq.strip(n["recv"])
                if r0.get("e") == "path" and "local" in r0:
                    v = set()
                    for a in n["args"]:
                        v |= self.eval(f, a)
                    cur = self.env[f].setdefault(_lkey(r0), set())
                    if not v <= cur:
                        cur |= v
                        self.changed = True
            elif k in ("call", "struct"):
                self.eval(f, n)      # side effects: container contents, callee parameter bindings
        out = set()
        tail = root
        out |= self.eval(f, tail)
        for n in hirq.walk(root):
            if n["e"] == "ret" and n.get("a") is not None and not n.get("exp"):
                out |= self.eval(f, n["a"])
        if not out <= self.ret[f]:
            self.ret[f] |= out
            self.changed = True

    def solve(self):
        for _ in range(40):
            self.changed = False
            before = {k: set(v) for k, v in self.content.items()}
            nb = {k: set(v) for k, v in self.named.items()}
            for f in self.fns:
                self.step(f)
            if before != self.content or nb != self.named:
                self.changed = True
            if not self.changed:
                break


class TagFlow:
    """Consumer side: which containers' elements can reach each expression (by name, flow-insensitively,
    through parameters to a fixed point)."""

    def __init__(self, lib, fn_filter, elem_enum, container_variants, field_tags, item_marker="Item"):
        self.lib = lib
        self.enum = elem_enum
        self.containers = container_variants
        self.field_tags = field_tags          # field name -> tag (e.g. input -> Input)
        self.item_marker = item_marker
        self.fns = {b.path: b for b in lib.bodies if fn_filter(b) and b.kind in ("assoc_fn", "fn") and b.hir and not b.in_test_mod()}
        self.env = {p: {} for p in self.fns}
        self.ret = {p: set() for p in self.fns}
        self.solve()

    def eval(self, f, e):
        e = hirq.strip(e)
        k = e.get("e")
        if k == "path":
            return set(self.env[f].get(_lkey(e), set())) if "local" in e else set()
        if k == "field":
            base = self.eval(f, e["a"])
            nm = e["name"]
            if nm in self.field_tags and self._is_tag_owner(e):
                return {self.field_tags[nm]}
            return base
        if k in ("index",):
            return self.eval(f, e["a"])
        if k == "call":
            fn = hirq.strip(e["f"])
            p = fn.get("path") or ""
            if p in self.fns:
                self._bind_args(f, p, e["args"])
                return set(self.ret[p])
            out = set()
            for a in e["args"]:
                out |= self.eval(f, a)
            return out
        if k == "mcall":
            d = e.get("def") or ""
            if d in self.fns:
                self._bind_args(f, d, [e["recv"]] + e["args"])
                return set(self.ret[d])
            out = self.eval(f, e["recv"])
            if e["name"] == "zip" and e["args"]:
                return {("zip", frozenset(out), frozenset(self.eval(f, e["args"][0])))}
            if e["name"] == "enumerate":
                return {("enum", frozenset(out))}
            for a in e["args"]:
                a0 = hirq.strip(a)
                if a0.get("e") == "closure":
                    # closure parameters see the receiver's elements
                    for cp in a0["params"]:
                        self.bind(f, cp, out)
                    out |= self.eval(f, a0["body"])
                else:
                    out |= self.eval(f, a) if e["name"] in ("chain", "zip", "extend", "unwrap_or") else set()
            return out
        if k in ("array", "tup"):
            out = set()
            for a in e["items"]:
                out |= self.eval(f, a)
            return out
        if k in ("addr", "unary", "cast"):
            return self.eval(f, e["a"])
        if k in ("match", "if", "block"):
            out = set()
            if k == "match":
                for a in e["arms"]:
                    out |= self.eval(f, a["body"])
            elif k == "if":
                out |= self.eval(f, e["then"])
                if e.get("else") is not None:
                    out |= self.eval(f, e["else"])
            elif e.get("tail") is not None:
                out |= self.eval(f, e["tail"])
            return out
        if k == "closure":
            return self.eval(f, e["body"])
        return set()

    def _is_tag_owner(self, e):
        t = (e.get("of_ty") or "")
        return ("SubRule" in t or "Env" in t or "Rule" in t or "Transformation" in t or "AliasItem" in t) or e["name"] in ("before", "after")

    def _bind_args(self, f, callee, args):
        cb = self.fns[callee]
        for i, a in enumerate(args):
            if i < len(cb.param_names) and cb.param_names[i]:
                v = self.eval(f, a)
                if v:
                    cur = self.env[callee].setdefault(_param_key(cb, i), set())
                    if not v <= cur:
                        cur |= v
                        self.changed = True

    def bind(self, f, pat, vals):
        """bind the names of `pat` to `vals`; zip / enumerate values are taken apart positionally; only
        bindings whose type mentions the item type receive tags"""
        if not vals:
            return
        p0 = pat
        while True:
            if p0.get("p") == "ref":
                p0 = p0["sub"]
            elif p0.get("p") == "ts" and len(p0.get("pats", [])) == 1 and (p0.get("path") or "").endswith(("Option::Some", "Result::Ok", "ControlFlow::Continue")):
                p0 = p0["pats"][0]
            elif p0.get("p") == "struct" and len(p0.get("fields", [])) == 1 and (p0.get("path") or "").endswith(("Option::Some", "Result::Ok", "ControlFlow::Continue")):
                p0 = p0["fields"][0][1]
            else:
                break
        plain = set()
        for v in vals:
            if isinstance(v, tuple) and p0.get("p") == "tup" and len(p0["pats"]) == 2:
                if v[0] == "zip":
                    self.bind(f, p0["pats"][0], set(v[1]))
                    self.bind(f, p0["pats"][1], set(v[2]))
                    continue
                if v[0] == "enum":
                    self.bind(f, p0["pats"][1], set(v[1]))
                    continue
            plain.add(v)
        if not plain:
            return
        for q in hirq.walk_pats(pat):
            if q.get("p") != "bind":
                continue
            ty = q.get("ty")
            if ty is not None and self.item_marker not in ty:
                continue
            n = q.get("hid", q["name"])
            cur = self.env[f].setdefault(n, set())
            if not plain <= cur:
                cur |= plain
                self.changed = True

    def bind_elem_pattern(self, f, pat, scrut_vals):
        """match on an element kind: payload bindings of container variants get that container's tag"""
        for p in hirq.walk_pats(pat):
            if p.get("p") == "ts" and (p.get("path") or "").startswith(self.enum + "::"):
                v = p["path"][len(self.enum) + 2:]
                if v in self.containers and self.containers[v] < len(p["pats"]):
                    for n in _names_in_pat(p["pats"][self.containers[v]]):
                        cur = self.env[f].setdefault(n, set())
                        if v not in cur:
                            cur.add(v)
                            self.changed = True

    def step(self, f):
        root = self.fns[f].hir["body"]
        for n in hirq.walk(root):
            k = n["e"]
            if k == "let" and n.get("init") is not None:
                self.bind(f, n["pat"], self.eval(f, n["init"]))
                self.bind_elem_pattern(f, n["pat"], None)
            elif k == "letcond":
                self.bind(f, n["pat"], self.eval(f, n["init"]))
                self.bind_elem_pattern(f, n["pat"], None)
            elif k == "match":
                v = self.eval(f, n["scrut"])
                elem = self.enum.rsplit("::", 1)[-1] in (n.get("sty") or "")
                for a in n["arms"]:
                    if n.get("src") == "TryDesugar" and not (a["pat"].get("path") or "").endswith("ControlFlow::Continue"):
                        continue
                    if elem:
                        self.bind_elem_pattern(f, a["pat"], v)
                    else:
                        self.bind(f, a["pat"], v)
                        self.bind_elem_pattern(f, a["pat"], v)
            elif k == "assign":
                l = hirq.strip(n["lhs"])
                if l.get("e") == "path" and "local" in l:
                    self.bind(f, {"p": "bind", "name": l["local"], "hid": _lkey(l)}, self.eval(f, n["rhs"]))
            elif k == "mcall" and n["name"] in ("push", "extend", "insert", "append", "push_back"):
                r0 = hirq.strip(n["recv"])
                if r0.get("e") == "path" and "local" in r0:
                    v = set()
                    for a in n["args"]:
                        v |= self.eval(f, a)
                    self.bind(f, {"p": "bind", "name": r0["local"], "hid": _lkey(r0)}, v)
            elif k in ("call", "mcall"):
                self.eval(f, n)
        out = self.eval(f, root)
        for n in hirq.walk(root):
            if n["e"] == "ret" and n.get("a") is not None:
                out |= self.eval(f, n["a"])
        if not out <= self.ret[f]:
            self.ret[f] |= out
            self.changed = True

    def solve(self):
        for _ in range(40):
            self.changed = False
            for f in self.fns:
                self.step(f)
            if not self.changed:
                break


def flat_tags(vals):
    out = set()
    for v in vals:
        if isinstance(v, tuple):
            for part in v[1:]:
                out |= flat_tags(part)
        else:
            out.add(v)
    return out


def panic_variants(m, enum, all_variants):
    """variants that fall into an arm doing nothing but panic"""
    listed = set()
    pan = {}
    for arm in m["arms"]:
        vs = set()
        wild = False
        for p in hirq.flat_pats(arm["pat"]):
            if p.get("p") in ("ts", "path", "struct") and (p.get("path") or "").startswith(enum + "::"):
                vs.add(p["path"][len(enum) + 2:])
            elif p.get("p") in ("wild", "bind"):
                wild = True
        is_pan = hirq.arm_is_pure_panic(arm["body"])
        if wild:
            vs |= (set(all_variants) - listed)
        listed |= vs
        if is_pan:
            for v in vs:
                pan[v] = arm["ln"]
    return pan


def elem_arm_context(root, enum, pred):
    """For every node satisfying pred, the stack of enclosing (match-node, arm) pairs whose scrutinee is an element kind."""
    out = []
    short = enum.rsplit("::", 1)[-1]

    def rec(x, stack):
        if isinstance(x, dict):
            if "e" in x:
                if pred(x):
                    out.append((x, list(stack)))
                if x["e"] == "match" and short in (x.get("sty") or ""):
                    rec(x["scrut"], stack)
                    for arm in x["arms"]:
                        if arm.get("guard") is not None:
                            rec(arm["guard"], stack + [(x, arm)])
                        rec(arm["body"], stack + [(x, arm)])
                    return
            for v in x.values():
                if isinstance(v, (dict, list)):
                    rec(v, stack)
        elif isinstance(x, list):
            for v in x:
                if isinstance(v, (dict, list)):
                    rec(v, stack)
    rec(root, [])
    return out


def arm_variants(arm, enum):
    vs = set()
    for p in hirq.flat_pats(arm["pat"]):
        if p.get("p") in ("ts", "path", "struct") and (p.get("path") or "").startswith(enum + "::"):
            vs.add(p["path"][len(enum) + 2:])
    return vs


PE = "asca::parser::ParseElement"
CONTAINERS = {"Set": 0, "Structure": 0, "Optional": 0}


class RuleGrammar:
    """producer table + consumer tags of the rule grammar, shared by PAN-2 and PAN-3"""
    _cache = {}

    def __new__(cls, lib):
        key = id(lib)
        if key in cls._cache:
            return cls._cache[key]
        self = object.__new__(cls)
        self.lib = lib
        self.kf = KindFlow(lib, "asca::parser::Parser::", PE, "asca::parser::Item::new", CONTAINERS,
                           extra_struct={"asca::parser::Env": ("before", "after")})
        self.tf = TagFlow(lib, lambda b: b.path.startswith(("asca::subrule::", "asca::rule::")), PE, CONTAINERS,
                          {"input": "Input", "output": "Output", "before": "Env", "after": "Env", "context": "Context", "except": "Context"})
        kf = self.kf
        P = "asca::parser::Parser::"
        self.content = {
            "Input": set(kf.ret.get(P + "get_input", set())),
            "Output": set(kf.ret.get(P + "get_output", set())),
            "Env": set(kf.named.get("Env.before", set())) | set(kf.named.get("Env.after", set())),
            "Context": set(kf.ret.get(P + "get_context", set())) | set(kf.ret.get(P + "get_except_block", set())),
        }
        for c in CONTAINERS:
            self.content[c] = set(kf.content.get(c, set()))
        self.all_variants = [v["name"] for v in lib.adts[PE]["variants"]]
        cls._cache[key] = self
        return self


def _rule_type_discharge(ctx, r):
    """EmptySet / Metathesis are legitimate first elements of input/output: they select the rule type, and the
    functions that would panic on them are only entered for the other rule types. Checked, not assumed."""
    lib = ctx.lib
    ok = True
    # (1) split_into_subrules classifies exactly on (input[0].kind, output[0].kind)
    sp = ctx.fn(lib, "asca::rule::Rule::split_into_subrules")
    table = []
    # the classification may sit in a helper of Rule: look through helper calls
    sp_root = hirq.inline_helpers(lib, sp)
    for m in [n for n in hirq.walk(sp_root) if n["e"] == "match"]:
        if (m.get("sty") or "").startswith("(&asca::parser::ParseElement, &asca::parser::ParseElement)"):
            for arm in m["arms"]:
                p = arm["pat"]
                if p.get("p") == "tup" and len(p["pats"]) == 2:
                    a = [(q.get("path") or q.get("p") or "").rsplit("::", 1)[-1] for q in p["pats"]]
                else:
                    a = ["..", ".."]
                v = hirq.strip(arm["body"])
                res = None
                for n in hirq.walk(arm["body"]):
                    if n["e"] == "path" and "rule::RuleType::" in (n.get("path") or ""):
                        res = n["path"].rsplit("::", 1)[-1]
                    if n["e"] in ("ret", "ret_inl"):
                        res = "Err"
                    if n["e"] == "call" and (hirq.strip(n["f"]).get("path") or "").endswith("Result::Err"):
                        res = "Err"
                table.append((a[0], a[1], res))
    want = [("EmptySet", "EmptySet", "Err"), ("EmptySet", "Metathesis", "Err"), ("EmptySet", "wild", "Insertion"), ("wild", "EmptySet", "Deletion"),
            ("wild", "Metathesis", "Metathesis")]
    c1 = table[:5] == want and len(table) == 6 and table[5][2] == "Substitution"
    r.inst("split_into_subrules selects the rule type from (input[0], output[0]): %s" % table, fn_loc(sp), "ok" if c1 else "report")
    if not c1:
        ok = False
        r.report("PAN-3|discharge|rule-type-table", fn_loc(sp), sp.path,
                 "rule type is no longer selected by exactly (EmptySet,_)->Insertion, (_,EmptySet)->Deletion, (_,Metathesis)->Metathesis: the interpreter's unreachable!() arms for EmptySet/Metathesis lose their justification")
    # (2) insert / substitution are called only from the matching arms of `match self.rule_type`
    tr = ctx.fn(lib, "asca::subrule::SubRule::transform")
    c2 = False
    for m in hirq.matches(tr):
        if "rule::RuleType" in (m.get("sty") or ""):
            seen = {}
            for arm in m["arms"]:
                v = [(p.get("path") or "").rsplit("::", 1)[-1] for p in hirq.flat_pats(arm["pat"])]
                calls = {(n.get("def") or "").rsplit("::", 1)[-1] for n in hirq.walk(arm["body"]) if n["e"] == "mcall" and (n.get("def") or "").startswith("asca::subrule::SubRule::")}
                seen[tuple(v)] = calls
            ins_arms = [v for v, c in seen.items() if "insert" in c]
            sub_arms = [v for v, c in seen.items() if "substitution" in c]
            c2 = ins_arms == [("Insertion",)] and sub_arms == [("Substitution",)]
    others = [b.path for b in lib.bodies if not b.in_test_mod() and b.path != tr.path and any(
        (callee_path(t) or "") in ("asca::subrule::SubRule::insert", "asca::subrule::SubRule::substitution") for _, t in b.calls())]
    c2 = c2 and not others
    r.inst("SubRule::insert / substitution are called only from the Insertion / Substitution arms of transform", fn_loc(tr), "ok" if c2 else "report")
    if not c2:
        ok = False
        r.report("PAN-3|discharge|dispatch", fn_loc(tr), tr.path, "insert/substitution are reachable for other rule types (callers: %s)" % others)
    # (3) EmptySet / Metathesis are built only as singleton terms
    c3 = True
    for f in ("asca::parser::Parser::get_input", "asca::parser::Parser::get_output"):
        b = ctx.fn(lib, f)
        for n in hirq.walk(b.hir["body"]):
            if n["e"] == "array":
                special = False
                for it in n["items"]:
                    for q in hirq.walk(it):
                        if q["e"] == "path" and (q.get("path") or "").endswith(("ParseElement::Metathesis", "ParseElement::EmptySet")):
                            special = True
                        if q["e"] == "path" and q.get("local") in ("empty",):
                            special = True
                if special and len(n["items"]) != 1:
                    c3 = False
        pushes = [n for n in hirq.walk(b.hir["body"]) if n["e"] == "mcall" and n["name"] == "push"]
    r.inst("EmptySet / Metathesis terms are singleton vectors in get_input / get_output", None, "ok" if c3 else "report")
    if not c3:
        ok = False
        r.report("PAN-3|discharge|singleton", "-", "asca::parser::Parser::get_output", "`*` / `&` can be built as part of a longer term")
    # (4) input matchers run only for rule types other than Insertion (FLW-1 checks the shape of that early return)
    ap = ctx.fn(lib, "asca::subrule::SubRule::apply")
    first = hirq.strip((ap.hir["body"].get("stmts") or [{}])[0])
    c4 = first.get("e") == "if" and any((n.get("path") or "").endswith("RuleType::Insertion") for n in hirq.walk(first["cond"]) if n["e"] == "path") and any(
        n["e"] == "ret" for n in hirq.walk(first["then"]))
    r.inst("SubRule::apply returns through transform for Insertion rules before any input matcher runs", fn_loc(ap), "ok" if c4 else "report")
    if not c4:
        ok = False
        r.report("PAN-3|discharge|insertion-entry", fn_loc(ap), ap.path, "the input matchers can run for an Insertion rule (input = `*`)")
    return ok


def pan3(ctx):
    r = RuleResult("PAN-3", "no element kind the rule parser can put into a container reaches an unreachable!/unimplemented! arm of the interpreter", floor=30)
    lib = ctx.lib
    g = RuleGrammar(lib)
    if len(g.kf.fns) < 30:
        raise AnchorMissing("rule parser: only %d functions found" % len(g.kf.fns))
    for c, kinds in sorted(g.content.items()):
        r.inst("producer table: %s may contain %s" % (c, sorted(kinds)), None, "ok", nontrivial=bool(kinds))
        if not kinds:
            raise AnchorMissing("producer table for %s is empty" % c)
    discharged = _rule_type_discharge(ctx, r)
    legit = {"Input": {"EmptySet"}, "Output": {"EmptySet", "Metathesis"}} if discharged else {}
    n_cons = 0
    for p, b in sorted(g.tf.fns.items()):
        for m in hirq.matches(b):
            if "ParseElement" not in (m.get("sty") or ""):
                continue
            pan = panic_variants(m, PE, g.all_variants)
            if not pan:
                continue
            n_cons += 1
            tags = flat_tags(g.tf.eval(p, m["scrut"]))
            fn = p.rsplit("::", 1)[-1]
            if not tags:
                r.inst("%s: match at line %d with panic arms — element of unknown origin" % (fn, m["ln"]), fn_loc(b, m["ln"]), "report")
                r.report("PAN-3|%s|untagged|%d" % (p, [x["ln"] for x in hirq.matches(b)].index(m["ln"])), fn_loc(b, m["ln"]), p,
                         "cannot determine which container the matched element comes from: rule fails closed")
                continue
            bad = {}
            for t in sorted(tags):
                inter = (g.content.get(t, set()) & set(pan)) - legit.get(t, set())
                for v in inter:
                    bad.setdefault(v, []).append(t)
            r.inst("%s (line %d): elements of %s never hit the panic arms %s" % (fn, m["ln"], sorted(tags), sorted(set(pan))[:6]), fn_loc(b, m["ln"]),
                   "ok" if not bad else "report")
            for v, ts in sorted(bad.items()):
                r.report("PAN-3|%s|%s|%s" % (p, "+".join(ts), v), fn_loc(b, pan[v]), p,
                         "the parser can put a %s inside %s, and this match sends %s to an arm that only panics" % (v, "/".join(ts), v))
    r.analysed = {"parser_functions": len(g.kf.fns), "consumer_matches": n_cons, "content": {k: sorted(v) for k, v in g.content.items()}}
    return r



def _arm_unreachable(lib, b, line):
    """The call on `line` sits in a match arm for element kinds that the parser never puts into the container
    the matched element comes from (producer table of PAN-3)."""
    g = RuleGrammar(lib)
    if b.path not in g.tf.fns:
        return None
    hits = elem_arm_context(b.hir["body"], PE, lambda n: n["e"] == "mcall" and n["name"] == "parse" and n.get("ln") == line)
    for node, stack in hits:
        for m, arm in reversed(stack):
            vs = arm_variants(arm, PE)
            tags = flat_tags(g.tf.eval(b.path, m["scrut"]))
            if vs and tags and all(not (g.content.get(t, set()) & vs) for t in tags):
                return "the %s arm of a match on elements of %s: the rule parser never produces that" % ("/".join(sorted(vs)), "/".join(sorted(tags)))
    return None


# ---------------------------------------------------------------------- PAN-4

APE = "asca::alias::parser::AliasParseElement"


def pan4(ctx):
    r = RuleResult("PAN-4", "no element kind the alias parser can produce on a side of a (de)romaniser reaches an unreachable! arm of word parsing / rendering", floor=9)
    lib = ctx.lib
    # a helper that builds the Transformations for both producers is expanded into each of them (context sensitivity)
    TR = "asca::alias::Transformation"
    builds = lambda cb: any(n["e"] == "struct" and n.get("path") == TR for n in hirq.walk(cb.hir["body"]))
    override = {}
    for b_ in lib.bodies:
        if b_.path.startswith("asca::alias::parser::AliasParser::") and b_.hir and b_.kind in ("assoc_fn", "fn") and not builds(b_):
            t_ = hirq.inline_helpers(lib, b_, only_if=builds)
            if any(n.get("inl") for n in hirq.walk(t_)):
                override[b_.path] = t_
    kf = KindFlow(lib, "asca::alias::parser::AliasParser::", APE, "asca::alias::parser::AliasItem::new", {},
                  extra_struct={TR: ("input", "output")}, hir_override=override)
    all_variants = [v["name"] for v in lib.adts[APE]["variants"]]
    # which producer does AliasParser::parse call for which kind
    ap = ctx.fn(lib, "asca::alias::parser::AliasParser::parse")
    disp = {}
    for m in hirq.matches(ap):
        if "alias::AliasKind" in (m.get("sty") or ""):
            for arm in m["arms"]:
                k = [(p.get("path") or "").rsplit("::", 1)[-1] for p in hirq.flat_pats(arm["pat"])]
                calls = [(n.get("def") or "").rsplit("::", 1)[-1] for n in hirq.walk(arm["body"]) if n["e"] == "mcall" and (n.get("def") or "").startswith("asca::alias::parser::AliasParser::")]
                if len(k) == 1 and len(calls) == 1:
                    disp[k[0]] = calls[0]
    if set(disp) != {"Deromaniser", "Romaniser"}:
        raise AnchorMissing("AliasParser::parse: dispatch on AliasKind not recognised (%s)" % disp)
    content = {}
    for kind, fn in disp.items():
        for side in ("input", "output"):
            v = kf.named.get("Transformation.%s@%s" % (side, fn), set())
            if not v:
                raise AnchorMissing("producer table empty for %s.%s" % (kind, side))
            content[(kind, side)] = set(v)
            r.inst("producer table: %s %s side may be %s" % (kind, side, sorted(v)), None, "ok")
    # consumers: functions under Word::new see deromanisers, Word::render sees romanisers (FLW-2 proves the colours)
    derom_fns = lib.reachable(["asca::word::Word::new"])
    rom_fns = lib.reachable(["asca::word::Word::render"])
    n = 0
    for b in lib.bodies:
        if b.in_test_mod() or not b.hir or b.kind == "closure":
            continue
        colours = [c for c, fs in (("Deromaniser", derom_fns), ("Romaniser", rom_fns)) if b.path in fs]
        if not colours:
            continue
        ms = [m for m in hirq.matches(b) if "AliasParseElement" in (m.get("sty") or "")]
        for idx, m in enumerate(ms):
            pan = panic_variants(m, APE, all_variants)
            if not pan:
                continue
            n += 1
            sc = hirq.strip(m["scrut"])
            while sc.get("e") in ("addr", "unary"):
                sc = hirq.strip(sc["a"])
            side = None
            if sc.get("e") == "field" and sc["name"] == "kind":
                inner = hirq.strip(sc["a"])
                if inner.get("e") == "field" and inner["name"] in ("input", "output"):
                    side = inner["name"]
            fn = "::".join(b.path.rsplit("::", 2)[-2:])
            if side is None:
                r.inst("%s: match at line %d on an alias element of unknown side" % (fn, m["ln"]), fn_loc(b, m["ln"]), "report")
                r.report("PAN-4|%s|untagged|%d" % (b.path, idx), fn_loc(b, m["ln"]), b.path, "cannot tell which side of the alias is matched here: fails closed")
                continue
            for c in colours:
                inter = content[(c, side)] & set(pan)
                r.inst("%s (line %d): %s %s side %s never hits the panic arm" % (fn, m["ln"], c, side, sorted(content[(c, side)])), fn_loc(b, m["ln"]),
                       "ok" if not inter else "report")
                for v in sorted(inter):
                    r.report("PAN-4|%s|%s.%s|%s" % (b.path, c, side, v), fn_loc(b, pan[v]), b.path,
                             "a %s may have %s on its %s side, and this match sends it to an arm that only panics" % (c.lower(), v, side))
    r.analysed = {"consumer_matches": n, "dispatch": disp}
    return r


# ====================================================================== PAN-1

BORROW = {"core::cell::RefCell::borrow": "shared", "core::cell::RefCell::borrow_mut": "mut"}
OTHER_CELL_OPS = ("core::cell::RefCell::replace", "core::cell::RefCell::take", "core::cell::RefCell::swap", "core::cell::RefCell::replace_with")


def cell_of(b, l, depth=0):
    """abstract cell a `&RefCell<_>` local refers to: ('field', name) | ('param', k) | ('local', l) | None"""
    if depth > 10:
        return None
    if 1 <= l <= b.mir["arg_count"] and "core::cell::RefCell<" in b.local_ty(l):
        return ("param", l - 1)
    d = _single_def(b, l)
    if d is None:
        return None
    if d.get("k") == "ref":
        pl = d["pl"]
        for pr in reversed(pl["p"]):
            if isinstance(pr, dict) and "f" in pr and "core::cell::RefCell<" in (pr.get("ty") or ""):
                return ("field", pr.get("n"))
        if pl["p"] == ["*"] or not pl["p"]:
            if "core::cell::RefCell<" in b.local_ty(pl["l"]) and not pl["p"] and not b.local_ty(pl["l"]).startswith("&"):
                return ("local", pl["l"])
            return cell_of(b, pl["l"], depth + 1)
        return None
    if d.get("k") == "use" and d["op"].get("k") in ("copy", "move"):
        pl = d["op"]["pl"]
        if not pl["p"]:
            return cell_of(b, pl["l"], depth + 1)
        for pr in reversed(pl["p"]):
            if isinstance(pr, dict) and "f" in pr and "core::cell::RefCell<" in (pr.get("ty") or ""):
                return ("field", pr.get("n"))
    return None


def pan1(ctx, min_sites=100):
    r = RuleResult("PAN-1", "no RefCell of the interpreter is borrowed while a conflicting guard on it is live (intra- and interprocedural)", floor=100)
    lib = ctx.lib
    bodies = [b for b in lib.bodies if not b.in_test_mod()]
    by_path = {b.path: b for b in bodies}
    # ---- direct borrows and summaries
    direct = {}
    for b in bodies:
        ds = []
        for i, t in b.calls():
            cp = callee_path(t) or ""
            if cp in BORROW or cp in OTHER_CELL_OPS:
                a = t["args"][0]
                c = cell_of(b, a["pl"]["l"]) if a.get("k") in ("copy", "move") else None
                ds.append((i, t, c, BORROW.get(cp, "mut")))
        if ds:
            direct[b.path] = ds
    summ = {b.path: set() for b in bodies}
    for p, ds in direct.items():
        for i, t, c, m in ds:
            summ[p].add((c, m))

    def mapped(caller, t, callee_path_):
        out = set()
        for c, m in summ.get(callee_path_, ()):
            if c is None:
                out.add((None, m))
            elif c[0] == "param":
                k = c[1]
                if k < len(t["args"]) and t["args"][k].get("k") in ("copy", "move"):
                    out.add((cell_of(caller, t["args"][k]["pl"]["l"]), m))
                else:
                    out.add((None, m))
            elif c[0] == "field":
                out.add((c, m))
            # ('local', l): a cell owned by the callee's frame cannot alias the caller's guards
        return out
    changed = True
    rounds = 0
    while changed and rounds < 50:
        changed = False
        rounds += 1
        for b in bodies:
            for i, t in b.calls():
                cp = callee_path(t) or ""
                if cp in by_path and summ.get(cp):
                    new = mapped(b, t, cp)
                    if not new <= summ[b.path]:
                        summ[b.path] |= new
                        changed = True
    # ---- guard liveness and conflicts
    n_sites = 0
    n_guards = 0
    for b in bodies:
        if b.path not in direct:
            continue
        cfg = b.cfg
        guards = {}            # guard local -> (cell, mode, block, loc)
        for i, t, c, m in direct[b.path]:
            if (callee_path(t) or "") in BORROW and not t["dest"]["p"]:
                guards[t["dest"]["l"]] = (c, m, i, short_loc(t["loc"]))
        n_guards += len(guards)
        # forward may-liveness of guard locals
        live_in = {0: frozenset()}
        work = [0]
        while work:
            bi = work.pop()
            st = set(live_in.get(bi, frozenset()))
            blk = b.blocks[bi]
            for s in blk["s"]:
                if s["k"] == "dead" and s["l"] in st:
                    st.discard(s["l"])
                if s["k"] == "assign" and s["rv"]["k"] == "use" and s["rv"]["op"].get("k") == "move" and not s["rv"]["op"]["pl"]["p"] \
                        and s["rv"]["op"]["pl"]["l"] in st and not s["lhs"]["p"]:
                    # the guard moves into another local: follow it
                    g = s["rv"]["op"]["pl"]["l"]
                    st.discard(g)
                    guards.setdefault(s["lhs"]["l"], guards[g])
                    st.add(s["lhs"]["l"])
            t = blk["t"]
            out = set(st)
            if t["k"] == "drop" and not t["pl"]["p"] and t["pl"]["l"] in out:
                out.discard(t["pl"]["l"])
            if t["k"] == "call":
                for a in t["args"]:
                    if a.get("k") == "move" and not a["pl"]["p"] and a["pl"]["l"] in out and (callee_path(t) or "").endswith(("mem::drop", "::drop")):
                        out.discard(a["pl"]["l"])
                if (callee_path(t) or "") in BORROW and not t["dest"]["p"]:
                    out.add(t["dest"]["l"])
            for su in cfg.succ[bi]:
                old = live_in.get(su)
                new = frozenset(out) if old is None else (old | frozenset(out))
                if old is None or new != old:
                    live_in[su] = new
                    work.append(su)
        # conflicts
        per = {}
        for bi in sorted(live_in):
            blk = b.blocks[bi]
            t = blk["t"]
            if t["k"] != "call":
                continue
            st = set(live_in[bi])
            for s in blk["s"]:
                if s["k"] == "dead":
                    st.discard(s["l"])
            if not st:
                if (callee_path(t) or "") in BORROW:
                    n_sites += 1
                    r.inst("%s: %s with no guard live" % (b.path.rsplit("::", 1)[-1], (callee_path(t) or "").rsplit("::", 1)[-1]), short_loc(t["loc"]), "ok", nontrivial=False)
                continue
            cp = callee_path(t) or ""
            if cp in BORROW or cp in OTHER_CELL_OPS:
                a = t["args"][0]
                c = cell_of(b, a["pl"]["l"]) if a.get("k") in ("copy", "move") else None
                acc = {(c, BORROW.get(cp, "mut"))}
                what = "%s of %s" % (cp.rsplit("::", 1)[-1], _cell_name(c))
            elif cp in by_path and summ.get(cp):
                acc = mapped(b, t, cp)
                what = "call of %s, which may borrow %s" % (cp.rsplit("::", 1)[-1], sorted("%s:%s" % (_cell_name(c), m) for c, m in acc))
            else:
                continue
            n_sites += 1
            confl = []
            for g in st:
                gc, gm, gb, gloc = guards[g]
                for c, m in acc:
                    same = (c is None) or (gc is None) or (c == gc)
                    if same and (m == "mut" or gm == "mut"):
                        confl.append((gc, gm, gloc, c, m))
            fn = b.path.rsplit("::", 1)[-1]
            r.inst("%s: %s while %d guard(s) live" % (fn, what[:90], len(st)), short_loc(t["loc"]), "ok" if not confl else "report")
            if confl:
                gc, gm, gloc, c, m = confl[0]
                k = (cp.rsplit("::", 1)[-1], _cell_name(gc))
                ordinal = per.get(k, 0)
                per[k] = ordinal + 1
                r.report("PAN-1|%s|%s|%s|#%d" % (b.path, k[0], k[1], ordinal), short_loc(t["loc"]), b.path,
                         "%s while a %s guard on `%s` taken at %s is still live: RefCell panics with 'already %sborrowed'"
                         % (what, "mutable" if gm == "mut" else "shared", _cell_name(gc), gloc, "" if gm == "shared" else "mutably "))
    r.analysed = {"borrow_sites": sum(len(v) for v in direct.values()), "functions_with_borrows": len(direct), "guards": n_guards,
                  "summaries": {p.rsplit("::", 1)[-1]: sorted("%s:%s" % (_cell_name(c), m) for c, m in s_) for p, s_ in summ.items() if s_}}
    if sum(len(v) for v in direct.values()) < min_sites:
        raise AnchorMissing("fewer than %d RefCell borrow sites found (%d)" % (min_sites, sum(len(v) for v in direct.values())))
    return r


def _cell_name(c):
    if c is None:
        return "?"
    if c[0] == "field":
        return c[1]
    if c[0] == "param":
        return "param#%d" % c[1]
    return "local#%d" % c[1]


# ====================================================================== PAN-5


def pan5(ctx):
    r = RuleResult("PAN-5", "the scan cursor handed back through `next_pos` has been advanced past the match (store dominated by SegPos::increment on the stored cursor)", floor=2)
    lib = ctx.lib
    n = 0
    for fpath in ("asca::subrule::SubRule::transform", "asca::subrule::SubRule::substitution"):
        b = ctx.fn(lib, fpath)
        cfg = b.cfg
        # the `next_pos: &mut Option<SegPos>` parameter
        params = [i + 1 for i, t in enumerate(b.param_tys) if t == "&mut core::option::Option<asca::word::SegPos>"]
        if not params:
            raise AnchorMissing("%s has no `&mut Option<SegPos>` parameter" % fpath)
        pl = params[0]
        incs = [(i, t) for i, t in b.calls() if (callee_path(t) or "") == "asca::word::SegPos::increment"]
        k = 0
        for bi, blk in enumerate(b.blocks):
            if blk.get("cleanup"):
                continue
            for s in blk["s"]:
                if s["k"] != "assign" or not s["lhs"]["p"] or s["lhs"]["p"][0] != "*":
                    continue
                # store through the parameter itself or through a reference derived from it (`Some(next) = next_pos`)
                root = _deref_root(b, s["lhs"]["l"])
                if root != pl:
                    continue
                if b.local_ty(s["lhs"]["l"]) not in ("&mut asca::word::SegPos", "&mut core::option::Option<asca::word::SegPos>"):
                    continue
                n += 1
                src = s["rv"]["op"]["pl"]["l"] if s["rv"]["k"] == "use" and s["rv"]["op"].get("k") in ("copy", "move") else None
                hops = 0
                while src is not None and hops < 4:
                    d0 = _single_def(b, src)
                    if d0 is not None and d0.get("k") == "use" and d0["op"].get("k") in ("copy", "move") and not d0["op"]["pl"]["p"]:
                        src = d0["op"]["pl"]["l"]
                        hops += 1
                    else:
                        break
                ok = False
                for i, t in incs:
                    recv = t["args"][0]["pl"]["l"] if t["args"] and t["args"][0].get("k") in ("copy", "move") else None
                    d = _single_def(b, recv) if recv is not None else None
                    tgt = d["pl"]["l"] if d is not None and d.get("k") == "ref" else None
                    if tgt is not None and src is not None and tgt == src and cfg.dominates(i, bi) and not _loop_between(cfg, i, bi):
                        ok = True
                fn = fpath.rsplit("::", 1)[-1]
                r.inst("%s: `*next = pos` is dominated by `pos.increment(..)` outside the element loop" % fn, short_loc(s["loc"]), "ok" if ok else "report")
                if not ok:
                    r.report("PAN-5|%s|#%d" % (fpath, k), short_loc(s["loc"]), fpath,
                             "the cursor written back to the scan loop is not advanced on every path (no SegPos::increment on it dominates the store): "
                             "a match that changes nothing is found again at the same position and the scan never ends")
                k += 1
    if n < 2:
        raise AnchorMissing("expected two `*next = pos` stores (deletion, substitution), found %d" % n)
    return r


def _deref_root(b, l, depth=0):
    if depth > 8:
        return l
    if 1 <= l <= b.mir["arg_count"]:
        return l
    d = _single_def(b, l)
    if d is None:
        return l
    if d.get("k") == "ref":
        return _deref_root(b, d["pl"]["l"], depth + 1)
    if d.get("k") == "use" and d["op"].get("k") in ("copy", "move"):
        return _deref_root(b, d["op"]["pl"]["l"], depth + 1)
    return l


def _loop_between(cfg, a, b_):
    """is `a` inside a loop that does not contain b_ (i.e. a runs per element, b_ after the loop)"""
    for h, body in cfg.loops_containing(a):
        if b_ not in body:
            return True
    return False


# ====================================================================== PAN-6


def _all_pats(node):
    out = []

    def rec(x):
        if isinstance(x, dict):
            if "p" in x:
                out.append(x)
            for v in x.values():
                rec(v)
        elif isinstance(x, list):
            for v in x:
                rec(v)
    rec(node)
    return out


CHAR_CLASSES = {
    "is_ascii_uppercase": [chr(c) for c in range(ord("A"), ord("Z") + 1)],
    "is_ascii_lowercase": [chr(c) for c in range(ord("a"), ord("z") + 1)],
    "is_ascii_digit": [chr(c) for c in range(ord("0"), ord("9") + 1)],
}


def modifier_alphabet(lex_body, min_line=None, max_line=None):
    """characters the lexer's get_feature accepts as the modifier of a feature: char literals compared with the
    current character, char ranges in `matches!`, ascii classes -- restricted to the part before the feature name loop"""
    singles, classes = set(), set()
    root = lex_body.hir["body"]
    # only the gate (first statement: the early `return Ok(None)`) and the `-X` prefix test decide the modifier
    for p in _all_pats(root):
        if p["p"] == "range" and p.get("lo", {}).get("lk") == "char" and p.get("hi", {}).get("lk") == "char":
            lo, hi = ord(p["lo"]["lit"]), ord(p["hi"]["lit"])
            if p.get("end") != "Included":
                hi -= 1
            if hi - lo > 512:
                raise AnchorMissing("modifier range too wide to enumerate")
            for c in range(lo, hi + 1):
                classes.add(chr(c))
    for n in hirq.walk(root):
        if n["e"] == "mcall" and n["name"] in CHAR_CLASSES:
            classes.update(CHAR_CLASSES[n["name"]])
        if n["e"] == "binary" and n["op"] in ("Ne", "Eq"):
            for side in (n["l"], n["r"]) if "l" in n else (n.get("a"), n.get("b")):
                s0 = hirq.strip(side) if side else {}
                if s0.get("e") == "lit" and s0.get("lk") == "char":
                    singles.add(s0["lit"])
    return singles, classes


def pan6(ctx):
    r = RuleResult("PAN-6", "every feature modifier the lexer can put into a Feature token has an arm in the parser's curr_token_to_modifier (whose default arm is unreachable!())", floor=2)
    lib = ctx.lib
    pairs = [("rule grammar", "asca::lexer::Lexer::get_feature", "asca::parser::Parser::curr_token_to_modifier"),
             ("alias grammar", "asca::alias::lexer::AliasLexer::get_feature", "asca::alias::parser::AliasParser::curr_token_to_modifier")]
    for gname, lp, pp in pairs:
        lb, pb = ctx.fn(lib, lp), ctx.fn(lib, pp)
        singles, classes = modifier_alphabet(lb)
        if not ({"+", "-"} <= singles):
            raise AnchorMissing("%s: '+'/'-' comparisons not found in the lexer gate" % lp)
        # the parser's match over the token value: arms with string-literal patterns
        target = None
        for n in hirq.walk(pb.hir["body"]):
            if n["e"] == "match" and any(p["p"] == "lit" and p.get("lk") == "str" for a in n["arms"] for p in _all_pats(a["pat"])):
                target = n
                break
        if target is None:
            raise AnchorMissing("%s: match over the modifier string not found" % pp)
        listed = {p["lit"] for a in target["arms"] for p in _all_pats(a["pat"]) if p["p"] == "lit" and p.get("lk") == "str"}
        default_panics = False
        for a in target["arms"]:
            if a["pat"].get("p") == "wild" and not a.get("guard") and hirq.arm_is_pure_panic(a["body"]):
                default_panics = True
        # values the lexer can emit: the modifier character itself, or '-' followed by a class character
        # (digits belong to the tone path, which the guarded `_ if feature == Tone` arm takes)
        emitted = set(singles) - {"."} | set(classes) | {"-" + c for c in classes}
        emitted = {v for v in emitted if not v.isdigit()}
        missing = sorted(emitted - listed)
        ok = not (default_panics and missing)
        r.inst("%s: lexer emits %d modifier values (%d class characters), parser lists %d, default arm %s" % (
            gname, len(emitted), len(classes), len(listed), "panics" if default_panics else "does not panic"), fn_loc(pb, target["ln"]),
            "ok" if ok else "report")
        if not ok:
            cls = "".join(sorted(c for c in classes))[:12]
            r.report("PAN-6|%s|unlisted-modifiers" % pp, fn_loc(pb, target["ln"]), pb.path,
                     "%s: the lexer (%s) accepts %d modifier values that no arm lists, e.g. %s; they reach the `_ => unreachable!()` arm: a feature written with such a modifier panics instead of returning a syntax error"
                     % (gname, lp.rsplit("::", 2)[-2] + "::get_feature", len(missing), ", ".join(repr(m) for m in missing[:4])),
                     missing=missing[:60])
    return r


# ====================================================================== PAN-7


STR_TYS = ("str", "&str", "&mut str", "alloc::string::String", "&alloc::string::String", "&mut alloc::string::String")
SAFE_OFFSET_METHODS = ("find", "rfind", "len", "char_indices", "match_indices", "rmatch_indices", "floor_char_boundary", "ceil_char_boundary")


def str_slices(body):
    """(index node, [bound exprs]) for every range-slice of a str/String in the function"""
    out = []
    for n in hirq.walk(body.hir["body"]):
        if n["e"] != "index" or (n.get("of_ty") or "") not in STR_TYS:
            continue
        i = hirq.strip(n["i"])
        bounds = []
        if i.get("e") == "struct" and "ops::range::Range" in (i.get("path") or ""):
            bounds = [v for _, v in i["fields"]]
        elif i.get("e") == "call" and "ops::range::Range" in (hirq.strip(i["f"]).get("path") or ""):
            bounds = list(i["args"])
        elif i.get("e") == "path" and "RangeFull" in (i.get("path") or ""):
            continue
        else:
            bounds = [i]
        out.append((n, bounds))
    return out


def _offset_safe(e, base_name, lets, depth=0):
    """the offset is a byte offset of the sliced string itself: literal 0, s.len(), s.find(..) and friends (through
    unwrap_or / map / min / max / single lets / + literal width is NOT accepted)"""
    from engine_err import expr_name
    e = hirq.strip(e)
    if depth > 8:
        return False
    if e.get("e") == "lit":
        return e.get("lit") == 0
    if e.get("e") == "path" and "local" in e and e["local"] in lets:
        return _offset_safe(lets[e["local"]], base_name, lets, depth + 1)
    if e.get("e") == "mcall":
        if e["name"] in SAFE_OFFSET_METHODS:
            return expr_name(e["recv"]) == base_name or (expr_name(e["recv"])[0] == "local" and expr_name(e["recv"])[1] in lets
                                                         and expr_name(lets[expr_name(e["recv"])[1]]) == base_name)
        if e["name"] in ("unwrap", "expect", "unwrap_or", "unwrap_or_default", "min", "max", "unwrap_or_else"):
            return _offset_safe(e["recv"], base_name, lets, depth + 1) and all(_offset_safe(a, base_name, lets, depth + 1) for a in e["args"] if hirq.strip(a).get("e") != "closure")
    if e.get("e") in ("match", "if", "block"):
        return False
    return False


def pan7(ctx, unit=None, only=None):
    r = RuleResult("PAN-7", "no str/String is range-sliced by an offset that is not a byte offset of that same string (a character column slices inside a multi-byte IPA letter and panics)", floor=0)
    from engine_err import expr_name, single_lets
    units = [unit] if unit else [ctx.lib]
    n_fn = 0
    for u in units:
        for b in u.bodies:
            if not b.hir or b.in_test_mod() or b.kind == "closure":
                continue
            if only and not any(s in b.path for s in only):
                continue
            n_fn += 1
            sl = str_slices(b)
            if not sl:
                continue
            lets = single_lets(b.hir["body"])
            for k, (n, bounds) in enumerate(sl):
                base = expr_name(n["a"])
                if base[0] == "local" and base[1] in lets and expr_name(lets[base[1]])[0] in ("local", "field"):
                    pass
                bad = [bd for bd in bounds if not _offset_safe(bd, base, lets)]
                r.inst("%s: slice of `%s` by %s" % (b.path, base[-1], "its own byte offsets" if not bad else "a foreign offset"), fn_loc(b, n["ln"]), "ok" if not bad else "report")
                if bad:
                    r.report("PAN-7|%s|#%d" % (b.path, k), fn_loc(b, n["ln"]), b.path,
                             "`%s[..]` is sliced at an offset that is not derived from that string's own byte positions (len/find/char_indices): with IPA text a character column falls inside a multi-byte letter and the slice panics" % base[-1])
    r.analysed = {"functions_scanned": n_fn}
    r.nontrivial = n_fn
    if n_fn < 250 and not only and not unit:
        raise AnchorMissing("PAN-7 scanned only %d functions" % n_fn)
    r.inst("%d functions of the library scanned for str range-slices" % n_fn, None)
    return r


# ====================================================================== PAN-8


def _copy_root(b, l, depth=0):
    """follow `_x = copy/move _y` chains back to a user local / parameter"""
    if depth > 6:
        return l
    d = None
    n = 0
    for blk in b.blocks:
        for s in blk["s"]:
            if s["k"] == "assign" and s["lhs"]["l"] == l and not s["lhs"]["p"]:
                d = s["rv"]
                n += 1
    if n == 1 and d.get("k") == "use" and d["op"].get("k") in ("copy", "move") and not d["op"]["pl"]["p"]:
        return _copy_root(b, d["op"]["pl"]["l"], depth + 1)
    return l


def _index_requirements(lib):
    """function path -> set of parameter positions (1-based MIR locals) that are used as a container index without any
    comparison of that parameter in the function (the caller must pass an in-bounds value)"""
    req = {}
    bodies = [b for b in lib.bodies if not b.in_test_mod() and b.kind in ("fn", "assoc_fn")]
    compared = {}
    for b in bodies:
        cmpd = set()
        for blk in b.blocks:
            for s in blk["s"]:
                if s["k"] == "assign" and s["rv"].get("k") == "binop" and s["rv"]["op"] in ("Lt", "Le", "Gt", "Ge", "Eq", "Ne"):
                    for o in (s["rv"]["a"], s["rv"]["b"]):
                        if o.get("k") in ("copy", "move") and not o["pl"]["p"]:
                            cmpd.add(_copy_root(b, o["pl"]["l"]))
        compared[b.path] = cmpd
    nparams = {b.path: len(b.param_tys) for b in bodies}
    changed = True
    rounds = 0
    while changed and rounds < 6:
        changed = False
        rounds += 1
        for b in bodies:
            for bi, t in b.calls():
                cp = callee_path(t) or ""
                need = []
                if ("ops::index::Index<" in cp and cp.endswith(">::index")) or ("ops::index::IndexMut<" in cp and cp.endswith(">::index_mut")):
                    if len(t["args"]) == 2:
                        need = [1]
                elif cp in req:
                    need = [k - 1 for k in req[cp]]
                for ai in need:
                    if ai >= len(t["args"]):
                        continue
                    a = t["args"][ai]
                    if a.get("k") not in ("copy", "move") or a["pl"]["p"]:
                        continue
                    root = _copy_root(b, a["pl"]["l"])
                    if 1 <= root <= nparams[b.path] and b.local_ty(root) == "usize" and root not in compared[b.path]:
                        if root not in req.setdefault(b.path, set()):
                            req[b.path].add(root)
                            changed = True
    return req, compared


def pan8(ctx):
    r = RuleResult("PAN-8", "a cursor that is advanced in a loop is compared with a length before it is handed to a function that indexes with it unchecked", floor=2)
    lib = ctx.lib
    req, compared = _index_requirements(lib)
    r.analysed = {"functions_requiring_in_bounds_argument": {k: sorted(v) for k, v in sorted(req.items())}}
    n = 0
    for b in lib.bodies:
        if b.in_test_mod() or b.kind not in ("fn", "assoc_fn"):
            continue
        cfg = None
        per_fn = {}
        for bi, t in b.calls():
            cp = callee_path(t) or ""
            if cp not in req:
                continue
            for k in sorted(req[cp]):
                if k - 1 >= len(t["args"]):
                    continue
                a = t["args"][k - 1]
                if a.get("k") not in ("copy", "move") or a["pl"]["p"]:
                    continue
                v = _copy_root(b, a["pl"]["l"])
                if 1 <= v <= len(b.param_tys):
                    continue        # the requirement moves up to this function's callers (already propagated)
                # assignments that advance the cursor
                adv = []
                for ai, blk in enumerate(b.blocks):
                    for s in blk["s"]:
                        if s["k"] == "assign" and s["lhs"]["l"] == v and not s["lhs"]["p"] and s["rv"].get("k") == "binop" and s["rv"]["op"] in ("Add", "AddWithOverflow", "Sub", "SubWithOverflow"):
                            adv.append(ai)
                        if s["k"] == "assign" and s["lhs"]["l"] == v and not s["lhs"]["p"] and s["rv"].get("k") == "use" and s["rv"]["op"].get("k") in ("copy", "move") and s["rv"]["op"]["pl"]["p"]:
                            # `j = move (_t.0)` after a checked add of j
                            tl = s["rv"]["op"]["pl"]["l"]
                            for blk2 in b.blocks:
                                for s2 in blk2["s"]:
                                    if s2["k"] == "assign" and s2["lhs"]["l"] == tl and not s2["lhs"]["p"] and s2["rv"].get("k") == "binop" and s2["rv"]["op"] in ("AddWithOverflow", "SubWithOverflow") \
                                            and any(o.get("k") in ("copy", "move") and not o["pl"]["p"] and _copy_root(b, o["pl"]["l"]) == v for o in (s2["rv"]["a"], s2["rv"]["b"])):
                                        adv.append(ai)
                if not adv:
                    continue
                cfg = cfg or b.cfg
                if not cfg.loops_containing(bi):
                    continue
                guards = set()
                for gi, blk in enumerate(b.blocks):
                    for s in blk["s"]:
                        if s["k"] == "assign" and s["rv"].get("k") == "binop" and s["rv"]["op"] in ("Lt", "Le", "Gt", "Ge"):
                            for o in (s["rv"]["a"], s["rv"]["b"]):
                                if o.get("k") in ("copy", "move") and not o["pl"]["p"] and _copy_root(b, o["pl"]["l"]) == v:
                                    guards.add(gi)
                bad = [ai for ai in adv if ai != bi and bi in cfg.reachable_from(ai, avoid=guards) and ai not in guards]
                n += 1
                nm = b.local_name(v) or ("_%d" % v)
                idx = per_fn.get(cp, 0)
                per_fn[cp] = idx + 1
                r.inst("%s: `%s` is compared with a length between every advance and the call of %s" % (b.path.rsplit("::", 1)[-1], nm, cp.rsplit("::", 1)[-1]),
                       ":".join(t["loc"].split(":")[:2]), "ok" if not bad else "report")
                if bad:
                    r.report("PAN-8|%s|%s|%s#%d" % (b.path, nm, cp.rsplit("::", 1)[-1], idx), ":".join(t["loc"].split(":")[:2]), b.path,
                             "the cursor `%s` is advanced (e.g. at line %s) and then passed to %s, which indexes with it unchecked, without an intervening comparison with a length: one past the end panics"
                             % (nm, ([x["loc"] for x in b.blocks[bad[0]]["s"] if x.get("loc")] + [b.blocks[bad[0]]["t"].get("loc") or "?:?"])[-2 if len([x for x in b.blocks[bad[0]]["s"] if x.get("loc")]) else -1].split(":")[1], cp.rsplit("::", 1)[-1]))
    r.nontrivial = n
    return r


# ====================================================================== PAN-9 progress of the insertion loop


def pan9(ctx):
    """Every output element processed by SubRule::insert either edits the word or advances the cursor. An element that does
    neither leaves (word, cursor) unchanged, and the insertion loop of `transform` finds the same insertion point again: it
    never terminates."""
    r = RuleResult("PAN-9", "SubRule::insert: every path through the loop over the output elements edits the word or advances the cursor (otherwise the insertion loop re-finds the same point forever)", floor=1)
    lib = ctx.lib
    b = ctx.fn(lib, "asca::subrule::SubRule::insert")
    cfg = b.cfg
    # the loop over the output states: header = the block calling Iterator::next on slice::Iter<Item>
    heads = [h for h, bl in cfg.loops if b.blocks[h]["t"]["k"] == "call" and "slice::iter::Iter<'_, asca::parser::Item>" in (b.blocks[h]["t"]["callee"].get("inst") or "")
             and (callee_path(b.blocks[h]["t"]) or "").endswith("Iterator>::next")]
    if len(heads) != 1:
        raise AnchorMissing("SubRule::insert: loop over the output elements not found (%d candidates)" % len(heads))
    h = heads[0]
    body = dict(cfg.loops)[h]
    PROGRESS = ("VecDeque::insert", "VecDeque::push_back", "VecDeque::push_front", "Vec::insert", "Vec::push", "SegPos::increment",
                "Syllable::insert_segment", "Word::apply_seg_mods", "Syllable::apply_syll_mods")
    prog = set()
    for bi, t in b.calls():
        cp = callee_path(t) or ""
        if bi in body and cp.endswith(PROGRESS):
            prog.add(bi)
    # direct cursor arithmetic: `pos.syll_index += n` / `pos.seg_index += n` on the cursor local
    for bi in body:
        for s in b.blocks[bi]["s"]:
            if s["k"] == "assign" and s["lhs"]["p"] and any(isinstance(p, dict) and p.get("n") in ("syll_index", "seg_index") for p in s["lhs"]["p"]) \
                    and (b.local_name(s["lhs"]["l"]) or "") == "pos":
                prog.add(bi)
    # first block of an iteration: the `Some` successor of the discriminant switch after next()
    nxt = b.blocks[h]["t"].get("t")
    sw = b.blocks[nxt]["t"] if nxt is not None else {}
    some = dict((v, tg) for v, tg in sw.get("vals", [])).get(1) if sw.get("k") == "switch" else None
    if some is None:
        some = sw.get("otherwise")
    if some is None:
        raise AnchorMissing("SubRule::insert: `Some(state)` edge of the output loop not found")
    err_exits = {i for i, t in b.calls() if "from_residual" in (callee_path(t) or "")}
    # blocks of an iteration reachable without passing a progress site
    reach = cfg.reachable_from(some, avoid=prog | err_exits)
    spins = h in reach and some not in prog
    # which statement sends the iteration back without progress: report the `continue`-like edge closest to the header
    loc = None
    if spins:
        # walk back from the loop header through non-progress blocks to the first block that carries a source line of this file
        seen, st = set(), [x for x in reach if h in cfg.succ[x]]
        cands = []
        while st:
            x = st.pop()
            if x in seen:
                continue
            seen.add(x)
            blk = b.blocks[x]
            locs = [l for l in ([s_.get("loc") for s_ in blk["s"]] + [blk["t"].get("loc")]) if l and l.startswith(b.file)]
            if locs and not blk["t"].get("exp"):
                cands.append(locs[-1])
                continue
            st.extend(p for p in cfg.pred[x] if p in reach)
        if cands:
            loc = sorted(cands, key=lambda l: int(l.split(":")[1]))[0]
    r.inst("every iteration over an output element passes an edit of the word or an advance of the cursor (%d progress sites)" % len(prog),
           ":".join((loc or b.loc).split(":")[:2]), "ok" if not spins else "report")
    if spins:
        r.report("PAN-9|insert|no-progress-iteration", ":".join((loc or b.loc).split(":")[:2]), b.path,
                 "an output element can be processed without editing the word or advancing the cursor (e.g. the `continue` for `$` at a syllable start): the insertion loop then finds the same insertion point again and never returns")
    return r


# ---------------------------------------------------------------- PAN-10: no empty term in a term list

TERM = "alloc::vec::Vec<asca::parser::Item>"


def _def_of(b, l, upto_block):
    """unique assignment / call defining local l (searching all non-cleanup blocks)"""
    out = []
    for bi, bl in enumerate(b.blocks):
        if bl.get("cleanup"):
            continue
        for s in bl["s"]:
            if s["k"] == "assign" and s["lhs"]["l"] == l and not s["lhs"]["p"]:
                out.append(("assign", bi, s))
        t = bl["t"]
        if t["k"] == "call" and t.get("dest") and t["dest"]["l"] == l and not t["dest"]["p"]:
            out.append(("call", bi, t))
    return out


def _root_local(b, l, depth=0):
    """follow `_a = move _b` / `_a = &_b` chains to a named user local"""
    if b.local_name(l):
        return l
    if depth > 6:
        return None
    ds = _def_of(b, l, None)
    if len(ds) != 1 or ds[0][0] != "assign":
        return None
    rv = ds[0][2]["rv"]
    if rv["k"] == "use" and rv["op"].get("k") in ("move", "copy") and not rv["op"]["pl"]["p"]:
        return _root_local(b, rv["op"]["pl"]["l"], depth + 1)
    if rv["k"] == "ref" and not rv["pl"]["p"]:
        return _root_local(b, rv["pl"]["l"], depth + 1)
    return None


def pan10(ctx):
    """The interpreter (Rule::split_into_subrules, SubRule) reads `term[0]` / `.first().expect()` of every input and output
    term. A term list must therefore never contain an empty term: every push onto a Vec<Vec<Item>> is either a non-empty
    `vec![..]` literal or a local that is not pushed on any path on which its own `is_empty()` test has answered true."""
    r = RuleResult("PAN-10", "no empty term enters an input / output term list: each push onto a Vec<Vec<Item>> pushes a non-empty `vec![..]` literal, or a term that cannot reach the push once its `is_empty()` test has answered true (the interpreter indexes `term[0]`)", floor=5)
    lib = ctx.lib
    n = 0
    for b in lib.bodies:
        if b.in_test_mod() or not b.blocks:
            continue
        pushes = [(i, t) for i, t in b.calls() if (callee_path(t) or "") in ("alloc::vec::Vec::push", "alloc::vec::Vec::insert")
                  and (t["callee"].get("gargs") or [""])[0] == TERM]
        if not pushes:
            continue
        cfg = b.cfg
        for k, (pi, pt) in enumerate(pushes):
            n += 1
            arg = pt["args"][-1]
            loc = ":".join(pt["loc"].split(":")[:2])
            L = _root_local(b, arg["pl"]["l"]) if arg.get("k") in ("move", "copy") and not arg["pl"]["p"] else None
            if L is None:
                # a literal: the pushed temporary is the result of the vec![..] expansion over a non-empty array
                ds = _def_of(b, arg["pl"]["l"], None) if arg.get("k") in ("move", "copy") else []
                lit = len(ds) == 1 and ds[0][0] == "call" and ds[0][2].get("exp") and "into_vec" in (callee_path(ds[0][2]) or "")
                nelem = None
                if lit:
                    m = re.search(r"\[asca::parser::Item; (\d+)\]|<asca::parser::Item, (\d+)>", json_inst(ds[0][2]))
                    nelem = int(m.group(1) or m.group(2)) if m else None
                ok = bool(lit and nelem and nelem >= 1)
                r.inst("%s: push #%d pushes a `vec![..]` literal of %s element(s)" % (b.path, k, nelem if nelem is not None else "unknown"), loc, "ok" if ok else "report")
                if not ok:
                    r.report("PAN-10|%s|push#%d|unrecognised" % (b.path, k), loc, b.path,
                             "a term is pushed onto a term list and it is neither a non-empty `vec![..]` literal nor a local whose emptiness test can be followed: an empty term makes the interpreter's `term[0]` panic")
                continue
            name = b.local_name(L)
            # is_empty tests of L: call block -> switch block -> true successor
            tests = {}
            for i, t in b.calls():
                if (callee_path(t) or "").endswith("Vec::is_empty") and t["args"] and t["args"][0].get("k") in ("move", "copy"):
                    if _root_local(b, t["args"][0]["pl"]["l"]) == L and t.get("t") is not None:
                        sw = b.blocks[t["t"]]["t"]
                        if sw["k"] == "switch" and sw["op"]["pl"]["l"] == t["dest"]["l"]:
                            vals = dict((v, tg) for v, tg in sw["vals"])
                            true_succ = vals.get(1, sw.get("otherwise") if 0 in vals else None)
                            if true_succ is not None:
                                tests[t["t"]] = true_succ
            # blocks that give L a new value end the walk (a new iteration's term)
            kills = set()
            for bi, bl in enumerate(b.blocks):
                t = bl["t"]
                if t["k"] == "call" and t.get("dest") and t["dest"]["l"] == L and not t["dest"]["p"]:
                    kills.add(bi)
                for s in bl["s"]:
                    if s["k"] == "assign" and s["lhs"]["l"] == L and not s["lhs"]["p"]:
                        kills.add(bi)
            bad = None
            for sw_blk, start in sorted(tests.items()):
                seen, st = {start}, [start]
                while st and bad is None:
                    x = st.pop()
                    if x == pi:
                        bad = sw_blk
                        break
                    if x in kills:
                        continue
                    nxt = [tests[x]] if x in tests else cfg.succ[x]
                    for s2 in nxt:
                        if s2 not in seen:
                            seen.add(s2)
                            st.append(s2)
                if bad is not None:
                    break
            if not tests:
                r.inst("%s: push #%d pushes `%s`, which is never tested for emptiness" % (b.path, k, name), loc, "report")
                r.report("PAN-10|%s|%s|untested" % (b.path, name), loc, b.path,
                         "`%s` is pushed onto a term list without any `is_empty()` test: an empty term makes the interpreter's `term[0]` panic" % name)
                continue
            r.inst("%s: push #%d pushes `%s` only where its is_empty() test (%d sites) answered false" % (b.path, k, name, len(tests)), loc, "ok" if bad is None else "report")
            if bad is not None:
                tl = b.blocks[bad]["t"].get("loc") or b.loc
                r.report("PAN-10|%s|%s|empty-reaches-push" % (b.path, name), loc, b.path,
                         "`%s` can reach this push on a path where `%s.is_empty()` (%s) answered true: an empty term enters the list (e.g. two commas in a row) and the interpreter's `term[0]` panics"
                         % (name, name, ":".join(tl.split(":")[:2])))
    r.analysed = {"push_sites": n}
    return r


def json_inst(t):
    c = t.get("callee") or {}
    return (c.get("inst") or "") + " " + " ".join(c.get("gargs") or [])


# ---------------------------------------------------------------- PAN-11: no unbounded narrow-width multiplication

NARROW = ("u8", "u16", "i8", "i16")
PAN11_BOUNDED = {
    ("asca::subrule::SubRule::concat_tone::{closure#1}", "Mul", "u16"):
        "fold `acc * 10 + digit` over at most four decimal digits (FLW-6 decides that the melded digit vector has <= 4 entries): <= 9999",
}


def _operand_ty(b, a):
    if a.get("ty"):
        return a["ty"]
    pl = a.get("pl")
    if not pl:
        return None
    if not pl["p"]:
        return b.local_ty(pl["l"])
    last = pl["p"][-1]
    return last.get("ty") if isinstance(last, dict) else None


def pan11(ctx):
    """Tones are u16 (<= 65535) and may have four digits each; joining two of them, scaling by powers of ten etc. does not
    fit. Every multiplication / exponentiation at an 8- or 16-bit width in the library is listed with the bound that makes
    it safe; a new one is an overflow panic (debug) or a silently wrapped tone (release) waiting for a large enough tone."""
    r = RuleResult("PAN-11", "every multiplication / pow at an 8- or 16-bit width in the library is on operands with a recorded bound (tone arithmetic is done at u64 before it is cut back to four digits)", floor=1)
    lib = ctx.lib
    n = 0
    for b in lib.bodies:
        if b.in_test_mod() or not b.blocks or b.exp:
            continue
        sites = []
        for bl in b.blocks:
            if bl.get("cleanup"):
                continue
            for s in bl["s"]:
                if s["k"] == "assign" and s["rv"].get("k") == "binop" and s["rv"]["op"] in ("MulWithOverflow", "Mul", "MulUnchecked") and not s.get("exp"):
                    ty = _operand_ty(b, s["rv"]["a"]) or _operand_ty(b, s["rv"]["b"])
                    if ty in NARROW:
                        sites.append(("Mul", ty, s.get("loc")))
            t = bl["t"]
            if t["k"] == "call" and not t.get("exp"):
                m = re.match(r"core::num::<impl (\w+)>::(pow|checked_pow|wrapping_pow|saturating_pow)$", callee_path(t) or "")
                if m and m.group(1) in NARROW and m.group(2) == "pow":
                    sites.append(("pow", m.group(1), t.get("loc")))
        for op, ty, loc in sites:
            n += 1
            why = PAN11_BOUNDED.get((b.path, op, ty))
            l2 = ":".join((loc or b.loc).split(":")[:2])
            r.inst("%s: %s at %s — %s" % (b.path, op, ty, why or "no recorded bound"), l2, "ok" if why else "report")
            if why:
                r.exceptions.append("PAN-11 %s %s %s: %s" % (b.path, op, ty, why))
            else:
                r.report("PAN-11|%s|%s|%s" % (b.path, op, ty), l2, b.path,
                         "%s at %s on values that are not known to be small: two four-digit tones joined (`51` ++ `3142`, up to 8 digits) exceed %s -- the call panics with 'attempt to multiply with overflow' (debug) or wraps to a wrong tone (release)"
                         % ("a multiplication" if op == "Mul" else "an exponentiation", ty, ty))
    r.analysed = {"narrow_mul_pow_sites": n}
    if n == 0:
        raise AnchorMissing("PAN-11: the digit fold of concat_tone (the one bounded u16 multiplication) was not found")
    return r
