"""TAB engine — table agreement rules (TAB-1..3 here; TAB-4..7 in engine_tab2).

TAB-1  enum index tables (from_usize / count / sibling enums / array lengths / data file keys)
TAB-2  feature -> (node, mask) laws
TAB-3  Place layout constants and accessor constant usage, node dispatch tables
"""
import json
import os
import re

import hirq
from core import AnchorMissing, RuleResult, fn_loc


def tail_value(e):
    """Value expression of a block, skipping leading statements (debug asserts)."""
    while isinstance(e, dict) and e.get("e") == "block":
        if e.get("tail") is None:
            return None
        e = e["tail"]
    return e


def top_match(body, on_local=None):
    """The match expression that forms the value of a function body."""
    if not body.hir:
        raise AnchorMissing("no HIR for " + body.path)
    v = tail_value(body.hir["body"])
    if not isinstance(v, dict) or v.get("e") != "match":
        # search first match on the given local
        for m in hirq.matches(body):
            s = hirq.strip(m["scrut"])
            if on_local is None or s.get("local") == on_local or (
                    s.get("e") == "unary" and hirq.strip(s["a"]).get("local") == on_local):
                return m
        raise AnchorMissing("no table match in " + body.path)
    return v


def variants(adt):
    return [v["name"] for v in adt["variants"]]


def variant_of(path):
    return path.rsplit("::", 1)[-1]


# ------------------------------------------------------------------ TAB-1


def _from_usize_table(body):
    """int literal -> variant path, plus whether the catch-all arm only panics."""
    m = top_match(body, "value")
    tbl = {}
    wild_panics = None
    dup = []
    for arm in m["arms"]:
        v = tail_value(arm["body"])
        for p in hirq.flat_pats(arm["pat"]):
            if p.get("p") == "lit" and p.get("lk") == "int":
                if p["lit"] in tbl:
                    dup.append(p["lit"])
                if isinstance(v, dict) and v.get("e") == "path" and v.get("path"):
                    tbl[p["lit"]] = v["path"]
                else:
                    tbl[p["lit"]] = None
            elif p.get("p") in ("wild", "bind"):
                wild_panics = hirq.arm_is_pure_panic(arm["body"]) or hirq.is_panic_expr(arm["body"]) is not None
    return tbl, wild_panics, dup, m


def _const_fn_int(body):
    v = tail_value(body.hir["body"]) if body.hir else None
    if isinstance(v, dict) and v.get("e") == "lit" and v.get("lk") == "int":
        return v["lit"]
    return None


def tab1(ctx):
    r = RuleResult("TAB-1", "enum index tables agree (from_usize, count, sibling enums, array lengths, data keys)", floor=56)
    lib = ctx.lib
    enums = [("asca::lexer::FType", "asca::lexer::FType::from_usize", "asca::lexer::FType::count"),
             ("asca::lexer::NodeType", "asca::lexer::NodeType::from_usize", "asca::lexer::NodeType::count"),
             ("asca::seg::NodeKind", "asca::seg::NodeKind::from_usize", "asca::seg::NodeKind::count")]
    counts = {}
    for epath, fpath, cpath in enums:
        adt = ctx.adt(lib, epath)
        vs = variants(adt)
        fb = ctx.fn(lib, fpath)
        cb = ctx.fn(lib, cpath)
        tbl, wild_panics, dup, m = _from_usize_table(fb)
        n = _const_fn_int(cb)
        counts[epath] = len(vs)
        # count()
        ok = (n == len(vs))
        r.inst("%s::count() == number of variants (%d)" % (epath, len(vs)), fn_loc(cb), "ok" if ok else "report")
        if not ok:
            r.report("TAB-1|%s|count" % epath, fn_loc(cb), cpath,
                     "count() returns %r but the enum has %d variants" % (n, len(vs)))
        # from_usize rows
        for i, v in enumerate(vs):
            got = tbl.get(i)
            want = "%s::%s" % (epath, v)
            ok = got == want
            r.inst("%s(%d) == %s" % (fpath, i, v), fn_loc(fb, m["ln"]), "ok" if ok else "report")
            if not ok:
                r.report("TAB-1|%s|row|%s" % (fpath, v), fn_loc(fb, m["ln"]), fpath,
                         "from_usize(%d) yields %s, but variant #%d of the enum is %s" % (i, got, i, v))
        extra = sorted(k for k in tbl if not (0 <= k < len(vs)))
        if extra:
            r.report("TAB-1|%s|extra" % fpath, fn_loc(fb, m["ln"]), fpath,
                     "from_usize has rows %s beyond the enum's %d variants" % (extra, len(vs)))
        if dup:
            r.report("TAB-1|%s|dup" % fpath, fn_loc(fb, m["ln"]), fpath, "duplicate rows %s" % dup)
    # sibling enums NodeKind / NodeType
    nk = variants(ctx.adt(lib, "asca::seg::NodeKind"))
    nt = variants(ctx.adt(lib, "asca::lexer::NodeType"))
    ok = nk == nt
    r.inst("NodeKind and NodeType list the same variants in the same order", lib.adts["asca::seg::NodeKind"]["loc"],
           "ok" if ok else "report")
    if not ok:
        r.report("TAB-1|NodeKind~NodeType", lib.adts["asca::seg::NodeKind"]["loc"], "asca::seg::NodeKind",
                 "NodeKind %s and NodeType %s are used interchangeably as indices but differ" % (nk, nt))
    # DiaFeatType == NodeType ++ FType
    dia = [p for p in lib.adts if p.endswith("::DiaFeatType")]
    if len(dia) != 1:
        raise AnchorMissing("DiaFeatType (deserialisation enum of diacritics.json) not found")
    dv = variants(lib.adts[dia[0]])
    ft = variants(ctx.adt(lib, "asca::lexer::FType"))
    ok = dv == nt + ft
    r.inst("DiaFeatType == NodeType ++ FType (order)", lib.adts[dia[0]]["loc"], "ok" if ok else "report")
    if not ok:
        r.report("TAB-1|DiaFeatType", lib.adts[dia[0]]["loc"], dia[0],
                 "DiaFeatType must list NodeType's variants then FType's, in order; got %s" % dv)
    # split constant in hm_to_mod
    hm = [b for b in lib.bodies if b.path.endswith("::hm_to_mod")]
    if len(hm) != 1:
        raise AnchorMissing("hm_to_mod not found")
    hm = hm[0]
    n_nodes = len(nt)
    cmp_ok, n_cmp = True, 0
    for n in hirq.walk(hm.hir["body"]):
        if n["e"] == "binary":
            b_ = hirq.strip(n["b"])
            if b_.get("e") == "lit" and b_.get("lk") == "int":
                op, lit = n["op"], b_["lit"]
                n_cmp += 1
                good = (op, lit) in (("Gt", n_nodes - 1), ("Ge", n_nodes), ("Lt", n_nodes), ("Le", n_nodes - 1),
                                     ("Sub", n_nodes))
                r.inst("hm_to_mod split constant `%s %d` vs NodeType::count()=%d" % (op, lit, n_nodes),
                       fn_loc(hm, n["ln"]), "ok" if good else "report")
                if not good:
                    cmp_ok = False
                    r.report("TAB-1|hm_to_mod|%s" % op, fn_loc(hm, n["ln"]), hm.path,
                             "split constant `%s %d` does not correspond to NodeType::count() = %d" % (op, lit, n_nodes))
    if n_cmp == 0:
        raise AnchorMissing("hm_to_mod: no split comparison found")
    # array lengths of Option<ModKind> arrays
    arr_re = re.compile(r"^\[core::option::Option<asca::parser::ModKind>; (\d+)\]$")
    for ap, a in lib.adts.items():
        for v in a["variants"]:
            for f in v["fields"]:
                m_ = arr_re.match(f["ty"])
                if not m_:
                    continue
                ln = int(m_.group(1))
                want = {"nodes": n_nodes, "feats": len(ft)}.get(f["name"])
                if want is None:
                    continue
                ok = ln == want
                r.inst("%s.%s has length %d" % (ap, f["name"], want), a["loc"], "ok" if ok else "report")
                if not ok:
                    r.report("TAB-1|len|%s.%s" % (ap, f["name"]), a["loc"], ap,
                             "array length %d, expected %d" % (ln, want))
    # diacritics.json keys
    dj = json.loads(ctx.read("src/diacritics.json"))
    names = set()
    for d in dj:
        for k in ("prereqs", "payload"):
            if d.get(k):
                names.update(d[k].keys())
    bad = sorted(n for n in names if n not in dv)
    r.inst("diacritics.json feature keys (%d distinct) are DiaFeatType variants" % len(names), "src/diacritics.json",
           "ok" if not bad else "report")
    if bad:
        r.report("TAB-1|diacritics.json|keys", "src/diacritics.json", "DIACRITS", "unknown feature keys %s" % bad)
    r.analysed = {"enums": 3, "diacritics": len(dj), "dia_keys": len(names)}
    return r


# ------------------------------------------------------------------ TAB-2

NODE_ORDER = ["Root", "Manner", "Laryngeal", "Labial", "Coronal", "Dorsal", "Pharyngeal"]


def node_mask_table(ctx):
    lib = ctx.lib
    b = ctx.fn(lib, "asca::lexer::FType::to_node_mask")
    m = top_match(b, "self")
    tbl = {}
    for arm in m["arms"]:
        v = tail_value(arm["body"])
        for p in hirq.flat_pats(arm["pat"]):
            if p.get("p") != "path":
                continue
            feat = variant_of(p["path"])
            node, mask = None, None
            if isinstance(v, dict) and v.get("e") == "tup" and len(v["items"]) == 2:
                a, c = hirq.strip(v["items"][0]), hirq.strip(v["items"][1])
                if a.get("e") == "path":
                    node = variant_of(a.get("path", ""))
                if c.get("e") == "lit" and c.get("lk") == "int":
                    mask = c["lit"]
            tbl[feat] = (node, mask, arm["ln"])
    return b, tbl


def place_consts(ctx):
    out = {}
    for p, c in ctx.lib.consts.items():
        if p.startswith("asca::place::Place::") and "int" in c:
            out[variant_of(p)] = c["int"]
    return out


def tab2(ctx):
    r = RuleResult("TAB-2", "feature -> (node, mask) table: one bit each, disjoint, contiguous, node-contiguous enum order", floor=26)
    lib = ctx.lib
    b, tbl = node_mask_table(ctx)
    ft = variants(ctx.adt(lib, "asca::lexer::FType"))
    pc = place_consts(ctx)
    per_node = {}
    for f in ft:
        if f not in tbl:
            r.report("TAB-2|missing|%s" % f, fn_loc(b), b.path, "feature %s has no (node, mask) row" % f)
            continue
        node, mask, ln = tbl[f]
        ok = node in NODE_ORDER and isinstance(mask, int) and mask > 0 and (mask & (mask - 1)) == 0 and mask < 256
        r.inst("%s -> (%s, %s): a single bit of a known node" % (f, node, bin(mask) if isinstance(mask, int) else mask),
               fn_loc(b, ln), "ok" if ok else "report")
        if not ok:
            r.report("TAB-2|row|%s" % f, fn_loc(b, ln), b.path,
                     "mask of %s is %r on node %r: not exactly one bit of a feature node" % (f, mask, node))
            continue
        per_node.setdefault(node, []).append((f, mask, ln))
    # disjoint + contiguous per node; width agrees with Place masks
    widths = {}
    for node, rows in per_node.items():
        union = 0
        for f, mask, ln in rows:
            if union & mask:
                other = [g for g, m2, _ in rows if m2 == mask and g != f]
                r.report("TAB-2|dup|%s|%s" % (node, f), fn_loc(b, ln), b.path,
                         "%s shares mask %s with %s on node %s" % (f, bin(mask), other, node))
            union |= mask
        want = (1 << len(rows)) - 1
        ok = union == want
        widths[node] = union
        r.inst("node %s: %d features cover bits %s contiguously" % (node, len(rows), bin(want)), fn_loc(b),
               "ok" if ok else "report")
        if not ok:
            r.report("TAB-2|width|%s" % node, fn_loc(b), b.path,
                     "masks of node %s cover %s, expected the %d low bits %s" % (node, bin(union), len(rows), bin(want)))
    # second copies of the table: any constant array of (NodeKind, u8) pairs with one row per feature must repeat to_node_mask
    for cb in lib.bodies:
        if cb.kind not in ("const", "static", "assoc_const") or cb.in_test_mod() or not cb.hir:
            continue
        arr = hirq.strip(cb.hir["body"])
        if arr.get("e") != "array" or len(arr.get("items", [])) != len(ft):
            continue
        rows = []
        for it in arr["items"]:
            it = hirq.strip(it)
            if it.get("e") == "tup" and len(it["items"]) == 2:
                a0, c0 = hirq.strip(it["items"][0]), hirq.strip(it["items"][1])
                if a0.get("e") == "path" and (a0.get("path") or "").startswith("asca::seg::NodeKind::") and c0.get("e") == "lit" and c0.get("lk") == "int":
                    rows.append((variant_of(a0["path"]), c0["lit"], it.get("ln")))
        if len(rows) != len(ft):
            continue
        for i, f in enumerate(ft):
            want = tbl.get(f, (None, None, None))[:2]
            ok = rows[i][:2] == tuple(want)
            r.inst("%s[%d] (%s) repeats to_node_mask: %s" % (cb.path.rsplit("::", 1)[-1], i, f, rows[i][:2]), fn_loc(cb, rows[i][2]), "ok" if ok else "report", nontrivial=False)
            if not ok:
                r.report("TAB-2|copy|%s|%s" % (cb.path.rsplit("::", 1)[-1], f), fn_loc(cb, rows[i][2]), cb.path,
                         "row %d of the constant table %s gives feature %s the pair %s, but FType::to_node_mask says %s: code reading the table and code calling to_node_mask disagree on that feature"
                         % (i, cb.path.rsplit("::", 1)[-1], f, rows[i][:2], tuple(want)))
    for node, cname in (("Labial", "LAB_MSK"), ("Coronal", "COR_MSK"), ("Dorsal", "DOR_MSK"), ("Pharyngeal", "PHR_MSK")):
        if cname not in pc:
            raise AnchorMissing("Place::%s not found" % cname)
        ok = widths.get(node) == pc[cname]
        r.inst("node %s mask union == Place::%s (%s)" % (node, cname, bin(pc[cname])), fn_loc(b), "ok" if ok else "report")
        if not ok:
            r.report("TAB-2|place-width|%s" % node, fn_loc(b), b.path,
                     "features of %s cover %s but Place::%s is %s" % (node, bin(widths.get(node, 0)), cname, bin(pc[cname])))
    for node, w in (("Root", 0b111), ("Manner", 0xFF), ("Laryngeal", 0b111)):
        # widths documented on `Segment` (three low bits, all eight bits, three low bits) and used by cardinals.json
        ok = widths.get(node) == w
        r.inst("node %s mask union == %s" % (node, bin(w)), fn_loc(b), "ok" if ok else "report")
        if not ok:
            r.report("TAB-2|node-width|%s" % node, fn_loc(b), b.path,
                     "features of %s cover %s, expected %s" % (node, bin(widths.get(node, 0)), bin(w)))
    # node-contiguous enum order
    seq = [tbl[f][0] for f in ft if f in tbl]
    dedup = [x for i, x in enumerate(seq) if i == 0 or seq[i - 1] != x]
    ok = dedup == NODE_ORDER
    r.inst("FType variants are grouped by node in node order", lib.adts["asca::lexer::FType"]["loc"], "ok" if ok else "report")
    if not ok:
        r.report("TAB-2|order", lib.adts["asca::lexer::FType"]["loc"], "asca::lexer::FType",
                 "node sequence along FType is %s, expected %s" % (dedup, NODE_ORDER))
    # cardinals.json segments stay inside the widths
    cj = json.loads(ctx.read("src/cardinals.json"))
    bad = []
    for g, s in cj.items():
        if s["root"] & ~widths.get("Root", 0) or s["manner"] & ~widths.get("Manner", 0) or s["laryngeal"] & ~widths.get("Laryngeal", 0):
            bad.append(g)
    r.inst("cardinals.json: %d segments keep root/manner/laryngeal inside the mask unions" % len(cj), "src/cardinals.json",
           "ok" if not bad else "report")
    if bad:
        r.report("TAB-2|cardinals.json|width", "src/cardinals.json", "CARDINALS_MAP",
                 "segments with bits outside the defined features: %s" % bad[:10])
    r.analysed = {"rows": len(tbl), "nodes": len(per_node), "cardinals": len(cj)}
    return r


# ------------------------------------------------------------------ TAB-3

SUB = [("labial", "LAB", "Labial"), ("coronal", "COR", "Coronal"), ("dorsal", "DOR", "Dorsal"), ("pharyngeal", "PHR", "Pharyngeal")]


def _consts_used(node):
    """Place::* constants and int literals used under `node`."""
    cs, lits = [], []
    for n in hirq.walk(node):
        if n["e"] == "path" and n.get("path", "").startswith("asca::place::Place::") and n.get("rk", "").startswith("AssocConst"):
            cs.append(variant_of(n["path"]))
        elif n["e"] == "lit" and n.get("lk") == "int" and not n.get("exp"):
            lits.append(n["lit"])
    return cs, lits


def place_payload_fields(ctx, pc):
    """In-place payload field of each sub-node, read off the code rather than a constant's name: the bits that
    `set_X(None)` clears besides X_BIT (on the pinned tree: LAB_LOW, COR_LOW, DOR_LOW, PHR_ASD)."""
    out = {}
    for sub, K, node in SUB:
        s = ctx.fn(ctx.lib, "asca::place::Place::set_%s" % sub)
        val = 0
        for m in hirq.matches(s):
            for arm in m["arms"]:
                pk = hirq.pat_key(hirq.flat_pats(arm["pat"])[0])
                if not (pk[0] == "path" and (pk[1] or "").endswith("Option::None")):
                    continue
                for n in hirq.walk(arm["body"]):
                    if n["e"] == "unary" and n["op"] == "Not":
                        c_, l_ = _consts_used(n["a"])
                        for x in c_:
                            if x != K + "_BIT":
                                val |= pc.get(x, 0)
                        for x in l_:
                            val |= x
        if not val:
            raise AnchorMissing("set_%s(None): no payload field is cleared" % sub)
        out[K] = val & ~pc[K + "_BIT"] & 0xFFFF
    return out


def tab3(ctx):
    r = RuleResult("TAB-3", "Place bit layout constants and accessor constant usage; node dispatch tables; absent ≠ zero", floor=63)
    # The accessor *idioms* below (which constant under which operator) were the first version of C18's check. Since the
    # BIT rules decide the accessors' semantics for every value, a different idiom is no longer an alarm: it is recorded as an
    # instance with the verdict "accepted" and the laws are left to BIT-1/2/3.
    def soft(key, loc, fn, msg):
        r.inst("idiom differs — %s" % msg[:160], loc, "accepted:semantics decided by BIT-1/2/3", nontrivial=False)
    lib = ctx.lib
    pc = place_consts(ctx)
    need = ["LAB_BIT", "COR_BIT", "DOR_BIT", "PHR_BIT",
            "LAB_OFF", "COR_OFF", "DOR_OFF", "LAB_MSK", "COR_MSK", "DOR_MSK", "PHR_MSK"]
    for n in need:
        if n not in pc:
            raise AnchorMissing("Place::%s not found / not evaluable" % n)
    ploc = ctx.adt(lib, "asca::place::Place")["loc"]
    low = place_payload_fields(ctx, pc)
    off = {"LAB": pc["LAB_OFF"], "COR": pc["COR_OFF"], "DOR": pc["DOR_OFF"], "PHR": 0}
    msk = {k: pc[k + "_MSK"] for k in ("LAB", "COR", "DOR", "PHR")}
    bit = {k: pc[k + "_BIT"] for k in ("LAB", "COR", "DOR", "PHR")}

    def chk(what, ok, key, msg):
        r.inst(what, ploc, "ok" if ok else "report")
        if not ok:
            r.report("TAB-3a|" + key, ploc, "asca::place::Place", msg)

    for k in bit:
        chk("%s_BIT is a single bit" % k, bit[k] > 0 and bit[k] & (bit[k] - 1) == 0, "bit|" + k,
            "%s_BIT = %#x is not a single bit" % (k, bit[k]))
        chk("%s payload field == %s_MSK << %s_OFF" % (k, k, k), low[k] == (msk[k] << off[k]) & 0xFFFF, "low|" + k,
            "%s low field %#x != %s_MSK %#x << offset %d" % (k, low[k], k, msk[k], off[k]))
        m = msk[k]
        chk("%s_MSK is a contiguous run of low bits" % k, m > 0 and (m & (m + 1)) == 0, "msk|" + k,
            "%s_MSK = %#x is not of the form 2^k-1" % (k, m))
    allm = list(bit.values()) + list(low.values())
    disjoint = True
    u = 0
    for m in allm:
        if u & m:
            disjoint = False
        u |= m
    chk("presence bits and payload fields are pairwise disjoint", disjoint, "disjoint", "Place masks overlap: %s" % [hex(x) for x in allm])
    chk("presence bits and payload fields cover all 16 bits", u == 0xFFFF, "cover", "Place masks cover %#x, not 0xffff" % u)

    # accessors
    for sub, K, node in SUB:
        is_some = ctx.fn(lib, "asca::place::Place::%s_is_some" % sub)
        cs, lits = _consts_used(is_some.hir["body"])
        ok = set(cs) == {K + "_BIT"} and not [x for x in lits if x not in (0,)]
        r.inst("%s_is_some tests %s_BIT only" % (sub, K), fn_loc(is_some), "ok" if ok else "report")
        if not ok:
            soft("TAB-3b|is_some|%s" % sub, fn_loc(is_some), is_some.path,
                     "%s_is_some uses constants %s / literals %s; expected %s_BIT only" % (sub, sorted(set(cs)), lits, K))
        is_none = ctx.fn(lib, "asca::place::Place::%s_is_none" % sub)
        calls = [n.get("def") for n in hirq.walk(is_none.hir["body"]) if n["e"] == "mcall"]
        cs2, lits2 = _consts_used(is_none.hir["body"])
        neg = any(n["e"] == "unary" and n["op"] == "Not" for n in hirq.walk(is_none.hir["body"]))
        ok = (calls == [is_some.path] and neg and not cs2) or (set(cs2) == {K + "_BIT"})
        r.inst("%s_is_none is the negation of %s_is_some" % (sub, sub), fn_loc(is_none), "ok" if ok else "report")
        if not ok:
            soft("TAB-3b|is_none|%s" % sub, fn_loc(is_none), is_none.path,
                     "%s_is_none must negate %s_is_some (calls %s, consts %s)" % (sub, sub, calls, cs2))
        # getter
        g = ctx.fn(lib, "asca::place::Place::get_%s" % sub)
        cs, lits = _consts_used(g.hir["body"])
        guard_calls = []
        for n in hirq.walk(g.hir["body"]):
            if n["e"] == "if":
                guard_calls += [c.get("def") for c in hirq.walk(n["cond"]) if c["e"] == "mcall"]
        shifts = []
        ands = []
        for n in hirq.walk(g.hir["body"]):
            if n["e"] == "binary" and n["op"] in ("Shr", "Shl"):
                c_, l_ = _consts_used(n["b"])
                shifts.append((n["op"], [pc[x] for x in c_] + l_))
            if n["e"] == "binary" and n["op"] == "BitAnd":
                for side in ("a", "b"):
                    s_ = hirq.strip(n[side])
                    if s_.get("e") == "lit" and s_.get("lk") == "int":
                        ands.append(s_["lit"])
                    elif s_.get("e") == "path" and s_.get("path", "").startswith("asca::place::Place::"):
                        ands.append(pc.get(variant_of(s_["path"])))
        want_shift = [("Shr", [off[K]])] if off[K] else []
        ok_guard = guard_calls == [is_some.path]
        ok_shift = shifts == want_shift or (not off[K] and shifts in ([], [("Shr", [0])]))
        ok_and = ands == [msk[K]]
        other = [c for c in cs if not c.startswith(K + "_")]
        ok = ok_guard and ok_shift and ok_and and not other
        r.inst("get_%s: guarded by %s_is_some, >> %d, & %#x" % (sub, sub, off[K], msk[K]), fn_loc(g), "ok" if ok else "report")
        if not ok:
            soft("TAB-3b|get|%s" % sub, fn_loc(g), g.path,
                     "get_%s: guard calls %s (want %s), shifts %s (want >> %d), masks %s (want %#x), foreign consts %s"
                     % (sub, guard_calls, is_some.path, shifts, off[K], ands, msk[K], other))
        # the unsafe `unwrap_unchecked` is reachable only on the "present" edge of the sub-node's own presence test (MIR)
        from engine_flw import track_value, guard_switches, only_reachable_via
        from facts import callee_path as _cp
        gcfg = g.cfg
        for bi, t in g.calls():
            if not (_cp(t) or "").endswith("Option::unwrap_unchecked"):
                continue
            guarded = False
            for gi, gt in g.calls():
                c_ = _cp(gt) or ""
                if c_ not in (is_some.path, is_none.path) or gt["dest"]["p"]:
                    continue
                vals = track_value(g, gt["dest"]["l"])
                bools, _ = guard_switches(g, vals)
                for sb, t_succ, f_succ in bools:
                    # guard_switches follows negations: t_succ is the edge on which the *call's* result is true
                    bad_edge = f_succ if c_ == is_some.path else t_succ
                    if gcfg.dominates(sb, bi) and only_reachable_via(gcfg, sb, bad_edge, bi):
                        guarded = True
            r.inst("get_%s: unwrap_unchecked only on the present edge of %s_is_some / %s_is_none" % (sub, sub, sub), fn_loc(g), "ok" if guarded else "report")
            if not guarded:
                r.report("TAB-3b|unsafe|%s" % sub, fn_loc(g), g.path, "unwrap_unchecked is reachable without the sub-node's presence having been tested: undefined behaviour on an absent place")
        # setter
        s = ctx.fn(lib, "asca::place::Place::set_%s" % sub)
        body = s.hir["body"]
        cs, lits = _consts_used(body)
        other = sorted(set(c for c in cs if not c.startswith(K + "_")))
        lits_bad = [x for x in lits if x not in (0, low[K], msk[K])]
        ok = not other and (K + "_BIT") in cs and not lits_bad
        r.inst("set_%s uses only %s_* constants (literals equal to them)" % (sub, K), fn_loc(s), "ok" if ok else "report")
        if not ok:
            soft("TAB-3b|set-consts|%s" % sub, fn_loc(s), s.path,
                     "set_%s uses foreign constants %s / literals %s not equal to %s field values" % (sub, other, lits_bad, K))
        # under-negation sets: per arm of `match mask`
        mm = None
        for m in hirq.matches(s):
            sc = hirq.strip(m["scrut"])
            if sc.get("local") == (s.param_names[1] if len(s.param_names) > 1 else "mask"):
                mm = m
                break
        if mm is None:
            raise AnchorMissing("set_%s: no match on the value parameter" % sub)
        for arm in mm["arms"]:
            pk = hirq.pat_key(hirq.flat_pats(arm["pat"])[0])
            is_some_arm = pk[0] == "ts" and pk[1].endswith("Option::Some")
            is_none_arm = pk[0] == "path" and pk[1].endswith("Option::None")
            cleared = 0
            n_not = 0
            for n in hirq.walk(arm["body"]):
                if n["e"] == "unary" and n["op"] == "Not":
                    c_, l_ = _consts_used(n["a"])
                    v = 0
                    for x in c_:
                        v |= pc[x]
                    for x in l_:
                        v |= x
                    cleared |= v
                    n_not += 1
            sets_bit = False
            for n in hirq.walk(arm["body"]):
                if (n["e"] == "assignop" and n["op"] == "BitOrAssign") or (n["e"] == "binary" and n["op"] == "BitOr"):
                    c_, _l = _consts_used(n)
                    if K + "_BIT" in c_:
                        sets_bit = True
            if is_some_arm:
                ok = cleared == low[K] and sets_bit
                r.inst("set_%s(Some): sets %s_BIT, clears exactly the payload field %#x" % (sub, K, low[K]),
                       fn_loc(s, arm["ln"]), "ok" if ok else "report")
                if not ok:
                    soft("TAB-3b|set-some|%s" % sub, fn_loc(s, arm["ln"]), s.path,
                             "set_%s(Some): clears %#x (want %#x), sets presence bit: %s" % (sub, cleared, low[K], sets_bit))
                # shift
                sh = []
                for n in hirq.walk(arm["body"]):
                    if n["e"] == "binary" and n["op"] in ("Shl", "Shr"):
                        c_, l_ = _consts_used(n["b"])
                        sh.append((n["op"], [pc[x] for x in c_] + l_))
                ok = all(x == ("Shl", [off[K]]) for x in sh) and (bool(sh) == bool(off[K]) or not off[K])
                r.inst("set_%s(Some): payload shifted left by %d" % (sub, off[K]), fn_loc(s, arm["ln"]), "ok" if ok else "report")
                if not ok:
                    soft("TAB-3b|set-shift|%s" % sub, fn_loc(s, arm["ln"]), s.path,
                             "set_%s(Some): shifts %s, expected << %d" % (sub, sh, off[K]))
            elif is_none_arm:
                ok = cleared == (bit[K] | low[K])
                r.inst("set_%s(None): clears exactly %s_BIT | payload (%#x)" % (sub, K, bit[K] | low[K]),
                       fn_loc(s, arm["ln"]), "ok" if ok else "report")
                if not ok:
                    soft("TAB-3b|set-none|%s" % sub, fn_loc(s, arm["ln"]), s.path,
                             "set_%s(None): clears %#x, expected %#x" % (sub, cleared, bit[K] | low[K]))
        # normalisation: last statement of the body; no early return
        stmts = list(body.get("stmts", []))
        if body.get("tail") is not None:
            stmts.append(body["tail"])
        has_ret = any(n["e"] == "ret" for n in hirq.walk(body))
        last = stmts[-1] if stmts else None
        ok = last is not None and _is_normalisation(last) and not has_ret
        r.inst("set_%s ends with the Some(0) -> None normalisation on every path" % sub, fn_loc(s), "ok" if ok else "report")
        if not ok:
            soft("TAB-3b|set-norm|%s" % sub, fn_loc(s), s.path,
                     "set_%s does not end with `if matches!(self.0, Some(0)) { self.0 = None }` on all paths" % sub)
    # node dispatch tables
    for fname, pref in (("get_node", "get_"), ("set_node", "set_")):
        fb = ctx.fn(lib, "asca::seg::Segment::" + fname)
        m = top_match(fb, "node")
        seen = {}
        for arm in m["arms"]:
            for p in hirq.flat_pats(arm["pat"]):
                if p.get("p") != "path":
                    continue
                nk = variant_of(p["path"])
                calls = [n.get("def") for n in hirq.walk(arm["body"]) if n["e"] == "mcall" and (n.get("def") or "").startswith("asca::place::Place::")]
                fields = [n["name"] for n in hirq.walk(arm["body"]) if n["e"] == "field" and hirq.strip(n["a"]).get("local") == "self"]
                seen[nk] = (calls, fields, arm["ln"], hirq.is_panic_expr(arm["body"]))
        for nk in NODE_ORDER + ["Place"]:
            if nk not in seen:
                r.report("TAB-3b|%s|missing|%s" % (fname, nk), fn_loc(fb), fb.path, "no arm for NodeKind::%s" % nk)
                continue
            calls, fields, ln, pan = seen[nk]
            if nk in ("Root", "Manner", "Laryngeal"):
                ok = fields == [nk.lower()] and not calls
                want = "self.%s" % nk.lower()
            elif nk == "Place":
                ok = pan is not None and not calls
                want = "panic"
            else:
                ok = calls == ["asca::place::Place::%s%s" % (pref, nk.lower())]
                want = "self.place.%s%s" % (pref, nk.lower())
            r.inst("%s: NodeKind::%s -> %s" % (fname, nk, want), fn_loc(fb, ln), "ok" if ok else "report")
            if not ok:
                r.report("TAB-3b|%s|%s" % (fname, nk), fn_loc(fb, ln), fb.path,
                         "%s maps NodeKind::%s to calls %s / fields %s; expected %s" % (fname, nk, calls, fields, want))
    # ---- TAB-3c: an absent node is never conflated with a zero payload
    from facts import callee_path as _cp
    LOSSY = ("unwrap_or", "unwrap_or_default", "unwrap_or_else", "map_or", "map_or_else", "is_some_and", "is_none_or")
    ALLOWED = {"asca::seg::Segment::set_feat": "setting a positive feature creates the sub-node from 0 (documented)"}
    n_lossy = 0
    for b in lib.bodies:
        if b.in_test_mod():
            continue
        k = 0
        for bi, t in b.calls():
            cp = _cp(t) or ""
            inst = t["callee"].get("inst") or ""
            if cp.startswith("core::option::Option::") and "Option::<u8>" in inst and cp.rsplit("::", 1)[-1] in LOSSY:
                n_lossy += 1
                ok = b.path in ALLOWED
                loc = t["loc"].rsplit(":", 1)[0]
                r.inst("%s collapses an Option<u8> node value with %s" % (b.path.split("::", 1)[-1], cp.rsplit("::", 1)[-1]), loc,
                       ("accepted:" + ALLOWED[b.path]) if ok else "report")
                if not ok:
                    r.report("TAB-3c|%s|%s|#%d" % (b.path, cp.rsplit("::", 1)[-1], k), loc, b.path,
                             "an absent node/sub-node (None) is collapsed to a payload value with %s: absent and Some(0) become indistinguishable (an absent sub-node must match neither + nor -, and read back as absent)"
                             % cp.rsplit("::", 1)[-1])
                    k += 1
    r.analysed = {"constants": len(need), "accessors": 16, "dispatch_tables": 2, "payload_fields": {k: hex(v) for k, v in low.items()},
                  "lossy_option_u8_sites": n_lossy}
    return r


def _is_normalisation(e):
    """`if matches!(self.0, Some(0)) { self.0 = None; }` (HIR: if + match with lit 0 pattern)"""
    if e.get("e") != "if":
        return False
    has_zero = False
    for m in hirq.walk(e["cond"]):
        if m["e"] == "match":
            for arm in m["arms"]:
                for p in hirq.walk_pats(arm["pat"]):
                    if p.get("p") == "lit" and p.get("lit") == 0:
                        has_zero = True
        if m["e"] == "binary" and m["op"] == "Eq":
            for l in hirq.lits_in(m):
                if l.get("lit") == 0:
                    has_zero = True
    assigns_none = False
    for a in hirq.walk(e["then"]):
        if a["e"] == "assign":
            rhs = hirq.strip(a["rhs"])
            if rhs.get("e") == "path" and rhs.get("path", "").endswith("Option::None"):
                assigns_none = True
    return has_zero and assigns_none and e.get("else") is None
