#!/usr/bin/env python3
"""Front end: `check <Cxx> <quick|thorough>`.

Extracts facts from /repo's current working tree (cached by content hash), runs
the rules registered for the property, writes /verif/evidence/<id>.json, prints
KNOWN-FINDING / VIOLATION lines and sets the exit status.
"""
import json
import os
import sys
import time
import traceback

HERE = os.path.dirname(os.path.abspath(__file__))
sys.path.insert(0, HERE)

import facts  # noqa: E402
from core import AnchorMissing, Ctx, RuleResult  # noqa: E402
import registry  # noqa: E402

VERIF = facts.VERIF


def load_known():
    p = os.path.join(VERIF, "known_findings.json")
    try:
        with open(p, "r", encoding="utf-8") as fh:
            return json.load(fh)
    except OSError:
        return {"findings": [], "fixed": []}


def run_rules(pid, ctx):
    results = []
    for rule_id, fn in registry.PROPS[pid]["rules"]:
        t0 = time.time()
        try:
            res = fn(ctx)
        except AnchorMissing as e:
            res = RuleResult(rule_id, "anchor missing")
            res.report("%s|anchor-missing|%s" % (rule_id, str(e)), "-", "-",
                       "anchor missing (rule fails closed): %s" % e, reason="anchor-missing")
        except Exception as e:  # a crashing rule must not pass silently
            res = RuleResult(rule_id, "internal error")
            res.report("%s|internal-error" % rule_id, "-", "-",
                       "rule crashed (fails closed): %r" % e, reason="internal-error",
                       trace=traceback.format_exc()[-1500:])
        res.wall = time.time() - t0
        # one report per key
        seen_k, uniq = set(), []
        for rep in res.reports:
            if rep.key not in seen_k:
                seen_k.add(rep.key)
                uniq.append(rep)
        res.reports = uniq
        # floors
        # floors: the number counted on the pinned tree; rules with many instances tolerate the loss of a tenth of their
        # sites (a legitimate edit may remove a site; a vacuous pass loses nearly all of them)
        eff_floor = res.floor if res.floor < 10 else int(res.floor * 0.9)
        if res.floor and len(res.instances) < eff_floor and not res.reports:
            res.report("%s|floor" % res.rule, "-", "-",
                       "rule examined %d instances, fewer than the %d confirmed by hand: fails closed"
                       % (len(res.instances), eff_floor), reason="floor")
        results.append(res)
    return results


def run_controls(pid, tier):
    """Positive controls: every generic analysis core used by this property must fire on its deliberately
    bad fixture instance and stay silent on the good twin (fixtures/positive, same driver, every run)."""
    import controls
    out = []
    wanted = registry.PROPS[pid].get("controls", [])
    if not wanted:
        return out
    fx_dir = os.path.join(VERIF, "fixtures", "positive")
    try:
        fdir = facts.ensure_fixture_facts(fx_dir)
        unit = facts.Unit(os.path.join(fdir, "poscontrol-lib.facts.json"))
    except Exception as e:
        return [{"rule": c, "fired": False, "good_silent": False, "error": "fixture extraction failed: %r" % e} for c in wanted]
    for cid in wanted:
        try:
            res = controls.CONTROLS[cid](unit)
            out.append({"rule": cid, **res})
        except Exception as e:
            out.append({"rule": cid, "fired": False, "good_silent": False, "error": repr(e)})
    return out


def sensitivity_sweep(pid):
    """Thorough tier: apply every mutant / seeded change kept for this property to a scratch copy of the
    *current* tree (outside /repo and /verif, removed afterwards), re-extract facts and run this property's
    quick check on it. Measures the checker, not the repository: never changes the verdict."""
    import concurrent.futures as cf
    import glob
    import shutil
    import subprocess
    import tempfile
    patches = sorted(glob.glob(os.path.join(VERIF, "mutants", pid, "*.patch"))) + sorted(glob.glob(os.path.join(VERIF, "seeded", pid + "-*", "patch.diff")))

    def one(patch):
        scr = tempfile.mkdtemp(prefix="asca-sweep-", dir=os.environ.get("TMPDIR") or "/tmp")
        try:
            subprocess.run(["rsync", "-a", "--exclude", "target", "--exclude", ".git", facts.REPO + "/", scr + "/repo/"], check=True)
            r = subprocess.run(["patch", "-p1", "-s", "--no-backup-if-mismatch", "-i", patch], cwd=scr + "/repo", capture_output=True, text=True)
            name = os.path.relpath(patch, VERIF)
            if r.returncode != 0:
                return {"mutant": name, "status": "skipped: patch no longer applies"}
            env = dict(os.environ, ASCA_REPO=scr + "/repo", VERIF_EVIDENCE_DIR=scr + "/ev", VERIF_REPLAY_DIR=scr + "/replay", VERIF_TIER="quick")
            p = subprocess.run([os.path.join(VERIF, "check"), pid, "quick"], env=env, capture_output=True, text=True)
            reps = []
            d = os.path.join(scr, "replay", pid)
            if os.path.isdir(d):
                for f in sorted(os.listdir(d)):
                    try:
                        j = json.load(open(os.path.join(d, f)))
                        reps.append("%s %s: %s" % (j.get("rule"), (j.get("loc") or "").replace(scr + "/repo/", ""), (j.get("msg") or j.get("reason") or "")[:160]))
                    except Exception:
                        pass
            return {"mutant": name, "status": "detected" if p.returncode == 1 else "NOT detected", "reports": reps[:4]}
        finally:
            shutil.rmtree(scr, ignore_errors=True)
    out = []
    with cf.ThreadPoolExecutor(max_workers=int(os.environ.get("VERIF_JOBS", "6"))) as ex:
        for res in ex.map(one, patches):
            out.append(res)
    return out


def main(argv):
    if len(argv) < 2:
        print("usage: check <Cxx> [quick|thorough]", file=sys.stderr)
        return 2
    pid = argv[1]
    tier = argv[2] if len(argv) > 2 else os.environ.get("VERIF_TIER", "quick")
    if tier not in ("quick", "thorough"):
        tier = "quick"
    seed = int(os.environ.get("VERIF_SEED", "0") or 0)
    if pid not in registry.PROPS:
        print("unknown or unclaimed property %s" % pid, file=sys.stderr)
        return 2
    t0 = time.time()
    ev_dir = os.environ.get("VERIF_EVIDENCE_DIR") or os.path.join(VERIF, "evidence")
    os.makedirs(ev_dir, exist_ok=True)
    ev_path = os.path.join(ev_dir, pid + ".json")
    replay_dir = os.path.join(os.environ.get("VERIF_REPLAY_DIR") or os.path.join(VERIF, "replay"), pid)
    os.makedirs(replay_dir, exist_ok=True)
    for f in os.listdir(replay_dir):
        os.remove(os.path.join(replay_dir, f))

    violations = []
    known_present = []
    results = []
    controls = []
    extraction_error = None
    lib = bin_ = None
    try:
        fdir = facts.ensure_facts(facts.REPO)
        lib, bin_ = facts.load_units(fdir)
        lib_t = bin_t = None
        if tier == "thorough":
            try:
                tdir = facts.ensure_facts(facts.REPO, tests=True)
                lib_t, bin_t = facts.load_units(tdir, tests=True)
            except facts.ExtractionError as e:
                extraction_error = "test-units: %s" % e
        ctx = Ctx(lib, bin_, facts.REPO, tier, lib_t, bin_t)
        results = run_rules(pid, ctx)
        controls = run_controls(pid, tier)
    except facts.ExtractionError as e:
        extraction_error = str(e)

    known = load_known()
    known_keys = {f["key"]: f for f in known.get("findings", []) if f.get("property") == pid}

    n = 0
    if extraction_error and not results:
        n += 1
        rp = os.path.join(replay_dir, "%03d.json" % n)
        json.dump({"property": pid, "reason": "extraction-failed", "detail": extraction_error}, open(rp, "w"), indent=1)
        violations.append(("extraction-failed", rp))
    for res in results:
        for rep in res.reports:
            if rep.key in known_keys:
                known_present.append((rep, known_keys[rep.key]))
                continue
            n += 1
            rp = os.path.join(replay_dir, "%03d.json" % n)
            with open(rp, "w", encoding="utf-8") as fh:
                json.dump({"property": pid, **rep.to_json()}, fh, indent=1, ensure_ascii=False)
            violations.append((rep, rp))
    for c in controls:
        if not (c["fired"] and c.get("good_silent", True)):
            n += 1
            rp = os.path.join(replay_dir, "%03d.json" % n)
            json.dump({"property": pid, "reason": "positive-control-silent", "control": c}, open(rp, "w"), indent=1)
            violations.append(("positive-control-silent:%s" % c["rule"], rp))

    sweep = []
    if tier == "thorough" and results and not os.environ.get("VERIF_NO_SWEEP"):
        try:
            sweep = sensitivity_sweep(pid)
        except Exception as e:
            sweep = [{"mutant": "-", "status": "sweep failed: %r" % e}]
    # ---- evidence
    n_inst = sum(len(r.instances) for r in results)
    n_nontriv = sum(r.nontrivial for r in results)
    n_ok = sum(1 for r in results for i in r.instances if i["verdict"] == "ok" or i["verdict"].startswith("accepted"))
    samples = []
    for r in results:
        for i in r.instances[:3]:
            samples.append({"rule": r.rule, **i})
        for rep in r.reports[:2]:
            samples.append({"rule": r.rule, "report": rep.to_json()})
    meta = registry.PROPS[pid]
    cov = {
        "explanation": meta["explanation"] + ("" if all(r.rule in meta["explanation"] for r in results) else
                                               " Further rules applied: " + " ".join("%s: %s." % (r.rule, r.title) for r in results if r.rule not in meta["explanation"])),
        "rule": "static rule instances over the resolved program (HIR/MIR facts extracted by /verif/driver from the current tree); "
                "an instance is one site/row/obligation a rule examined; non-trivial = the rule had a condition to check there",
        "evaluations": max(n_inst, 1),
        "distinct_nontrivial": n_nontriv,
        "obligations": n_inst,
        "discharged": n_ok,
        "samples": samples[:40] or [{"note": "no instances"}],
        "checker_cmd": "./check %s %s" % (pid, tier),
        "trusted_base": ["rustc nightly front end (name resolution, type check, MIR construction)",
                         "/verif/driver fact serialisation", "python rule implementations in /verif/rules"],
        "analysed": {
            "units": [u.name for u in (lib, bin_) if u is not None],
            "bodies": {u.name: len(u.bodies) for u in (lib, bin_) if u is not None},
            "per_rule": {r.rule: {"title": r.title, "instances": len(r.instances), "reports": len(r.reports),
                                  "floor": r.floor, "wall_s": round(getattr(r, "wall", 0), 3), **r.analysed}
                         for r in results},
        },
        "notes": [x for r in results for x in r.notes][:40],
        "exceptions_applied": [x for r in results for x in r.exceptions],
        "known_findings_present": [{"key": rep.key, "loc": rep.loc, "what": k.get("what")} for rep, k in known_present],
        "positive_control": controls,
        "does_not_decide": meta.get("does_not_decide", ""),
        "exhaustive": False,
    }
    if tier == "thorough":
        cov["mutants_applied"] = len([x for x in sweep if not x["status"].startswith("skipped")])
        cov["mutants_detected"] = len([x for x in sweep if x["status"] == "detected"])
        cov["mutants"] = sweep
        cov["mutant_note"] = ("sensitivity sweep over /verif/mutants/%s and /verif/seeded/%s-*: seeded changes that break only the value-level part of the "
                              "property (listed under does_not_decide) are expected to be NOT detected" % (pid, pid))
        cov["test_units_analysed"] = bool(lib is not None and getattr(ctx, "lib_t", None) is not None) if results else False
    if extraction_error:
        cov["extraction_error"] = extraction_error[:2000]
    ev = {
        "property_id": pid,
        "tier": tier,
        "seed": seed,
        "level": "other",
        "coverage": cov,
        "assumptions": meta.get("assumptions", []),
        "wall_s": round(time.time() - t0, 3),
        "violations": len(violations),
    }
    tmp = ev_path + ".tmp.%d" % os.getpid()
    with open(tmp, "w", encoding="utf-8") as fh:
        json.dump(ev, fh, indent=1, ensure_ascii=False)
    os.replace(tmp, ev_path)

    # ---- output
    for r in results:
        print("%s %-7s instances=%d reports=%d  %s" % (pid, r.rule, len(r.instances), len(r.reports), r.title))
    for x in sweep:
        if x["status"] == "NOT detected":
            print("CHECKER-INSENSITIVE mutant=%s" % x["mutant"])
    for rep, k in known_present:
        print("KNOWN-FINDING: property=%s %s [%s %s] %s" % (pid, k.get("what", rep.msg), rep.rule, rep.loc, rep.key))
    MAXP = 30
    for v, rp in violations[:MAXP]:
        if isinstance(v, str):
            print("  reason: %s" % v)
        else:
            print("  %s %s %s: %s" % (v.rule, v.loc, v.fn, v.msg))
            print("    key: %s" % v.key)
        print("VIOLATION property=%s replay=%s" % (pid, rp))
    if len(violations) > MAXP:
        print("... and %d more violations (see %s)" % (len(violations) - MAXP, replay_dir))
    return 1 if violations else 0


if __name__ == "__main__":
    sys.exit(main(sys.argv))
