"""PUR engine — purity / effects (C01, C10, C11).

PUR-1  ambient nondeterminism who-may-call (deny table over every external callee reachable from the API)
PUR-2  unordered-iteration escape (std hash collections)
PUR-3  no mutable / interior-mutable global state; Rule, Word, Transformation are Freeze
PUR-4  SubRule binding tables are fresh per application or cleared before every match attempt
PUR-5  order/count-preserving fold shape of the application and (de)serialisation loops
"""
import re

import hirq
from core import AnchorMissing, RuleResult, fn_loc, short_loc
from engine_err import for_loops, expr_name
from facts import callee_path

ENTRY = ["asca::run", "asca::trace_changes", "asca::get_trace_string", "asca::run_wasm"]

DENY_PREFIX = [
    ("std::time::", "wall clock / monotonic clock"),
    ("std::env::", "process environment"),
    ("std::fs::", "file system"),
    ("std::net::", "network"),
    ("std::thread::", "threads / thread-local storage"),
    ("std::process::", "process id / child processes"),
    ("std::io::stdio::stdin", "standard input"),
    ("std::io::stdio::Stdin", "standard input"),
    ("std::hash::random::RandomState::", "per-process random hasher keys"),
    ("std::sys::", "raw OS interface"),
    ("rand::", "randomness"), ("rand_core::", "randomness"), ("getrandom::", "randomness"), ("fastrand::", "randomness"),
    ("core::ptr::const_ptr::<impl *const T>::addr", "address observation"),
    ("core::ptr::mut_ptr::<impl *mut T>::addr", "address observation"),
    ("core::ptr::const_ptr::<impl *const T>::expose_provenance", "address observation"),
    ("core::ptr::mut_ptr::<impl *mut T>::expose_provenance", "address observation"),
    ("alloc::rc::Rc::as_ptr", "address observation"), ("alloc::rc::Rc::ptr_eq", "address observation"),
    ("alloc::sync::Arc::as_ptr", "address observation"), ("alloc::sync::Arc::ptr_eq", "address observation"),
    ("core::ptr::eq", "address comparison"), ("core::ptr::addr_eq", "address comparison"),
    ("std::sync::", "shared mutable state primitive"),
    ("core::sync::atomic::", "shared mutable state primitive"),
]
DENY_CONTAINS = [("core::fmt::Pointer", "address formatting ({:p})")]

# unsafe code reachable from the API, one named function each, with the reason
UNSAFE_ALLOWED = {
    "asca::place::Place::get_labial": "unwrap_unchecked in the labial_is_some branch (guard checked by TAB-3)",
    "asca::place::Place::get_coronal": "unwrap_unchecked in the coronal_is_some branch (guard checked by TAB-3)",
    "asca::place::Place::get_dorsal": "unwrap_unchecked in the dorsal_is_some branch (guard checked by TAB-3)",
    "asca::place::Place::get_pharyngeal": "unwrap_unchecked in the pharyngeal_is_some branch (guard checked by TAB-3)",
    "asca::alias::NamedEscape::to_char": "reads the discriminant of the #[repr(u16)] fieldless enum through a pointer cast: a function of the value",
}


def lib_roots(lib):
    roots = [p for p in ENTRY]
    for p in roots:
        if lib.body(p) is None:
            raise AnchorMissing("API entry point not found: " + p)
    return roots


def user_unsafe_blocks(body):
    if not body.hir:
        return []
    return [n for n in hirq.walk(body.hir["body"]) if n["e"] == "block" and n.get("unsafe")]


def pur1(ctx, unit=None, roots=None, rule_id="PUR-1"):
    r = RuleResult(rule_id, "no ambient nondeterminism source is reachable from the API (who-may-call over resolved callees)", floor=150)
    lib = unit or ctx.lib
    roots = roots or lib_roots(lib)
    reach = lib.reachable(roots)
    local = [p for p in reach if lib.body(p) is not None]
    ext = sorted(p for p in reach if lib.body(p) is None)
    n_calls = n_unres = n_virtual = 0
    for p in local:
        b = lib.body(p)
        for i, t in b.calls(include_cleanup=True):
            n_calls += 1
            c = t["callee"]
            if c.get("def") == "<indirect>":
                n_unres += 1
                r.inst("%s: indirect call through a value" % p, short_loc(t["loc"]), "accepted:fn-pointer-of-local-type", nontrivial=False)
                continue
            if c.get("res_kind") == "virtual":
                n_virtual += 1
                r.report("%s|dyn|%s" % (rule_id, p), short_loc(t["loc"]), p,
                         "dynamic dispatch (%s): the callee set is not statically known, rule fails closed" % c.get("def"))
        # MIR-level channels
        for blk in b.blocks:
            for s in blk["s"]:
                if s["k"] == "assign":
                    rv = s["rv"]
                    if rv.get("k") == "cast" and rv.get("ck") in ("PointerExposeProvenance",):
                        r.report("%s|ptr2int|%s" % (rule_id, p), short_loc(s["loc"]), p, "pointer-to-integer cast exposes an address")
                    if rv.get("k") == "tls":
                        r.report("%s|tls|%s|%s" % (rule_id, p, rv.get("def")), short_loc(s["loc"]), p,
                                 "thread-local static %s is read" % rv.get("def"))
        for ub in user_unsafe_blocks(b):
            if p in UNSAFE_ALLOWED:
                r.inst("%s: unsafe block" % p, fn_loc(b, ub["ln"]), "accepted:" + UNSAFE_ALLOWED[p])
                e = {"site": p, "reason": UNSAFE_ALLOWED[p]}
                if e not in r.exceptions:
                    r.exceptions.append(e)
            else:
                r.inst("%s: unsafe block" % p, fn_loc(b, ub["ln"]), "report")
                r.report("%s|unsafe|%s" % (rule_id, p), fn_loc(b, ub["ln"]), p,
                         "new `unsafe` block reachable from the API (not in the audited list): uninitialised or foreign memory is a nondeterminism channel")
    # external callees against the deny table
    callers = {}
    for p in local:
        for q in lib.callgraph.get(p, ()):
            if lib.body(q) is None:
                callers.setdefault(q, []).append(p)
    for q in ext:
        why = None
        for pre, w in DENY_PREFIX:
            if q.startswith(pre):
                why = w
        for sub, w in DENY_CONTAINS:
            if sub in q:
                why = w
        r.inst("external callee %s" % q, None, "ok" if not why else "report", nontrivial=bool(why))
        if why:
            for c in sorted(set(callers.get(q, ["?"]))):
                b = lib.body(c)
                loc = fn_loc(b) if b else "-"
                if b:
                    for i, t in b.calls(include_cleanup=True):
                        if q in (t["callee"].get("res"), t["callee"].get("def")):
                            loc = short_loc(t["loc"])
                            break
                r.report("%s|deny|%s|%s" % (rule_id, c, q), loc, c,
                         "%s is reachable from the API through %s: %s makes the result depend on more than its arguments" % (q, c, why))
    r.analysed = {"roots": roots, "local_bodies_reached": len(local), "external_callees": len(ext), "call_terminators": n_calls,
                  "indirect_calls": n_unres, "external_callee_list": ext}
    return r


# ---------------------------------------------------------------- PUR-2

HASH_ITER = re.compile(r"^std::collections::hash::(map::HashMap|set::HashSet)::"
                       r"(iter|iter_mut|keys|values|values_mut|into_keys|into_values|drain|extract_if|retain)$")
HASH_INTO_ITER = re.compile(r"IntoIterator>::into_iter$")
KEY_METHODS = ("keys", "into_keys")
KEY_ADAPTORS = ("cloned", "copied")
COMMUTATIVE_TERMINALS = ("count", "sum", "min", "max", "any", "all", "len", "product")
COMMUTATIVE_SINKS = (
    ("std::collections::hash::map::HashMap::insert", "insertion into a hash map"),
    ("std::collections::hash::set::HashSet::insert", "insertion into a hash set"),
    ("alloc::collections::btree::map::BTreeMap::insert", "insertion into an ordered map"),
    ("alloc::collections::btree::set::BTreeSet::insert", "insertion into an ordered set"),
    ("asca::trie::Trie::insert", "this repository's Trie keeps children sorted by binary_search_by: insertion order does not matter (confirmed by reading src/trie.rs)"),
)
ORDERED_COLLECT = ("alloc::collections::btree::", "std::collections::hash::")


def _is_hash_ty(t):
    return bool(t) and ("std::collections::hash::map::" in t or "std::collections::hash::set::" in t)


def _sink_ok_body(node, key_names):
    """Loop/closure body is order-insensitive by shape: only slot writes addressed by the key,
    or calls of known commutative sinks; no early exit."""
    reasons = []
    for n in hirq.walk(node):
        if n.get("exp"):
            continue
        if n["e"] in ("break", "continue", "ret"):
            return False, "early exit `%s` makes the result depend on which element comes first" % n["e"]
    n_effect = 0
    for n in hirq.walk(node):
        if n["e"] in ("assign", "assignop"):
            lhs = hirq.strip(n["lhs"])
            if lhs.get("e") == "index":
                idx_locals = {x.get("local") for x in hirq.walk(lhs["i"]) if x["e"] == "path" and "local" in x}
                if idx_locals & key_names or _derived(node, idx_locals, key_names):
                    n_effect += 1
                    reasons.append("slot write addressed by the element's key")
                    continue
                return False, "indexed write whose index does not come from the element's key"
            if n["e"] == "assign" and lhs.get("e") == "path":
                # plain local re-binding inside the body is not an escape by itself
                continue
            return False, "write to %s inside the iteration" % lhs.get("e")
        if n["e"] == "mcall":
            d = n.get("def") or ""
            if d.startswith("alloc::vec::Vec::") and n["name"] in ("push", "insert", "extend", "append"):
                return False, "`%s` into a Vec records the iteration order" % n["name"]
            if d.startswith("alloc::string::String::") and n["name"] in ("push", "push_str", "insert", "insert_str"):
                return False, "`%s` into a String records the iteration order" % n["name"]
            for sp, why in COMMUTATIVE_SINKS:
                if d == sp:
                    n_effect += 1
                    reasons.append(why)
    return True, "; ".join(sorted(set(reasons))) or "no order-dependent effect"


def _derived(node, idx_locals, key_names):
    """idx locals bound by `let x = <expr mentioning key>` in the body"""
    for n in hirq.walk(node):
        if n["e"] == "let" and n["pat"].get("p") == "bind" and n["pat"]["name"] in idx_locals and n.get("init") is not None:
            used = {x.get("local") for x in hirq.walk(n["init"]) if x["e"] == "path" and "local" in x}
            if used & key_names:
                return True
    return False


def _pat_names(p):
    return {q["name"] for q in hirq.walk_pats(p) if q.get("p") == "bind"}


def _first_pat_name(p):
    """name bound to the key of a (k, v) element pattern"""
    p0 = p
    while p0.get("p") == "ref":
        p0 = p0["sub"]
    if p0.get("p") == "tup" and p0["pats"]:
        return _pat_names(p0["pats"][0])
    return _pat_names(p0)


def hash_iteration_sites(body):
    """HIR sites that start an order-exposing iteration of a std hash collection."""
    out = []
    if not body.hir:
        return out
    root = body.hir["body"]
    for n in hirq.walk(root):
        if n["e"] == "mcall" and HASH_ITER.match(n.get("def") or ""):
            out.append(("method", n))
        elif n["e"] == "call":
            f = hirq.strip(n["f"])
            if HASH_ITER.match(f.get("path") or ""):
                out.append(("ufcs", n))
    # `for x in &map` / `for x in map`
    for pat, it, lbody, ln in for_loops(root):
        it_s = hirq.strip(it)
        t = it_s.get("ty") or ""
        if it_s.get("e") in ("path", "field", "addr", "unary") or it_s.get("e") == "mcall":
            # type of the iterated expression (before into_iter)
            if it_s.get("e") == "mcall" and HASH_ITER.match(it_s.get("def") or ""):
                continue   # counted as a method site
            ty = it_s.get("ty") or hirq.strip(it_s.get("a") or {}).get("ty") or ""
            if ty.startswith(("std::collections::hash::map::HashMap<", "std::collections::hash::set::HashSet<",
                              "&std::collections::hash::map::HashMap<", "&std::collections::hash::set::HashSet<",
                              "&mut std::collections::hash::map::HashMap<")):
                out.append(("for-direct", {"ln": ln, "for": (pat, it, lbody)}))
    return out


def classify_hash_site(body, kind, node):
    """-> (accepted: bool, reason)"""
    root = body.hir["body"]
    par = hirq.parent_map(root)
    loops = for_loops(root)
    if kind == "for-direct":
        pat, it, lbody = node["for"]
        return _sink_ok_body(lbody, _first_pat_name(pat))
    meth = node.get("name") if kind == "method" else (hirq.strip(node["f"]).get("path") or "").rsplit("::", 1)[-1]
    if meth == "retain":
        return True, "retain visits every element; the predicate is applied per element"
    cur = node
    adaptors = []
    while True:
        p = par.get(id(cur))
        if p is None:
            return False, "iteration value escapes the function body"
        # is `cur` the iterated expression of a for loop?
        for pat, it, lbody, ln in loops:
            if hirq.strip(it) is cur:
                return _sink_ok_body(lbody, _first_pat_name(pat))
        if p["e"] == "mcall" and hirq.strip(p["recv"]) is cur:
            name = p["name"]
            if name == "for_each":
                clo = hirq.strip(p["args"][0])
                if clo.get("e") != "closure":
                    return False, "for_each with a non-closure argument"
                keyn = set()
                for cp in clo["params"]:
                    keyn |= _first_pat_name(cp)
                return _sink_ok_body(clo["body"], keyn)
            if name in COMMUTATIVE_TERMINALS:
                return True, "commutative fold `%s`" % name
            if name == "collect":
                ty = p.get("ty") or ""
                if ty.startswith(ORDERED_COLLECT):
                    return True, "collected into an order-independent collection (%s)" % ty.split("<")[0]
                if ty.startswith("alloc::vec::Vec<"):
                    keys_only = meth in KEY_METHODS and all(a in KEY_ADAPTORS for a in adaptors)
                    ok, why = _collected_then_sorted(par, p)
                    if ok and keys_only:
                        return True, "keys collected into a Vec whose first use is a natural-order sort (keys are unique, so the sorted vector is a function of the key set)"
                    if ok and not keys_only:
                        return False, "collected and sorted, but the elements are not the collection's (unique) keys: ties keep iteration order"
                    return False, "collected into a Vec (%s)" % why
                return False, "collected into %s" % (ty.split("<")[0] or "?")
            if name in ("map", "cloned", "copied", "filter", "filter_map", "enumerate", "inspect", "by_ref", "chain", "flat_map", "flatten", "zip", "peekable"):
                adaptors.append(name)
                cur = p
                continue
            return False, "terminal `%s` depends on iteration order" % name
        if p["e"] in ("addr", "unary", "cast") or (p["e"] == "block" and p.get("tail") is cur):
            cur = p
            continue
        if p["e"] == "call":
            f = hirq.strip(p["f"])
            if (f.get("path") or "").endswith("IntoIterator::into_iter"):
                cur = p
                continue
        if p["e"] == "match" and p.get("src") == "ForLoopDesugar":
            for pat, it, lbody, ln in loops:
                if hirq.strip(it) is cur or it is cur:
                    return _sink_ok_body(lbody, _first_pat_name(pat))
            cur = p
            continue
        return False, "iteration flows into `%s`" % p["e"]


def _collected_then_sorted(par, collect_node):
    """`let [mut] v = <...collect()>; v.sort();` with v's first use being the sort."""
    p = par.get(id(collect_node))
    # climb through wrappers to the `let`
    cur = collect_node
    while p is not None and p["e"] in ("block",) and p.get("tail") is cur:
        cur, p = p, par.get(id(p))
    if p is None or p["e"] != "let" or p["pat"].get("p") != "bind":
        return False, "not bound by a `let`"
    v = p["pat"]["name"]
    blk = par.get(id(p))
    if blk is None or blk["e"] != "block":
        return False, "let not in a block"
    rest = hirq.stmts_after(blk, p)
    for s in rest:
        uses = [n for n in hirq.walk(s) if n["e"] == "path" and n.get("local") == v]
        if not uses:
            continue
        s0 = hirq.strip(s)
        if s0.get("e") == "mcall" and s0["name"] in ("sort", "sort_unstable") and hirq.strip(s0["recv"]).get("local") == v and not s0["args"]:
            return True, "sorted"
        return False, "first use of `%s` is not a natural-order sort" % v
    return False, "never sorted"


def pur2(ctx):
    r = RuleResult("PUR-2", "iteration order of std hash collections never escapes (lib and bin, static initialisers included)", floor=3)
    n_mir = 0
    for unit in (ctx.lib, ctx.bin):
        for b in unit.bodies:
            if b.in_test_mod():
                continue
            # MIR census (every resolved call of an order-exposing method, whatever the syntax)
            mir_sites = 0
            for i, t in b.calls():
                cp = callee_path(t) or ""
                inst = t["callee"].get("inst", "")
                if HASH_ITER.match(cp):
                    mir_sites += 1
                elif HASH_INTO_ITER.search(cp) and re.match(r"^<&?(mut )?std::collections::hash::(map::HashMap|set::HashSet)<", inst):
                    mir_sites += 1
                elif cp.endswith("Debug>::fmt") and re.match(r"^<std::collections::hash::(map::HashMap|set::HashSet)<", inst):
                    mir_sites += 1
                    r.report("PUR-2|%s|debug-fmt" % b.path, short_loc(t["loc"]), b.path,
                             "Debug-formatting a hash collection prints it in iteration order")
            n_mir += mir_sites
            owner = b
            if b.kind == "closure":
                # closures are analysed inside their parent's HIR tree
                continue
            sites = hash_iteration_sites(b)
            # MIR sites of this function and its closures
            total_mir = mir_sites
            for c in unit.bodies:
                if c.kind == "closure" and c.path.startswith(b.path + "::{closure"):
                    for i, t in c.calls():
                        cp = callee_path(t) or ""
                        inst = t["callee"].get("inst", "")
                        if HASH_ITER.match(cp) or (HASH_INTO_ITER.search(cp) and re.match(
                                r"^<&?(mut )?std::collections::hash::(map::HashMap|set::HashSet)<", inst)):
                            total_mir += 1
            if total_mir != len(sites):
                if total_mir or sites:
                    r.report("PUR-2|%s|census" % b.path, fn_loc(b), b.path,
                             "found %d order-exposing call(s) in MIR but recognised %d iteration site(s) in the syntax tree: fails closed"
                             % (total_mir, len(sites)), reason="census")
            for kind, node in sites:
                ok, why = classify_hash_site(b, kind, node)
                what = "%s: hash iteration (%s)" % (b.path, node.get("name") or kind)
                r.inst(what, fn_loc(b, node["ln"]), ("accepted:" + why) if ok else "report")
                if not ok:
                    ordinal = [id(n) for k, n in sites].index(id(node))
                    r.report("PUR-2|%s|#%d" % (b.path, ordinal), fn_loc(b, node["ln"]), b.path,
                             "iteration order of a std hash collection escapes: %s" % why)
    r.analysed = {"mir_order_exposing_calls": n_mir}
    return r


# ---------------------------------------------------------------- PUR-3

INTERIOR = ("core::cell::", "std::sync::", "core::sync::atomic::", "std::thread::local::", "lazy_static::lazy::Lazy",
            "once_cell::", "std::sync::once", "alloc::rc::Rc", "alloc::sync::Arc")


def pur3(ctx):
    r = RuleResult("PUR-3", "no state survives a call: statics immutable and Freeze (lazy_static cells of Freeze payloads accepted); Rule/Word/Transformation Freeze", floor=15)
    lib = ctx.lib
    for s in lib.statics:
        path, ty = s["path"], s["ty"]
        if s.get("thread_local"):
            r.inst("static %s" % path, short_loc(s["loc"]), "report")
            r.report("PUR-3|static|%s" % path, short_loc(s["loc"]), path, "thread-local static: state survives between calls on one thread")
            continue
        if s.get("mut"):
            r.inst("static %s" % path, short_loc(s["loc"]), "report")
            r.report("PUR-3|static|%s" % path, short_loc(s["loc"]), path, "`static mut`")
            continue
        if s.get("freeze"):
            r.inst("static %s : %s is immutable and Freeze" % (path, ty[:60]), short_loc(s["loc"]))
            continue
        if ty.startswith("lazy_static::lazy::Lazy<") and s.get("exp"):
            inner_bad = [a for a in s["adts"] if a != "lazy_static::lazy::Lazy" and (a.startswith(INTERIOR) or (
                a in lib.adts and not lib.adts[a]["freeze"]))]
            ok = not inner_bad
            r.inst("lazy_static cell %s: payload has no interior mutability" % path, short_loc(s["loc"]),
                   "accepted:Once-initialised cell of a Freeze payload" if ok else "report")
            if not ok:
                r.report("PUR-3|lazy|%s" % path, short_loc(s["loc"]), path,
                         "lazy_static payload contains interior-mutable types %s" % inner_bad)
            continue
        r.inst("static %s" % path, short_loc(s["loc"]), "report")
        r.report("PUR-3|static|%s" % path, short_loc(s["loc"]), path,
                 "static of type %s is not Freeze (interior mutability): state can survive a call" % ty)
    if ctx.tier == "thorough" and ctx.lib_t is not None:
        # cfg(test) units: test-only statics must not hide a writer either
        known = {s["path"] for s in lib.statics}
        for s in ctx.lib_t.statics:
            if s["path"] in known or s.get("exp") and s["ty"].startswith("lazy_static::lazy::Lazy<"):
                continue
            ok = not s.get("mut") and s.get("freeze") and not s.get("thread_local")
            r.inst("cfg(test) static %s" % s["path"], short_loc(s["loc"]), "ok" if ok else "report", nontrivial=False)
            if not ok:
                r.report("PUR-3|test-static|%s" % s["path"], short_loc(s["loc"]), s["path"], "a cfg(test) static carries mutable state")
    # thread_local! expands to a const/static + LocalKey: any LocalKey-typed item
    for p, c in lib.consts.items():
        if "std::thread::local::LocalKey" in c.get("ty", ""):
            r.report("PUR-3|thread_local|%s" % p, short_loc(c["loc"]), p, "thread_local! key: per-thread state survives between calls")
    for tp in ("asca::rule::Rule", "asca::word::Word", "asca::alias::Transformation", "asca::syll::Syllable", "asca::seg::Segment",
               "asca::parser::Item"):
        a = ctx.adt(lib, tp)
        ok = a["freeze"]
        r.inst("%s is Freeze (no UnsafeCell reachable)" % tp, short_loc(a["loc"]), "ok" if ok else "report")
        if not ok:
            bad = [(f["name"], f["ty"]) for v in a["variants"] for f in v["fields"] if not f["freeze"]]
            r.report("PUR-3|freeze|%s" % tp, short_loc(a["loc"]), tp,
                     "%s contains interior mutability (%s): shared between words/calls it becomes a hidden channel" % (tp, bad))
    sr = ctx.adt(lib, "asca::subrule::SubRule")
    cells = [(f["name"], f["ty"]) for v in sr["variants"] for f in v["fields"] if not f["freeze"]]
    r.inst("SubRule is the only interior-mutable interpreter type (cells: %s)" % [c[0] for c in cells], short_loc(sr["loc"]),
           "accepted:handled by PUR-4", nontrivial=False)
    r.analysed = {"statics": len(lib.statics), "subrule_cells": [c[0] for c in cells]}
    return r


# ---------------------------------------------------------------- PUR-4


def pur4(ctx):
    r = RuleResult("PUR-4", "SubRule binding tables are fresh per rule application or cleared before every match attempt", floor=7)
    lib = ctx.lib
    sr_path = "asca::subrule::SubRule"
    sr = ctx.adt(lib, sr_path)
    cells = [f["name"] for v in sr["variants"] for f in v["fields"] if "core::cell::RefCell<" in f["ty"]]
    if not cells:
        r.note("SubRule has no RefCell field any more: nothing to reset")
        r.inst("SubRule has no interior-mutable binding table", short_loc(sr["loc"]))
        return r
    # (A) freshness: no type stores a SubRule; constructed only under Rule::apply
    holders = []
    for ap, a in lib.adts.items():
        if ap == sr_path:
            continue
        for v in a["variants"]:
            for f in v["fields"]:
                if sr_path in f.get("adts", []):
                    holders.append("%s.%s" % (ap, f["name"]))
    for s in lib.statics:
        if sr_path in s.get("adts", []):
            holders.append("static " + s["path"])
    ctors = []
    for b in lib.bodies:
        if b.in_test_mod():
            continue
        for blk in b.blocks:
            for s in blk["s"]:
                if s["k"] == "assign" and s["rv"].get("k") == "agg" and s["rv"].get("adt") == sr_path:
                    ctors.append((b.path, short_loc(s["loc"])))
    apply_tree = lib.reachable(["asca::rule::Rule::apply"])
    outside = [c for c in ctors if c[0] not in apply_tree]
    fresh = not holders and not outside and bool(ctors)
    r.inst("(A) no struct/static stores a SubRule (%d holders)" % len(holders), short_loc(sr["loc"]), "ok" if not holders else "accepted:see (B)")
    r.inst("(A) SubRule constructed only under Rule::apply (%d constructor site(s))" % len(ctors),
           ctors[0][1] if ctors else None, "ok" if (ctors and not outside) else "accepted:see (B)")
    # does Rule::apply build the subrules per call (its own call to split_into_subrules)?
    ra = ctx.fn(lib, "asca::rule::Rule::apply")
    per_call = any((callee_path(t) or "").endswith("Rule::split_into_subrules") for _, t in ra.calls())
    cached = any("once" in (callee_path(t) or "").lower() or "get_or_init" in (callee_path(t) or "") for _, t in ra.calls())
    fresh = fresh and per_call and not cached
    r.inst("(A) Rule::apply calls split_into_subrules on every application", fn_loc(ra), "ok" if per_call and not cached else "accepted:see (B)")
    # (B) clears dominate every first matcher call in the scan loops
    matchers = ("SubRule::input_match_at", "SubRule::insertion_match")
    cleared_ok = True
    n_loops = 0
    detail = []
    for fpath in ("asca::subrule::SubRule::apply", "asca::subrule::SubRule::transform"):
        b = lib.body(fpath)
        if b is None:
            continue
        cfg = b.cfg
        clear_blocks = {c: set() for c in cells}
        for i, t in b.calls():
            cp = callee_path(t) or ""
            if cp == "std::collections::hash::map::HashMap::clear":
                # which cell? look back for the RefCell::borrow_mut whose place is a field of self
                fld = _cell_of_clear(b, i)
                if fld in clear_blocks:
                    clear_blocks[fld].add(i)
        for i, t in b.calls():
            cp = callee_path(t) or ""
            if not any(cp.endswith(m) for m in matchers):
                continue
            lps = cfg.loops_containing(i)
            if not lps:
                continue
            n_loops += 1
            header = min(lps, key=lambda x: len(x[1]))[0]
            for c in cells:
                ok = cfg.must_pass_through(header, clear_blocks[c], [i])
                detail.append((fpath, cp.rsplit("::", 1)[-1], c, ok))
                r.inst("(B) %s: every path loop-header -> %s clears `%s`" % (fpath.rsplit("::", 1)[-1], cp.rsplit("::", 1)[-1], c),
                       short_loc(t["loc"]), "ok" if ok else ("accepted:fresh by (A)" if fresh else "report"))
                if not ok:
                    cleared_ok = False
    if n_loops == 0:
        cleared_ok = False
    if not fresh and not cleared_ok:
        why = []
        if holders:
            why.append("SubRule values are stored in %s" % holders)
        if outside:
            why.append("constructed outside Rule::apply at %s" % outside)
        if not per_call or cached:
            why.append("Rule::apply no longer rebuilds its sub-rules on every call")
        bad = [d for d in detail if not d[3]]
        r.report("PUR-4|stale-bindings", short_loc(sr["loc"]), sr_path,
                 "binding tables are neither fresh per application (%s) nor cleared before every match attempt (%s): "
                 "bindings of one word/position can leak into the next" % ("; ".join(why) or "?", bad or "no scan loop found"))
    r.analysed = {"cells": cells, "constructors": ctors, "holders": holders, "scan_loop_matcher_calls": n_loops, "fresh": fresh,
                  "cleared": cleared_ok}
    return r


def _cell_of_clear(b, blk_idx):
    """Name of the SubRule field whose table is cleared by the HashMap::clear call in block blk_idx:
    follow the receiver back through deref_mut / borrow_mut to a `&(*self).field`."""
    t = b.blocks[blk_idx]["t"]
    want = _op_local(t["args"][0]) if t["args"] else None
    seen = 0
    while want is not None and seen < 12:
        seen += 1
        src = _def_of_local(b, want)
        if src is None:
            return None
        kind, val = src
        if kind == "call":
            if not val["args"]:
                return None
            want = _op_local(val["args"][0])
        elif kind == "ref":
            for pr in val["p"]:
                if isinstance(pr, dict) and "f" in pr and pr.get("of", "").endswith("subrule::SubRule"):
                    return pr.get("n")
            want = val["l"] if val["p"] else None
            if not val["p"]:
                want = val["l"]
            else:
                # &mut *_x  or &(*_1).field handled above
                want = val["l"]
        elif kind == "use":
            want = val
        else:
            return None
    return None


def _op_local(op):
    if op.get("k") in ("copy", "move"):
        return op["pl"]["l"]
    return None


def _def_of_local(b, l):
    for blk in b.blocks:
        for s in blk["s"]:
            if s["k"] == "assign" and s["lhs"]["l"] == l and not s["lhs"]["p"]:
                rv = s["rv"]
                if rv.get("k") == "ref":
                    return ("ref", rv["pl"])
                if rv.get("k") == "use" and rv["op"].get("k") in ("copy", "move"):
                    return ("use", rv["op"]["pl"]["l"])
                return None
        t = blk["t"]
        if t["k"] == "call" and t["dest"]["l"] == l and not t["dest"]["p"]:
            return ("call", t)
    return None


# ---------------------------------------------------------------- PUR-5

ORDER_BREAKING = ("filter", "filter_map", "flat_map", "skip", "skip_while", "take", "take_while", "rev", "step_by", "dedup",
                  "sort", "sort_by", "sort_by_key", "sort_unstable", "sort_unstable_by", "chain", "zip", "cycle", "retain",
                  "truncate", "swap", "reverse", "pop", "remove", "swap_remove", "drain", "dedup_by", "dedup_by_key", "find", "position",
                  "last", "nth", "flatten", "peekable", "scan", "map_while", "windows", "chunks", "split_off", "rotate_left", "rotate_right")


def user_exits(node):
    return [n for n in hirq.walk(node) if n["e"] in ("break", "continue", "ret") and not n.get("exp")]


def loop_shape(b, loops, base_pred):
    """find the for loop whose iterated expression satisfies base_pred(expr_name)"""
    for pat, it, body, ln in loops:
        s = hirq.strip(it)
        adaptors = []
        while s.get("e") == "mcall":
            adaptors.append(s["name"])
            s = hirq.strip(s["recv"])
        if base_pred(expr_name(s)):
            return pat, it, body, ln, adaptors
    return None


def direct_stmts(block):
    b = hirq.strip(block)
    if b.get("e") != "block":
        return [b]
    items = list(b.get("stmts", []))
    if b.get("tail") is not None:
        items.append(b["tail"])
    return items


def pur5(ctx, which=("fold", "order")):
    r = RuleResult("PUR-5", "application and (de)serialisation loops are order- and count-preserving folds", floor=15)
    lib = ctx.lib
    # ---- apply_rule_groups: four nested loops
    arg = ctx.fn(lib, "asca::apply_rule_groups")
    tree = _hoist_pushed_helpers(_top_level_inlined(lib, arg))
    loops = for_loops(tree)
    p_rules, p_phrases = arg.param_names[0], arg.param_names[1]
    L_phr = loop_shape(arg, loops, lambda n: n == ("local", p_phrases))
    if not L_phr:
        raise AnchorMissing("apply_rule_groups: loop over the phrases parameter not found")
    phr_var = sorted(_pat_names(L_phr[0]))
    L_word = loop_shape(arg, for_loops(L_phr[2]), lambda n: n[0] == "local" and n[1] in phr_var)
    if not L_word:
        raise AnchorMissing("apply_rule_groups: loop over the words of a phrase not found")
    word_var = sorted(_pat_names(L_word[0]))
    L_grp = loop_shape(arg, for_loops(L_word[2]), lambda n: n == ("local", p_rules))
    if not L_grp:
        raise AnchorMissing("apply_rule_groups: loop over the rule groups not found")
    grp_var = sorted(_pat_names(L_grp[0]))
    L_rule = loop_shape(arg, for_loops(L_grp[2]), lambda n: n[0] == "local" and n[1] in grp_var)
    if not L_rule:
        raise AnchorMissing("apply_rule_groups: loop over the rules of a group not found")
    for name, L in (("phrases", L_phr), ("words", L_word), ("groups", L_grp), ("rules", L_rule)):
        bad = [a for a in L[4] if a not in ("iter", "into_iter")]
        r.inst("apply_rule_groups: loop over %s iterates front to back without adaptors" % name, fn_loc(arg, L[3]),
               "ok" if not bad else "report")
        if bad:
            r.report("PUR-5|apply_rule_groups|%s|adaptor" % name, fn_loc(arg, L[3]), arg.path,
                     "loop over %s goes through `%s`: elements are skipped, reordered or merged" % (name, "/".join(bad)))
    ex = user_exits(L_phr[2])
    r.inst("apply_rule_groups: no break/continue/return inside the loops (only `?`)", fn_loc(arg, L_phr[3]), "ok" if not ex else "report")
    for e in ex:
        r.report("PUR-5|apply_rule_groups|exit|%s" % e["e"], fn_loc(arg, e["ln"]), arg.path,
                 "`%s` inside the application loops: a word, group or rule can be skipped" % e["e"])
    # state carried between two Rule::apply calls is the word only
    rule_body = L_rule[2]
    stm = direct_stmts(rule_body)
    ok_fold = False
    carried = None
    if len(stm) == 1:
        s0 = hirq.strip(stm[0])
        if s0.get("e") == "assign":
            lhs = expr_name(s0["lhs"])
            calls = [n for n in hirq.walk(s0["rhs"]) if n["e"] == "mcall" and (n.get("def") or "").endswith("rule::Rule::apply")]
            if lhs[0] == "local" and len(calls) == 1:
                a0 = expr_name(calls[0]["args"][0]) if calls[0]["args"] else None
                recv = expr_name(calls[0]["recv"])
                ok_fold = a0 == lhs and recv[0] == "local" and recv[1] in _pat_names(L_rule[0])
                carried = lhs[1]
    r.inst("apply_rule_groups: the rule loop body is exactly `w = rule.apply(w)?` (only the word is carried)", fn_loc(arg, L_rule[3]),
           "ok" if ok_fold else "report")
    if not ok_fold:
        r.report("PUR-5|apply_rule_groups|fold-body", fn_loc(arg, L_rule[3]), arg.path,
                 "the innermost loop is not the pure fold `word = rule.apply(word)?`: extra state or conditions decide which rules a word meets")
    # group loop body: only the rule loop
    gstm = direct_stmts(L_grp[2])
    only_rule_loop = len(gstm) == 1 and hirq.strip(gstm[0]).get("src") == "ForLoopDesugar"
    r.inst("apply_rule_groups: a group contributes exactly its rules (group loop body is the rule loop)", fn_loc(arg, L_grp[3]),
           "ok" if only_rule_loop else "report")
    if not only_rule_loop:
        r.report("PUR-5|apply_rule_groups|group-body", fn_loc(arg, L_grp[3]), arg.path,
                 "the loop over rule groups does more than run each group's rules in order: grouping can influence the result")
    # word loop: res = word.clone(); <group loop>; acc.push(res)   -- exactly one push per word, of the carried word
    wstm = direct_stmts(L_word[2])
    pushes = [hirq.strip(s) for s in wstm if hirq.strip(s).get("e") == "mcall" and hirq.strip(s)["name"] == "push"]
    all_push = [n for n in hirq.walk(L_word[2]) if n["e"] == "mcall" and n["name"] == "push" and (n.get("def") or "").startswith("alloc::vec::Vec::")]
    init_ok = False
    for s in wstm:
        s = hirq.strip(s)
        if s.get("e") == "let" and s["pat"].get("p") == "bind" and s["pat"]["name"] == carried and s.get("init") is not None:
            i0 = hirq.strip(s["init"])
            if i0.get("e") == "mcall" and i0["name"] == "clone" and expr_name(i0["recv"])[0] == "local" and expr_name(i0["recv"])[1] in word_var:
                init_ok = True
    one_push = len(pushes) == 1 and len(all_push) == 1 and expr_name(pushes[0]["args"][0]) == ("local", carried)
    r.inst("apply_rule_groups: each word yields exactly one pushed result, derived from that word alone", fn_loc(arg, L_word[3]),
           "ok" if (one_push and init_ok) else "report")
    if not (one_push and init_ok):
        r.report("PUR-5|apply_rule_groups|word-push", fn_loc(arg, L_word[3]), arg.path,
                 "the per-word loop does not push exactly one result per word that starts from `word.clone()`: entries can be dropped, duplicated or depend on other words")
    # phrase loop: exactly one push per phrase
    pstm = direct_stmts(L_phr[2])
    ppush = [hirq.strip(s) for s in pstm if hirq.strip(s).get("e") == "mcall" and hirq.strip(s)["name"] == "push"]
    all_ppush = [n for n in hirq.walk(L_phr[2]) if n["e"] == "mcall" and n["name"] == "push" and (n.get("def") or "").startswith("alloc::vec::Vec::")]
    ok = len(ppush) == 1 and len(all_ppush) == 2
    r.inst("apply_rule_groups: each input line yields exactly one pushed phrase", fn_loc(arg, L_phr[3]), "ok" if ok else "report")
    if not ok:
        r.report("PUR-5|apply_rule_groups|phrase-push", fn_loc(arg, L_phr[3]), arg.path,
                 "the per-line loop does not push exactly one phrase per input line")
    # other statements in the word loop that read state other than the word (memo tables etc.)
    extra = [s for s in wstm if hirq.strip(s).get("e") not in ("let", "mcall") and hirq.strip(s).get("src") != "ForLoopDesugar"]
    lets = [hirq.strip(s) for s in wstm if hirq.strip(s).get("e") == "let"]
    ok = not extra and len(lets) == 1
    r.inst("apply_rule_groups: per-word loop has no other statement (no memo table, no cross-word state)", fn_loc(arg, L_word[3]),
           "ok" if ok else "report")
    if not ok:
        r.report("PUR-5|apply_rule_groups|word-extra", fn_loc(arg, L_word[3]), arg.path,
                 "the per-word loop contains additional statements: a word's result may depend on other words")
    # accumulators only with_capacity / push / final move
    for acc_name in _accumulators(arg, tree):
        uses = [n for n in hirq.walk(tree) if n["e"] == "mcall" and expr_name(n["recv"]) == ("local", acc_name)]
        bad = sorted({u["name"] for u in uses if u["name"] not in ("push",)})
        r.inst("apply_rule_groups: accumulator `%s` is push-only" % acc_name, fn_loc(arg), "ok" if not bad else "report")
        if bad:
            r.report("PUR-5|apply_rule_groups|acc|%s" % acc_name, fn_loc(arg), arg.path,
                     "accumulator `%s` is also used with %s" % (acc_name, bad))
    # ---- iterator chains: parse_phrases, phrases_to_string
    for fpath in ("asca::parse_phrases", "asca::phrases_to_string"):
        fb = ctx.fn(lib, fpath)
        fb_tree = _top_level_inlined(lib, fb)
        names = [n["name"] for n in hirq.walk(fb_tree) if n["e"] == "mcall"]
        bad = sorted(set(n for n in names if n in ORDER_BREAKING))
        r.inst("%s: iterator chain uses only order- and count-preserving adaptors (%s)" % (fpath, sorted(set(names))), fn_loc(fb),
               "ok" if not bad else "report")
        if bad:
            r.report("PUR-5|%s|adaptor" % fpath, fn_loc(fb), fpath, "adaptor(s) %s can drop, merge or reorder entries" % bad)
        ex = user_exits(fb_tree)
        if ex:
            r.report("PUR-5|%s|exit" % fpath, fn_loc(fb, ex[0]["ln"]), fpath, "early exit inside the per-line conversion")
    # separators: split(' ') on input, + " " per word and trim_end on output
    pp = ctx.fn(lib, "asca::parse_phrases")
    splits = [n for n in hirq.walk(_top_level_inlined(lib, pp)) if n["e"] == "mcall" and n["name"] == "split"]
    ok = len(splits) == 1 and hirq.strip(splits[0]["args"][0]).get("lit") == " "
    r.inst("parse_phrases splits each line on a single space", fn_loc(pp), "ok" if ok else "report")
    if not ok:
        r.report("PUR-5|parse_phrases|split", fn_loc(pp), pp.path, "words of a line are not obtained by `split(' ')`")
    ps = ctx.fn(lib, "asca::phrases_to_string")
    lits = [n["lit"] for n in hirq.walk(ps.hir["body"]) if n["e"] == "lit" and n.get("lk") in ("str", "char") and not n.get("exp")]
    trims = [n for n in hirq.walk(ps.hir["body"]) if n["e"] == "mcall" and n["name"] in ("trim_end", "trim")]
    ok = lits == [" "] and len(trims) == 1
    r.inst("phrases_to_string joins the words of a line with single spaces (one separator literal, one trim)", fn_loc(ps), "ok" if ok else "report")
    if not ok:
        r.report("PUR-5|phrases_to_string|join", fn_loc(ps), ps.path, "word separator literals are %s, trims %d; expected exactly \" \" and one trim_end" % (lits, len(trims)))
    r.analysed = {"loops": 4, "chains": 2}
    return r


def _top_level_inlined(lib, fb):
    """HIR of a lib.rs driver with the crate-root helper functions it calls (`asca::<name>`) expanded in place"""
    import re
    return hirq.inline_helpers(lib, fb, keep={"asca::normalise"}, prefixes=("asca::",), max_depth=2, only_if=lambda cb: re.match(r"^asca::\w+$", cb.path) is not None)


def _hoist_pushed_helpers(tree):
    """`acc.push(helper(rules, word)?)` with the helper already expanded in place -> the helper's statements followed by
    `acc.push(<its result>)`, so that a per-word helper extracted from the loop is read like the loop body it was"""
    def untry_(e):
        e = hirq.strip(e)
        while isinstance(e, dict) and e.get("e") == "match" and str(e.get("src", "")).startswith("TryDesugar"):
            sc = hirq.strip(e["scrut"])
            e = hirq.strip(sc["args"][0]) if sc.get("e") == "call" and sc.get("args") else sc
        return e

    def fix(node):
        if isinstance(node, list):
            return [fix(v) for v in node]
        if not isinstance(node, dict):
            return node
        node = {k: fix(v) for k, v in node.items()}
        if node.get("e") == "block" and node.get("stmts"):
            new = []
            for st in node["stmts"]:
                s0 = hirq.strip(st)
                done = False
                if isinstance(s0, dict) and s0.get("e") == "mcall" and s0.get("name") == "push" and len(s0.get("args", [])) == 1:
                    inner = untry_(s0["args"][0])
                    if isinstance(inner, dict) and inner.get("e") == "block" and inner.get("inl"):
                        body = hirq.strip(inner.get("tail")) if inner.get("tail") is not None else None
                        if isinstance(body, dict) and body.get("e") == "block" and body.get("tail") is not None:
                            res = hirq.strip(body["tail"])
                            if res.get("e") == "call" and (hirq.strip(res["f"]).get("path") or "").endswith("Result::Ok") and res["args"]:
                                res = res["args"][0]
                            # parameter lets that only rename (`let word = word`) are dropped
                            for pl in inner.get("stmts", []):
                                i0 = hirq.strip(pl.get("init") or {})
                                if pl.get("inl_param") and pl["pat"].get("p") == "bind" and i0.get("e") == "path" and i0.get("local") == pl["pat"].get("name"):
                                    continue
                                new.append(pl)
                            new.extend(body.get("stmts", []))
                            push = dict(s0)
                            push["args"] = [res]
                            new.append(push)
                            done = True
                if not done:
                    new.append(st)
            node["stmts"] = new
        return node
    return fix(tree)


def _accumulators(b, tree=None):
    out = []
    for n in hirq.walk(tree if tree is not None else b.hir["body"]):
        if n["e"] == "let" and n["pat"].get("p") == "bind" and n.get("init") is not None:
            i0 = hirq.strip(n["init"])
            if i0.get("e") == "call" and (hirq.strip(i0["f"]).get("path") or "").endswith(("Vec::with_capacity", "Vec::new")):
                out.append(n["pat"]["name"])
    return out
