"""Control-flow helpers over the serialised MIR: successors, dominators,
post-dominators, natural loops, reachability."""


def succs_of(term, unwind=False):
    k = term["k"]
    out = []
    if k == "goto":
        out.append(term["t"])
    elif k == "switch":
        for _, t in term["vals"]:
            out.append(t)
        out.append(term["otherwise"])
    elif k in ("call", "drop", "assert"):
        if term.get("t") is not None:
            out.append(term["t"])
        if unwind and term.get("unwind") is not None:
            out.append(term["unwind"])
    # return, unreachable, resume, terminate, tailcall: none
    return out


class CFG:
    """Normal-path CFG (unwind edges and cleanup blocks excluded)."""

    def __init__(self, body):
        self.body = body
        blocks = body.blocks
        n = len(blocks)
        self.n = n
        self.succ = [[] for _ in range(n)]
        self.pred = [[] for _ in range(n)]
        for i, b in enumerate(blocks):
            if b.get("cleanup"):
                continue
            seen = set()
            for s in succs_of(b["t"]):
                if s in seen:
                    continue
                seen.add(s)
                self.succ[i].append(s)
                self.pred[s].append(i)
        self._prune_infeasible()
        self.reach = self._reach(0)
        self._dom = None
        self._pdom = None
        self._loops = None

    def _prune_infeasible(self):
        """`Err(e)?` : Try::branch applied to a freshly built Result::Err always yields Break; the
        Continue edge of the following discriminant switch is infeasible and is removed."""
        body = self.body
        blocks = body.blocks
        self.pruned = []

        def single_def(l):
            found = None
            n = 0
            for b in blocks:
                for st in b["s"]:
                    if st["k"] == "assign" and st["lhs"]["l"] == l and not st["lhs"]["p"]:
                        found = st["rv"]
                        n += 1
                t = b["t"]
                if t["k"] == "call" and t["dest"]["l"] == l and not t["dest"]["p"]:
                    found = {"k": "call", "t": t}
                    n += 1
            return found if n == 1 else None
        for i, b in enumerate(blocks):
            t = b["t"]
            if t["k"] != "call" or b.get("cleanup"):
                continue
            c = t["callee"]
            cp = c.get("res") or c.get("def") or ""
            if not cp.endswith("as core::ops::try_trait::Try>::branch") or not t["args"] or t["args"][0].get("k") not in ("copy", "move"):
                continue
            d = single_def(t["args"][0]["pl"]["l"])
            if not (d and d.get("k") == "agg" and d.get("adt") == "core::result::Result" and d.get("variant") == "Err"):
                continue
            nxt = t.get("t")
            if nxt is None:
                continue
            sw = blocks[nxt]["t"]
            if sw["k"] != "switch":
                continue
            # Continue has discriminant 0
            cont = dict((v, tg) for v, tg in sw["vals"]).get(0)
            if cont is None:
                continue
            if cont in self.succ[nxt] and len(set(self.succ[nxt])) > 1:
                self.succ[nxt] = [x for x in self.succ[nxt] if x != cont]
                if nxt in self.pred[cont]:
                    self.pred[cont] = [x for x in self.pred[cont] if x != nxt]
                self.pruned.append((nxt, cont))

    def _reach(self, start):
        seen = {start}
        st = [start]
        while st:
            x = st.pop()
            for s in self.succ[x]:
                if s not in seen:
                    seen.add(s)
                    st.append(s)
        return seen

    def reachable_from(self, start, avoid=()):
        """Blocks reachable from `start` without passing through blocks in `avoid`
        (start itself is included even if in avoid)."""
        avoid = set(avoid)
        seen = {start}
        st = [start]
        while st:
            x = st.pop()
            for s in self.succ[x]:
                if s not in seen and s not in avoid:
                    seen.add(s)
                    st.append(s)
        return seen

    # -- dominators (iterative, sets; bodies are small)
    @property
    def dom(self):
        if self._dom is None:
            self._dom = self._dominators(0, self.succ, self.pred, self.reach)
        return self._dom

    @staticmethod
    def _dominators(entry, succ, pred, nodes):
        nodes = set(nodes)
        order = []
        seen = set()

        def dfs(s):
            st = [(s, iter(succ[s]))]
            seen.add(s)
            while st:
                x, it = st[-1]
                adv = False
                for y in it:
                    if y in nodes and y not in seen:
                        seen.add(y)
                        st.append((y, iter(succ[y])))
                        adv = True
                        break
                if not adv:
                    order.append(x)
                    st.pop()

        dfs(entry)
        rpo = list(reversed(order))
        dom = {x: None for x in rpo}
        dom[entry] = {entry}
        changed = True
        while changed:
            changed = False
            for x in rpo:
                if x == entry:
                    continue
                ps = [dom[p] for p in pred[x] if p in dom and dom[p] is not None]
                if not ps:
                    continue
                new = set.intersection(*ps) | {x}
                if new != dom[x]:
                    dom[x] = new
                    changed = True
        return {x: (d if d is not None else {x}) for x, d in dom.items()}

    def dominates(self, a, b):
        """a dominates b (every path entry→b passes a)."""
        d = self.dom.get(b)
        return d is not None and a in d

    @property
    def exits(self):
        return [i for i in self.reach if self.body.blocks[i]["t"]["k"] == "return"]

    @property
    def pdom(self):
        """post-dominators w.r.t. `return` exits (virtual exit = -1)."""
        if self._pdom is None:
            n = self.n
            VE = n
            succ = [list(p) for p in self.pred] + [list(self.exits)]
            pred = [list(s) for s in self.succ] + [[]]
            for e in self.exits:
                pred[e] = pred[e] + [VE]
            nodes = set(self.reach) | {VE}
            self._pdom = self._dominators(VE, succ, pred, nodes)
        return self._pdom

    def postdominates(self, a, b):
        d = self.pdom.get(b)
        return d is not None and a in d

    # -- natural loops
    @property
    def loops(self):
        """list of (header, set(body blocks)) for each back edge group by header"""
        if self._loops is None:
            by_header = {}
            for x in self.reach:
                for s in self.succ[x]:
                    if self.dominates(s, x):
                        # back edge x -> s
                        body = {s, x}
                        st = [x]
                        while st:
                            y = st.pop()
                            if y == s:
                                continue
                            for p in self.pred[y]:
                                if p not in body and p in self.reach:
                                    body.add(p)
                                    st.append(p)
                        by_header.setdefault(s, set()).update(body)
            self._loops = sorted(by_header.items())
        return self._loops

    def loops_containing(self, bb):
        return [(h, blk) for h, blk in self.loops if bb in blk]

    def must_pass_through(self, start, targets, goal_blocks):
        """True iff every path from `start` to any block in goal_blocks passes a block in `targets`."""
        targets = set(targets)
        if start in targets:
            return True
        r = self.reachable_from(start, avoid=targets)
        return not (r & set(goal_blocks))
