"""TAB-4..6 and SYN-1: synonym / shorthand tables against siblings and the manual."""
import re

import hirq
from core import AnchorMissing, RuleResult, fn_loc
from engine_tab import tail_value, variant_of, variants


# ---------------------------------------------------------------- shared: feature-name tables


def str_match_tables(body):
    """All `match` expressions of a body whose arms carry string-literal patterns:
    list of (match-node, {spelling: arm})."""
    out = []
    for m in hirq.matches(body):
        tbl = {}
        dups = []
        for arm in m["arms"]:
            for p in hirq.flat_pats(arm["pat"]):
                if p.get("p") == "lit" and p.get("lk") == "str":
                    if p["lit"] in tbl:
                        dups.append(p["lit"])
                    tbl[p["lit"]] = arm
        if tbl:
            out.append((m, tbl, dups))
    return out


def arm_variant_chain(arm):
    """The chain of enum-variant constructors forming the arm's value, e.g.
    Ok(Feature(Feat(Consonantal))) -> ['Result::Ok','TokenKind::Feature','FeatType::Feat','FType::Consonantal']"""
    v = tail_value(arm["body"])
    chain = []
    while isinstance(v, dict):
        v = hirq.strip(v)
        if v.get("e") == "call":
            f = hirq.strip(v["f"])
            if f.get("e") == "path":
                chain.append("::".join(f.get("path", "?").split("::")[-2:]))
            if len(v["args"]) == 1:
                v = v["args"][0]
                continue
            break
        if v.get("e") == "path":
            chain.append("::".join(v.get("path", "?").split("::")[-2:]))
        break
    return chain


def feature_table(ctx, fn_path):
    b = ctx.fn(ctx.lib, fn_path)
    ts = str_match_tables(b)
    if not ts:
        raise AnchorMissing("no string table in " + fn_path)
    m, tbl, dups = max(ts, key=lambda x: len(x[1]))
    out = {}
    for sp, arm in tbl.items():
        ch = arm_variant_chain(arm)
        # drop the Ok(Feature( wrapper, keep FeatType::X(Inner::Y)
        idx = [i for i, c in enumerate(ch) if c.startswith("FeatType::")]
        key = tuple(ch[idx[0]:]) if idx else tuple(ch)
        out[sp] = (key, arm["ln"])
    return b, m, out, dups


# ---------------------------------------------------------------- TAB-5


def tab5(ctx):
    r = RuleResult("TAB-5", "feature-name synonym tables: rule lexer == alias lexer, no duplicate spelling, FEAT_VARIANTS ⊆ keys, keys lexable", floor=363)
    lib = ctx.lib
    pairs = [("asca::lexer::Lexer::feature_match", "asca::alias::lexer::AliasLexer::feature_match"),
             ("asca::lexer::Lexer::string_match", "asca::alias::lexer::AliasLexer::string_match")]
    all_keys = set()
    for pa, pb in pairs:
        ba, ma, ta, da = feature_table(ctx, pa)
        bb, mb, tb, db = feature_table(ctx, pb)
        for which, b_, d_ in ((pa, ba, da), (pb, bb, db)):
            for sp in d_:
                r.report("TAB-5|dup|%s|%s" % (which, sp), fn_loc(b_), which, "spelling %r occurs in two arms" % sp)
        for sp in sorted(set(ta) | set(tb)):
            va = ta.get(sp, (None, None))
            vb = tb.get(sp, (None, None))
            ok = va[0] == vb[0] and va[0]
            r.inst("%r -> %s in both lexers" % (sp, "/".join(va[0] or ("?",))),
                   fn_loc(ba, va[1] or ma["ln"]), "ok" if ok else "report")
            if not ok:
                r.report("TAB-5|sibling|%s|%s" % (pa.rsplit("::", 1)[1], sp), fn_loc(ba if sp in ta else bb, va[1] or vb[1]),
                         pa if sp in ta else pb,
                         "spelling %r means %s in the rule lexer but %s in the alias lexer" % (sp, va[0], vb[0]))
            # lexable: the lexers lowercase the buffer, which holds ASCII letters and '.' only
            lexable = bool(re.fullmatch(r"[a-z.]+", sp))
            r.inst("%r is reachable (lower-case ascii letters and dots)" % sp, fn_loc(ba, va[1] or ma["ln"]),
                   "ok" if lexable else "report", nontrivial=False)
            if not lexable:
                r.report("TAB-5|unlexable|%s" % sp, fn_loc(ba, va[1] or ma["ln"]), pa,
                         "spelling %r can never be produced by the lexer's buffer (lower-cased letters and '.')" % sp)
        if pa.endswith("feature_match"):
            all_keys = set(ta)
    # FEAT_VARIANTS ⊆ keys
    fv = ctx.lib.body("asca::error::FEAT_VARIANTS")
    if fv is None or not fv.hir:
        raise AnchorMissing("asca::error::FEAT_VARIANTS not found")
    fvl = [n["lit"] for n in hirq.walk(fv.hir["body"]) if n["e"] == "lit" and n.get("lk") == "str"]
    if len(fvl) < 100:
        raise AnchorMissing("FEAT_VARIANTS has too few string literals (%d)" % len(fvl))
    missing = [s for s in fvl if s not in all_keys]
    r.inst("FEAT_VARIANTS (%d suggestions) are all accepted spellings" % len(fvl), fv.loc, "ok" if not missing else "report")
    for s in missing:
        r.report("TAB-5|FEAT_VARIANTS|%s" % s, fv.loc, fv.path, "'did you mean' suggests %r which feature_match does not accept" % s)
    r.analysed = {"spellings": len(all_keys), "feat_variants": len(fvl)}
    return r


# ---------------------------------------------------------------- TAB-4


def group_table(ctx, fn_path):
    lib = ctx.lib
    b = ctx.fn(lib, fn_path)
    ts = str_match_tables(b)
    if not ts:
        raise AnchorMissing("no letter table in " + fn_path)
    m, tbl, dups = max(ts, key=lambda x: len(x[1]))
    out = {}
    for letter, arm in tbl.items():
        feats = set()
        for n in hirq.walk(arm["body"]):
            if n["e"] == "path" and n.get("rk", "").startswith("Const") and n.get("path", "").startswith(fn_path + "::"):
                c = lib.body(n["path"])
                if c is None or not c.hir:
                    raise AnchorMissing("group const without body: " + n["path"])
                v = hirq.strip(c.hir["body"])
                if v.get("e") != "tup" or len(v["items"]) != 2:
                    raise AnchorMissing("group const not a (FType, ModKind) tuple: " + n["path"])
                ft = variant_of(hirq.strip(v["items"][0]).get("path", "?"))
                sign = None
                for q in hirq.walk(v["items"][1]):
                    if q["e"] == "path" and q.get("path", "").endswith("BinMod::Positive"):
                        sign = "+"
                    if q["e"] == "path" and q.get("path", "").endswith("BinMod::Negative"):
                        sign = "-"
                feats.add((ft, sign))
        out[letter] = (feats, arm["ln"])
    return b, m, out


def manual_groups(ctx, name_map):
    txt = ctx.read("doc/doc.md")
    m = re.search(r"^## Groupings\s*$(.*?)^## ", txt, re.S | re.M)
    if not m:
        raise AnchorMissing("doc/doc.md: section '## Groupings' not found")
    rows = {}
    for line in m.group(1).splitlines():
        mm = re.match(r"^([A-Z]) -> .*\(equiv[.,] to \[(.*?)\]\)", line)
        if not mm:
            continue
        feats = set()
        for part in mm.group(2).split(","):
            part = part.strip()
            sign, name = part[0], part[1:].strip().lower()
            key = name_map.get(name)
            ft = key[0][-1].split("::")[-1] if key else "?" + name
            feats.add((ft, sign))
        rows[mm.group(1)] = feats
    if len(rows) < 5:
        raise AnchorMissing("doc/doc.md: fewer than 5 group rows parsed")
    return rows


def tab4(ctx):
    r = RuleResult("TAB-4", "group letters: rule parser == alias parser == manual (doc/doc.md § Groupings)", floor=27)
    _, _, names, _ = feature_table(ctx, "asca::lexer::Lexer::feature_match")
    ba, ma, ta = group_table(ctx, "asca::parser::Parser::group_to_matrix")
    bb, mb, tb = group_table(ctx, "asca::alias::parser::AliasParser::group_to_matrix")
    man = manual_groups(ctx, names)

    def fmt(fs):
        return "[" + ", ".join(sorted("%s%s" % (s, f) for f, s in fs)) + "]"
    for letter in sorted(set(ta) | set(tb) | set(man)):
        fa = ta.get(letter, (None, ma["ln"]))
        fb = tb.get(letter, (None, mb["ln"]))
        fm = man.get(letter)
        ok = fa[0] is not None and fa[0] == fb[0]
        r.inst("group %s: rule parser == alias parser" % letter, fn_loc(ba, fa[1]), "ok" if ok else "report")
        if not ok:
            r.report("TAB-4|sibling|%s" % letter, fn_loc(ba, fa[1]), ba.path,
                     "group %s is %s in the rule parser but %s in the alias parser" % (
                         letter, fmt(fa[0]) if fa[0] is not None else "absent", fmt(fb[0]) if fb[0] is not None else "absent"))
        ok = fa[0] is not None and fm is not None and fa[0] == fm
        r.inst("group %s: rule parser == manual %s" % (letter, fmt(fm) if fm else "absent"), fn_loc(ba, fa[1]), "ok" if ok else "report")
        if not ok:
            r.report("TAB-4|manual|%s" % letter, fn_loc(ba, fa[1]), ba.path,
                     "group %s is %s in the code but the manual says %s" % (
                         letter, fmt(fa[0]) if fa[0] is not None else "absent", fmt(fm) if fm else "absent"))
        ok = fb[0] is not None and fm is not None and fb[0] == fm
        r.inst("group %s: alias parser == manual" % letter, fn_loc(bb, fb[1]), "ok" if ok else "report")
        if not ok and (fa[0] == fb[0]) is False:
            r.report("TAB-4|manual-alias|%s" % letter, fn_loc(bb, fb[1]), bb.path,
                     "group %s is %s in the alias parser but the manual says %s" % (
                         letter, fmt(fb[0]) if fb[0] is not None else "absent", fmt(fm) if fm else "absent"))
    r.analysed = {"letters": len(ta), "manual_rows": len(man)}
    return r


# ---------------------------------------------------------------- TAB-6


def char_table(body, scrut_pred=None):
    """largest match with char-literal patterns: {char: value-literal or None}"""
    best = None
    for m in hirq.matches(body):
        tbl = {}
        for arm in m["arms"]:
            v = hirq.strip(tail_value(arm["body"]) or {})
            val = v.get("lit") if v.get("e") == "lit" else None
            for p in hirq.flat_pats(arm["pat"]):
                if p.get("p") == "lit" and p.get("lk") == "char":
                    tbl[p["lit"]] = (val, arm["ln"])
        if tbl and (best is None or len(tbl) > len(best[1])):
            best = (m, tbl)
    if best is None:
        raise AnchorMissing("no char table in " + body.path)
    return best


def replace_chain(e):
    """[(from, to), ...] in application order for a.replace(x,y).replace(..) chains under e."""
    e = hirq.strip(e)
    if e.get("e") == "mcall" and e.get("name") == "replace" and (e.get("def") or "").endswith("str>::replace"):
        inner = replace_chain(e["recv"])
        a = [hirq.strip(x) for x in e["args"]]
        if len(a) == 2 and a[0].get("e") == "lit" and a[1].get("e") == "lit":
            return inner + [(a[0]["lit"], a[1]["lit"], e["ln"])]
        return inner + [(None, None, e["ln"])]
    return []


def all_replace_chains(body):
    """maximal replace chains of a body"""
    chains = []
    inner_nodes = set()
    nodes = [n for n in hirq.walk(body.hir["body"]) if n["e"] == "mcall" and n.get("name") == "replace"
             and (n.get("def") or "").endswith("str>::replace")]
    for n in nodes:
        rc = hirq.strip(n["recv"])
        if rc.get("e") == "mcall" and rc.get("name") == "replace":
            inner_nodes.add(id(rc))
    for n in nodes:
        if id(n) not in inner_nodes:
            chains.append(replace_chain(n))
    return chains


def manual_alias_blocks(ctx):
    txt = ctx.read("doc/doc.md")
    m = re.search(r"^### Inbuilt Aliases\s*$(.*?)^### ", txt, re.S | re.M)
    if not m:
        raise AnchorMissing("doc/doc.md: '### Inbuilt Aliases' not found")
    sec = m.group(1)
    blocks = re.findall(r"```\n(.*?)```", sec, re.S)
    if len(blocks) < 2:
        raise AnchorMissing("doc/doc.md: Inbuilt Aliases: expected two code blocks")
    first, amer = blocks[0], blocks[1]
    in_rule, word_only = {}, {}
    cur = in_rule
    for line in first.splitlines():
        if "cannot be used inside a rule" in line:
            cur = word_only
            continue
        mm = re.match(r"^(\S+) => (\S+)", line)
        if mm:
            cur[mm.group(1)] = mm.group(2)
    am = {}
    for line in amer.splitlines():
        mm = re.match(r"^(\S+) => (\S+)", line)
        if mm:
            am[mm.group(1)] = mm.group(2)
    if len(in_rule) < 3 or len(word_only) < 10 or len(am) < 3:
        raise AnchorMissing("doc/doc.md: Inbuilt Aliases tables too small (%d/%d/%d)" % (len(in_rule), len(word_only), len(am)))
    return in_rule, word_only, am


def tab6(ctx):
    r = RuleResult("TAB-6", "word/lexer respelling tables vs manual, lexer siblings, americanist inverse, render marks ⊆ reader", floor=55)
    lib = ctx.lib
    in_rule, word_only, amer = manual_alias_blocks(ctx)
    # Word::to_ipa == manual (both halves)
    tb = ctx.fn(lib, "asca::word::Word::to_ipa")
    m, tbl = char_table(tb)
    want = dict(in_rule)
    want.update(word_only)
    # words pass through lib.rs `normalise` first: its single-char rows that the manual documents count as word input rows
    nb = ctx.fn(lib, "asca::normalise")
    for nm in hirq.matches(nb):
        for arm in nm["arms"]:
            pushed = [hirq.strip(a).get("lit") for n in hirq.walk(arm["body"]) if n["e"] == "mcall" and n.get("name") in ("push", "push_str")
                      for a in n["args"] if hirq.strip(a).get("e") == "lit"]
            for p in hirq.flat_pats(arm["pat"]):
                if p.get("p") == "lit" and p.get("lk") == "char" and len(pushed) == 1 and p["lit"] in want and p["lit"] not in tbl:
                    tbl[p["lit"]] = (pushed[0], arm["ln"])
    for ch in sorted(set(tbl) | set(want)):
        got = tbl.get(ch, (None, m["ln"]))
        ok = got[0] == want.get(ch)
        r.inst("word input %r => %r (manual: %r)" % (ch, got[0], want.get(ch)), fn_loc(tb, got[1]), "ok" if ok else "report")
        if not ok:
            r.report("TAB-6|to_ipa|%s" % ch, fn_loc(tb, got[1]), tb.path,
                     "input alias %r maps to %r in Word::to_ipa but the manual says %r" % (ch, got[0], want.get(ch)))
    # lexer cur_as_ipa siblings == manual in-rule subset + single-char americanist pairs
    la = ctx.fn(lib, "asca::lexer::Lexer::cur_as_ipa")
    lb = ctx.fn(lib, "asca::alias::lexer::AliasLexer::cur_as_ipa")
    ma_, ta = char_table(la)
    mb_, tb_ = char_table(lb)
    want_lex = dict(in_rule)
    for k, v in amer.items():
        if len(k) == 1 and len(v) == 1:
            want_lex[k] = v
    for ch in sorted(set(ta) | set(tb_) | set(want_lex)):
        ga = ta.get(ch, (None, ma_["ln"]))
        gb = tb_.get(ch, (None, mb_["ln"]))
        ok = ga[0] == gb[0] == want_lex.get(ch)
        r.inst("rule/alias lexers %r => %r (manual: %r)" % (ch, ga[0], want_lex.get(ch)), fn_loc(la, ga[1]), "ok" if ok else "report")
        if not ok:
            r.report("TAB-6|cur_as_ipa|%s" % ch, fn_loc(la, ga[1]), la.path,
                     "alias %r: rule lexer %r, alias lexer %r, manual %r" % (ch, ga[0], gb[0], want_lex.get(ch)))
    # Word::new replace chains
    wn = ctx.fn(lib, "asca::word::Word::new")
    chains = all_replace_chains(wn)
    if len(chains) < 2:
        raise AnchorMissing("Word::new: expected two replace chains (marks, americanist)")
    marks = {"'": "ˈ", ",": "ˌ", ":": "ː", ";": "ː."}   # manual §Suprasegmentals + property statement
    doc = ctx.read("doc/doc.md")
    for a, b_ in marks.items():
        if a not in doc:
            raise AnchorMissing("manual no longer mentions %r" % a)
    norm_chain = [c for c in chains if any(x[0] in marks for x in c)]
    amer_chain = [c for c in chains if any(x[0] in amer for x in c)]
    if len(norm_chain) != 1 or len(amer_chain) != 1:
        raise AnchorMissing("Word::new: cannot identify the mark and americanist replace chains")
    got = {a: b_ for a, b_, _ in norm_chain[0]}
    for a in sorted(set(got) | set(marks)):
        ok = got.get(a) == marks.get(a)
        r.inst("word input %r => %r" % (a, marks.get(a)), fn_loc(wn, norm_chain[0][0][2]), "ok" if ok else "report")
        if not ok:
            r.report("TAB-6|Word::new|mark|%s" % a, fn_loc(wn, norm_chain[0][0][2]), wn.path,
                     "Word::new replaces %r by %r; documented respelling is %r" % (a, got.get(a), marks.get(a)))
    gota = {a: b_ for a, b_, _ in amer_chain[0]}
    for a in sorted(set(gota) | set(amer)):
        ok = gota.get(a) == amer.get(a)
        r.inst("americanist input %r => %r" % (a, amer.get(a)), fn_loc(wn, amer_chain[0][0][2]), "ok" if ok else "report")
        if not ok:
            r.report("TAB-6|Word::new|amer|%s" % a, fn_loc(wn, amer_chain[0][0][2]), wn.path,
                     "Word::new replaces %r by %r; the manual says %r" % (a, gota.get(a), amer.get(a)))
    # render_normal: exact inverse, and no earlier replacement produces/consumes the source of a later one
    rn = ctx.fn(lib, "asca::word::Word::render_normal")
    rch = all_replace_chains(rn)
    if len(rch) != 1:
        raise AnchorMissing("render_normal: expected one replace chain")
    inv = {b_: a for a, b_, _ in rch[0]}
    for a, b_ in gota.items():
        ok = inv.get(a) == b_
        r.inst("render inverse %r <= %r" % (a, b_), fn_loc(rn, rch[0][0][2]), "ok" if ok else "report")
        if not ok:
            r.report("TAB-6|render_normal|inverse|%s" % a, fn_loc(rn, rch[0][0][2]), rn.path,
                     "render_normal turns %r back into %r, Word::new read %r from %r" % (b_, inv.get(a), b_, a))
    extra = [b_ for b_ in inv if b_ not in gota]
    if extra:
        r.report("TAB-6|render_normal|extra", fn_loc(rn, rch[0][0][2]), rn.path, "render_normal emits %s that Word::new does not read" % extra)
    seq = rch[0]
    for i, (src_i, dst_i, ln) in enumerate(seq):
        for (src_j, dst_j, _) in seq[i + 1:]:
            # an earlier replacement must not destroy or create an occurrence of a later, longer source
            bad = (src_j is not None and src_i is not None and src_i != src_j and src_i in src_j)
            r.inst("render order: %r before %r" % (src_i, src_j), fn_loc(rn, ln), "ok" if not bad else "report", nontrivial=bad or (src_j in src_i if src_i and src_j else False))
            if bad:
                r.report("TAB-6|render_normal|order|%s|%s" % (src_i, src_j), fn_loc(rn, ln), rn.path,
                         "replacing %r before %r destroys the longer sequence" % (src_i, src_j))
    # same ordering law for the reading side
    seq = amer_chain[0]
    for i, (src_i, dst_i, ln) in enumerate(seq):
        for (src_j, dst_j, _) in seq[i + 1:]:
            bad = src_j is not None and dst_i is not None and src_j in dst_i
            if bad:
                r.report("TAB-6|Word::new|order|%s|%s" % (src_i, src_j), fn_loc(wn, ln), wn.path,
                         "replacement of %r produces %r, which contains the later source %r" % (src_i, dst_i, src_j))
    # writer marks ⊆ reader tests
    setup = ctx.fn(lib, "asca::word::Word::setup")
    reader_chars = set()
    for n in hirq.walk(setup.hir["body"]):
        if n["e"] == "binary" and n["op"] in ("Eq", "Ne"):
            for side in ("a", "b"):
                s_ = hirq.strip(n[side])
                if s_.get("e") == "lit" and s_.get("lk") == "char":
                    reader_chars.add(s_["lit"])
    writer_chars = set()
    rn_marks_root = hirq.inline_helpers(lib, rn, keep={"asca::word::Word::render_normal", "asca::word::Word::render"}, only_if=lambda cb: any(
        q["e"] == "mcall" and q["name"] == "push" and hirq.strip(q["args"][0]).get("lk") == "char" for q in hirq.walk(cb.hir["body"])))
    for n in hirq.walk(rn_marks_root):
        if n["e"] == "mcall" and n.get("name") == "push" and (n.get("def") or "").endswith("String::push"):
            a = hirq.strip(n["args"][0])
            if a.get("e") == "lit" and a.get("lk") == "char":
                writer_chars.add(a["lit"])
    if len(writer_chars) < 4:
        raise AnchorMissing("render_normal: fewer than 4 pushed marks found")
    for ch in sorted(writer_chars):
        ok = ch in reader_chars
        r.inst("mark %r written by render_normal is read by Word::setup" % ch, fn_loc(rn), "ok" if ok else "report")
        if not ok:
            r.report("TAB-6|mark|%s" % ch, fn_loc(rn), rn.path,
                     "render_normal writes %r but Word::setup has no test for it (reads %s)" % (ch, sorted(reader_chars)))
    r.analysed = {"to_ipa_rows": len(tbl), "lexer_rows": len(ta), "marks": len(writer_chars)}
    return r


# ---------------------------------------------------------------- SYN-1

TEST_METHODS = ("expect", "peek_expect", "eat_expect")


def kind_tests(body, enum_suffix):
    """Count tests of each token-kind constant in one function: calls of expect-like
    helpers with the constant, ==/!= comparisons with it, and patterns naming it."""
    counts = {}

    def add(path, ln):
        counts.setdefault(variant_of(path), []).append(ln)

    def is_kind(n):
        return n.get("e") == "path" and n.get("rk", "").startswith("ctor") and (
            "::" + enum_suffix + "::") in (n.get("path") or "")
    for n in hirq.walk(body.hir["body"]):
        if n["e"] == "mcall" and n.get("name") in TEST_METHODS:
            for a in n["args"]:
                a = hirq.strip(a)
                if is_kind(a):
                    add(a["path"], n["ln"])
        elif n["e"] == "binary" and n["op"] in ("Eq", "Ne"):
            for side in ("a", "b"):
                s_ = hirq.strip(n[side])
                if is_kind(s_):
                    add(s_["path"], n["ln"])
        elif n["e"] == "match" or n["e"] == "letcond":
            pats = [a["pat"] for a in n["arms"]] if n["e"] == "match" else [n["pat"]]
            for p0 in pats:
                for p in hirq.walk_pats(p0):
                    if p.get("p") in ("path", "ts") and ("::" + enum_suffix + "::") in (p.get("path") or ""):
                        add(p["path"], n["ln"])
    return counts


def lexer_kinds_for(ctx, fn_paths, spelling, enum_suffix):
    """Token kinds the lexer constructs for `spelling` (char table arm, nested match for 2-char spellings)."""
    kinds = set()
    found = False
    for fp in fn_paths:
        b = ctx.lib.body(fp)
        if b is None or not b.hir:
            continue
        def is_char_match(x):
            return any(p.get("lk") == "char" for a in x["arms"] for p in hirq.flat_pats(a["pat"]))
        nested = set()
        for m in hirq.matches(b):
            if is_char_match(m):
                for arm in m["arms"]:
                    for x in hirq.walk(arm["body"]):
                        if x["e"] == "match":
                            nested.add(id(x))
        for m in hirq.matches(b):
            if id(m) in nested or not is_char_match(m):
                continue
            for arm in m["arms"]:
                chars = [p["lit"] for p in hirq.flat_pats(arm["pat"]) if p.get("p") == "lit" and p.get("lk") == "char"]
                if spelling[0] not in chars:
                    continue
                # skip nested matches that belong to an enclosing arm of another char (handled when visited as outer)
                node = arm["body"]
                inner = [x for x in hirq.walk(node) if x["e"] == "match"]
                inner = [x for x in inner if any(p.get("lk") == "char" for a in x["arms"] for p in hirq.flat_pats(a["pat"]))]
                if len(spelling) > 1:
                    for im in inner:
                        for a2 in im["arms"]:
                            c2 = [p["lit"] for p in hirq.flat_pats(a2["pat"]) if p.get("p") == "lit" and p.get("lk") == "char"]
                            if spelling[1] in c2:
                                found = True
                                kinds |= {variant_of(x["path"]) for x in hirq.walk(a2["body"])
                                          if x["e"] == "path" and ("::" + enum_suffix + "::") in (x.get("path") or "")}
                else:
                    found = True
                    if inner:
                        for im in inner:
                            for a2 in im["arms"]:
                                if any(p.get("p") in ("wild", "bind") for p in hirq.flat_pats(a2["pat"])):
                                    kinds |= {variant_of(x["path"]) for x in hirq.walk(a2["body"])
                                              if x["e"] == "path" and ("::" + enum_suffix + "::") in (x.get("path") or "")}
                        # kinds assigned outside nested matches
                        inner_ids = set()
                        for im in inner:
                            for x in hirq.walk(im):
                                inner_ids.add(id(x))
                        kinds |= {variant_of(x["path"]) for x in hirq.walk(node)
                                  if id(x) not in inner_ids and x["e"] == "path" and ("::" + enum_suffix + "::") in (x.get("path") or "")}
                    else:
                        kinds |= {variant_of(x["path"]) for x in hirq.walk(node)
                                  if x["e"] == "path" and ("::" + enum_suffix + "::") in (x.get("path") or "")}
    return found, kinds


# documented synonym classes (property statement / doc.md): spellings, and kinds that belong to another role
SYN_CLASSES = [
    ("arrow", [">", "=>", "->"], {"RightAngle"}),          # '>' closes ⟨ ⟩ when inside a structure
    ("except-separator", ["|", "//"], set()),
    ("empty", ["*", "∅"], set()),
    ("ellipsis", ["..", "…"], set()),
    ("left-angle", ["⟨", "<"], set()),
    ("right-angle", ["⟩", ">"], {"GreaterThan"}),
]


def syn1(ctx):
    r = RuleResult("SYN-1", "synonymous spellings lex to one kind, or their kinds are co-tested in every parser function", floor=25)
    lib = ctx.lib
    grammars = [
        ("rule", "TokenKind", "asca::parser::Parser::", ["asca::lexer::Lexer::get_special_char", "asca::lexer::Lexer::get_bracket"]),
        ("alias", "AliasTokenKind", "asca::alias::parser::AliasParser::",
         ["asca::alias::lexer::AliasLexer::get_special_char", "asca::alias::lexer::AliasLexer::get_bracket"]),
    ]
    for gname, enum_suffix, impl_prefix, lex_fns in grammars:
        enum_path = [p for p in lib.adts if p.endswith("::" + enum_suffix)]
        if len(enum_path) != 1:
            raise AnchorMissing("token kind enum %s not found" % enum_suffix)
        kinds_all = set(variants(lib.adts[enum_path[0]]))
        present = [lib.body(f) for f in lex_fns if lib.body(f) is not None]
        if not present:
            raise AnchorMissing("lexer table functions not found for the %s grammar" % gname)
        pairs = []
        for cname, spellings, foreign in SYN_CLASSES:
            ks = set()
            n_found = 0
            for sp in spellings:
                found, k = lexer_kinds_for(ctx, lex_fns, sp, enum_suffix)
                if gname == "rule":
                    r.inst("rule lexer has an arm for %r (%s) -> %s" % (sp, cname, sorted(k - foreign)), fn_loc(present[0]),
                           "ok" if found and (k - foreign) else "report")
                    if not found or not (k - foreign):
                        r.report("SYN-1|lexer|%s|%s" % (gname, sp), fn_loc(present[0]), lex_fns[0],
                                 "documented spelling %r of the %s has no lexer arm producing a token kind" % (sp, cname))
                if found:
                    n_found += 1
                ks |= (k - foreign)
            if len(ks) > 1:
                pairs.append((cname, sorted(ks)))
        # Eol ≍ Comment at follow-set positions (armed only when the grammar has a Comment kind)
        parser_fns = [b for b in lib.bodies if b.path.startswith(impl_prefix) and b.kind == "assoc_fn" and b.hir
                      and not b.in_test_mod()]
        if len(parser_fns) < 15:
            raise AnchorMissing("parser impl %s: only %d functions found" % (impl_prefix, len(parser_fns)))
        n_checked = 0
        for b in parser_fns:
            kt = kind_tests(b, enum_suffix)
            # the primitive helpers compare with their parameter, not with a constant
            for cname, ks in pairs:
                cnt = {k: len(kt.get(k, [])) for k in ks}
                if not any(cnt.values()):
                    continue
                n_checked += 1
                ok = len(set(cnt.values())) == 1
                r.inst("%s parser %s: %s tests %s" % (gname, b.path.rsplit("::", 1)[1], cname, cnt), fn_loc(b),
                       "ok" if ok else "report")
                if not ok:
                    lo = min(cnt, key=lambda k: cnt[k])
                    hi = max(cnt, key=lambda k: cnt[k])
                    lines = kt.get(hi, [])
                    r.report("SYN-1|%s|%s|%s" % (b.path, cname, lo), fn_loc(b, lines[0] if lines else None), b.path,
                             "%s is tested %d time(s) but its synonym %s only %d time(s): some position accepts one spelling of the %s and rejects the other"
                             % (hi, cnt[hi], lo, cnt[lo], cname), counts=cnt, lines={k: kt.get(k, []) for k in ks})
            if "Comment" in kinds_all and "Eol" in kinds_all:
                ce, cc = len(kt.get("Eol", [])), len(kt.get("Comment", []))
                seps = any(kt.get(k) for k in ("Slash", "Pipe", "DubSlash"))
                # armed at follow-set positions: the function tests the end of line together with a
                # separator or a comment (a bare `!= Comment` in the token cursor is not a follow set)
                if (ce and (cc or seps)) or (cc and seps):
                    n_checked += 1
                    ok = ce == cc
                    r.inst("%s parser %s: end-of-rule tests Eol=%d Comment=%d" % (gname, b.path.rsplit("::", 1)[1], ce, cc),
                           fn_loc(b), "ok" if ok else "report")
                    if not ok:
                        lines = kt.get("Eol", []) or kt.get("Comment", [])
                        r.report("SYN-1|%s|eol-comment" % b.path, fn_loc(b, lines[0] if lines else None), b.path,
                                 "Eol is tested %d time(s) but Comment %d time(s) at a follow-set position: a trailing `;;` comment is not accepted wherever the end of line is"
                                 % (ce, cc))
        r.analysed["%s_parser_fns" % gname] = len(parser_fns)
        r.analysed["%s_pairs" % gname] = [p[0] for p in pairs]
        r.analysed["%s_sites" % gname] = n_checked
    return r


# ---------------------------------------------------------------- SHR-1 (C12: condensed rules)

LISTS = ("input", "output", "context", "except")


_LIST_ALIAS = {}     # HirId of a helper parameter -> the list of `self` it was given (`let items = &self.input`)


def _self_fields(node):
    out = set()
    for n in hirq.walk(node):
        if n["e"] == "field" and n["name"] in LISTS and hirq.strip(n["a"]).get("local") == "self":
            out.add(n["name"])
        if n["e"] == "path" and n.get("hid") in _LIST_ALIAS:
            out.add(_LIST_ALIAS[n["hid"]])
    return out


def _list_of(base):
    """which of self's four lists an indexed expression is (directly, or through a helper parameter bound to it)"""
    base = hirq.strip(base)
    while isinstance(base, dict) and base.get("e") == "unary" and base.get("op") == "Deref":
        base = hirq.strip(base["a"])
    if base.get("e") == "field" and base["name"] in LISTS and hirq.strip(base["a"]).get("local") == "self":
        return base["name"]
    if base.get("e") == "path" and base.get("hid") in _LIST_ALIAS:
        return _LIST_ALIAS[base["hid"]]
    return None


def shr1(ctx):
    r = RuleResult("SHR-1", "condensed rules: each of the four lists is broadcast by its own length test (singleton shared, else element i)", floor=8)
    lib = ctx.lib
    b = ctx.fn(lib, "asca::rule::Rule::split_into_subrules")
    # a helper that picks "the only element, else the i-th" is looked through: its parameter stands for the list it is given
    root = hirq.inline_helpers(lib, b, prefixes=("asca::rule::",), max_depth=2)
    _LIST_ALIAS.clear()
    for n in hirq.walk(root):
        if n["e"] == "let" and n.get("inl_param") and (n.get("pat") or {}).get("p") == "bind" and n.get("init") is not None:
            f0 = hirq.strip(n["init"])
            if f0.get("e") == "field" and f0["name"] in LISTS and hirq.strip(f0["a"]).get("local") == "self":
                _LIST_ALIAS[n["pat"]["hid"]] = f0["name"]
    # let-bound index variables whose value is chosen by a length test
    idx_cond = {}
    for n in hirq.walk(root):
        if n["e"] == "let" and n["pat"].get("p") == "bind" and n.get("init") is not None:
            i0 = hirq.strip(n["init"])
            if i0.get("e") == "if":
                fs = _self_fields(i0["cond"])
                if fs:
                    idx_cond[n["pat"].get("hid", n["pat"]["name"])] = (fs, n["ln"])
    n_acc = 0

    def visit(node, conds):
        nonlocal n_acc
        if isinstance(node, dict):
            if node.get("e") == "if":
                visit(node["cond"], conds)
                c2 = conds + [_self_fields(node["cond"])]
                visit(node["then"], c2)
                if node.get("else") is not None:
                    visit(node["else"], c2)
                return
            acc = None
            if node.get("e") == "index":
                fld0 = _list_of(node["a"])
                if fld0:
                    acc = (fld0, node["i"], node["ln"])
            if node.get("e") == "mcall" and node["name"] in ("get", "get_mut"):
                fld0 = _list_of(node["recv"])
                if fld0 and node["args"]:
                    acc = (fld0, node["args"][0], node["ln"])
            if acc:
                fld, idx, ln = acc
                i0 = hirq.strip(idx)
                governing = set()
                for c in conds:
                    governing |= c
                if i0.get("e") == "path" and "local" in i0 and i0.get("hid", i0["local"]) in idx_cond:
                    governing |= idx_cond[i0.get("hid", i0["local"])][0]
                if governing and not (i0.get("e") == "lit" and not conds):
                    n_acc += 1
                    ok = governing == {fld}
                    r.inst("self.%s[..] is selected under a length test of %s" % (fld, sorted(governing)), fn_loc(b, ln), "ok" if ok else "report")
                    if not ok:
                        r.report("SHR-1|%s|%s" % (fld, "+".join(sorted(governing))), fn_loc(b, ln), b.path,
                                 "the element of `%s` used for a sub-rule is chosen by the length of %s: lists of different shapes are broadcast wrongly"
                                 % (fld, sorted(governing - {fld}) or sorted(governing)))
            for v in node.values():
                if isinstance(v, (dict, list)):
                    visit(v, conds)
        elif isinstance(node, list):
            for v in node:
                if isinstance(v, (dict, list)):
                    visit(v, conds)
    visit(root, [])
    if n_acc < 8 and not r.reports:
        raise AnchorMissing("split_into_subrules: only %d guarded list accesses found" % n_acc)
    return r


# ---------------------------------------------------------------- TAB-6b (C13: input aliases apply to every character read)


def tab6b(ctx):
    r = RuleResult("TAB-6b", "every character of the word / rule text that enters a grapheme lookup buffer passes through the input-alias mapping (Word::to_ipa, cur_as_ipa)", floor=30)
    lib = ctx.lib
    b = ctx.fn(lib, "asca::word::Word::fill_segments")
    txt = None
    for i, nme in enumerate(b.param_names):
        if b.param_tys[i] == "&[char]":
            txt = nme
    if txt is None:
        raise AnchorMissing("fill_segments: no `&[char]` parameter")
    from engine_err import single_lets

    def from_txt(e, depth=0):
        e = hirq.strip(e)
        if depth > 6 or not isinstance(e, dict):
            return False
        for n in hirq.walk(e):
            if n["e"] == "path" and n.get("local") == txt:
                return True
        return False
    lets = single_lets(b.hir["body"])
    n = 0
    for nd in hirq.walk(b.hir["body"]):
        if nd["e"] == "mcall" and nd["name"] in ("push", "push_str", "insert") and (nd.get("def") or "").startswith("alloc::string::String::"):
            a = hirq.strip(nd["args"][-1])
            src = a
            via = None
            if a.get("e") == "path" and "local" in a and a["local"] in lets:
                src = hirq.strip(lets[a["local"]])
            raw = False
            if src.get("e") == "lit":
                via = "literal"
            elif (src.get("e") == "mcall" and (src.get("def") or "") == "asca::word::Word::to_ipa") or (
                    src.get("e") == "call" and (hirq.strip(src["f"]).get("path") or "") == "asca::word::Word::to_ipa"):
                via = "to_ipa"
            elif from_txt(src):
                raw = True
            else:
                via = "other"
            if via == "other" and not raw:
                continue
            n += 1
            r.inst("fill_segments: %s(%s) into a lookup buffer" % (nd["name"], via or "raw text character"), fn_loc(b, nd["ln"]), "ok" if not raw else "report")
            if raw:
                r.report("TAB-6b|fill_segments|raw-push", fn_loc(b, nd["ln"]), b.path,
                         "a character read from the word text is pushed into the grapheme buffer without Word::to_ipa: the documented input aliases (S Z C G ... g ? !) do not apply at this position")
    # the first character of a grapheme
    firsts = [nd for nd in hirq.walk(b.hir["body"]) if nd["e"] == "mcall" and nd["name"] == "to_string" and from_txt(nd["recv"])]
    for nd in firsts:
        rc_ = hirq.strip(nd["recv"])
        ok = (rc_.get("e") == "mcall" and (rc_.get("def") or "") == "asca::word::Word::to_ipa") or (
            rc_.get("e") == "call" and (hirq.strip(rc_["f"]).get("path") or "") == "asca::word::Word::to_ipa")
        n += 1
        r.inst("fill_segments: grapheme buffer starts from to_ipa(text char)", fn_loc(b, nd["ln"]), "ok" if ok else "report")
        if not ok:
            r.report("TAB-6b|fill_segments|raw-first", fn_loc(b, nd["ln"]), b.path, "the first character of a grapheme is taken from the text without Word::to_ipa")
    if n < 6:
        raise AnchorMissing("fill_segments: only %d buffer writes found" % n)
    # the rule and alias lexers: every character that enters the phone buffer of get_ipa is read through cur_as_ipa
    for lp in ("asca::lexer::Lexer", "asca::alias::lexer::AliasLexer"):
        lb = ctx.fn(lib, lp + "::get_ipa")
        llets = single_lets(lb.hir["body"])

        def classify(e, depth=0):
            e = hirq.strip(e)
            if e.get("e") == "lit":
                return "literal"
            if e.get("e") == "mcall" and (e.get("def") or "") == lp + "::cur_as_ipa":
                return "cur_as_ipa"
            if e.get("e") == "mcall" and (e.get("def") or "") == lp + "::curr_char":
                return "raw"
            if e.get("e") == "path" and "local" in e and e["local"] in llets and depth < 4:
                return classify(llets[e["local"]], depth + 1)
            if e.get("e") == "mcall" and e["name"] in ("to_string", "clone", "to_owned", "into"):
                return classify(e["recv"], depth + 1)
            return "other"
        m = 0
        for nd in hirq.walk(lb.hir["body"]):
            via = None
            if nd["e"] == "mcall" and nd["name"] in ("push", "push_str", "insert") and (nd.get("def") or "").startswith("alloc::string::String::"):
                via = classify(nd["args"][-1])
            elif nd["e"] == "let" and nd["pat"].get("p") == "bind" and nd["pat"].get("ty") == "alloc::string::String" and nd.get("init") is not None:
                via = classify(nd["init"])
                if via == "other":
                    via = None
            if via is None or via == "other":
                continue
            m += 1
            r.inst("%s::get_ipa: phone buffer receives %s" % (lp.rsplit("::", 1)[-1], via), fn_loc(lb, nd["ln"]), "ok" if via != "raw" else "report")
            if via == "raw":
                r.report("TAB-6b|%s::get_ipa|raw-push" % lp.rsplit("::", 1)[-1], fn_loc(lb, nd["ln"]), lb.path,
                         "a character of the rule text enters the phone buffer without cur_as_ipa: the documented in-rule aliases (g ? ! ǝ φ ...) do not apply at this position of a multi-character phone")
        if m < 3:
            raise AnchorMissing("%s::get_ipa: only %d buffer writes found" % (lp, m))
    return r


# ---------------------------------------------------------------- SHR-2 (alias term lists)

VEC_ITEM = "alloc::vec::Vec<asca::alias::parser::AliasItem>"


def _chain(e):
    """method-call chain of an expression, innermost receiver first: (root expr, [names])"""
    names = []
    e = hirq.strip(e)
    while e.get("e") == "mcall":
        names.append(e["name"])
        e = hirq.strip(e["recv"])
    while e.get("e") in ("addr", "unary"):
        e = hirq.strip(e["a"])
    return e, list(reversed(names))


def shr2(ctx):
    """each Transformation of an alias line pairs element i of its own side's term list, a singleton list being shared"""
    r = RuleResult("SHR-2", "alias lines: the input / output of every Transformation come from the input / output term list, each list broadcast by its own singleton test (or cycled)", floor=4)
    lib = ctx.lib
    for fname in ("get_deromaniser", "get_romaniser"):
        b = ctx.fn(lib, "asca::alias::parser::AliasParser::" + fname)
        # a helper that builds the Transformations is looked through
        root = hirq.inline_helpers(lib, b, only_if=lambda cb: any(n["e"] == "struct" and n.get("path") == TRANSF_PATH for n in hirq.walk(cb.hir["body"])))
        # the two term lists, in source order
        lists = [(n["pat"]["hid"], n["pat"]["name"], n["ln"]) for n in hirq.walk(root)
                 if n["e"] == "let" and not n.get("inl_param") and n["pat"].get("p") == "bind" and n["pat"].get("ty") == VEC_ITEM and n.get("init") is not None
                 and any(m["e"] == "mcall" and (m.get("def") or "").startswith("asca::alias::parser::AliasParser::") for m in hirq.walk(n["init"]))]
        if len(lists) != 2:
            raise AnchorMissing("%s: expected two parsed term lists, found %r" % (fname, [x[1] for x in lists]))
        lists.sort(key=lambda x: x[2])
        side_of = {lists[0][0]: "input", lists[1][0]: "output"}
        name_of = {h: nm for h, nm, _ in lists}
        lets = {n["pat"]["hid"]: n["init"] for n in hirq.walk(root) if n["e"] == "let" and n["pat"].get("p") == "bind" and n.get("init") is not None and "hid" in n["pat"]}
        # a binding that merely renames a list (helper parameter) is that list
        changed = True
        while changed:
            changed = False
            for h, init in lets.items():
                src_h = hirq.path_hid(init) if hirq.strip(init).get("e") in ("path", "addr", "unary") else None
                if h not in side_of and src_h in side_of:
                    side_of[h] = side_of[src_h]
                    name_of[h] = name_of[src_h]
                    changed = True
        # closure parameters bound from iterator chains: hid -> (list hid, chain names)
        param_src = {}
        for n in hirq.walk(root):
            if n["e"] != "mcall":
                continue
            cl = [hirq.strip(a) for a in n["args"] if hirq.strip(a).get("e") == "closure"]
            if not cl or not cl[0].get("params"):
                continue
            # receiver chain: ... .zip(B) ... or plain chain
            rc = hirq.strip(n["recv"])
            zips = None
            e = rc
            post = []
            while e.get("e") == "mcall":
                if e["name"] == "zip":
                    zips = e
                    break
                post.append(e["name"])
                e = hirq.strip(e["recv"])
            pat = cl[0]["params"][0]
            if zips is not None and pat.get("p") == "tup" and len(pat["pats"]) == 2:
                for sub, src in ((pat["pats"][0], zips["recv"]), (pat["pats"][1], zips["args"][0])):
                    rt, names = _chain(src)
                    for q in hirq.walk_pats(sub):
                        if q.get("p") == "bind" and rt.get("e") == "path" and rt.get("hid") in side_of:
                            param_src[q["hid"]] = (rt["hid"], names)
            elif zips is None:
                rt, names = _chain(rc)
                for q in hirq.walk_pats(pat):
                    if q.get("p") == "bind" and rt.get("e") == "path" and rt.get("hid") in side_of:
                        param_src[q["hid"]] = (rt["hid"], names)
        # governing conditions of every expression (if-nesting)
        conds_of = {}

        def visit(node, conds):
            if isinstance(node, dict):
                if node.get("e") == "if":
                    visit(node["cond"], conds)
                    c2 = conds + [node["cond"]]
                    visit(node["then"], c2)
                    if node.get("else") is not None:
                        visit(node["else"], c2)
                    return
                if node.get("e") == "index":
                    conds_of[id(node)] = conds
                for v in node.values():
                    if isinstance(v, (dict, list)):
                        visit(v, conds)
            elif isinstance(node, list):
                for v in node:
                    visit(v, conds)
        visit(root, [])

        def len_tested(cond):
            return {m["recv"]["hid"] for m in hirq.walk(cond) if m["e"] == "mcall" and m["name"] == "len"
                    and hirq.strip(m["recv"]).get("e") == "path" and hirq.strip(m["recv"]).get("hid") in side_of
                    for m in [dict(m, recv=hirq.strip(m["recv"]))]}

        def provenance(e, depth=0):
            """-> list of (list hid, how, ok, why)"""
            e = hirq.strip(e)
            out = []
            if depth > 6:
                return out
            while e.get("e") == "mcall" and e["name"] in ("clone", "to_owned", "unwrap", "expect"):
                e = hirq.strip(e["recv"])
            while e.get("e") in ("addr", "unary"):
                e = hirq.strip(e["a"])
            if e.get("e") == "path" and "hid" in e:
                h = e["hid"]
                if h in param_src:
                    lh, names = param_src[h]
                    ok = "cycle" in names
                    out.append((lh, "iterator " + ".".join(names), ok, "the iterator over `%s` is not cycled: a singleton list is not shared with the other side's elements" % name_of[lh]))
                elif h in lets:
                    out += provenance(lets[h], depth + 1)
                return out
            for n in hirq.walk(e):
                if n["e"] == "index":
                    a = hirq.strip(n["a"])
                    if a.get("e") == "path" and a.get("hid") in side_of:
                        i0 = hirq.strip(n["i"])
                        if i0.get("e") == "lit":
                            tested = set()
                            for c in conds_of.get(id(n), []):
                                tested |= len_tested(c)
                            out.append((a["hid"], "[%s]" % i0["lit"], tested == {a["hid"]} or not conds_of.get(id(n)),
                                        "the fixed element of `%s` is chosen by the length of %s" % (name_of[a["hid"]], sorted(name_of[t] for t in tested))))
                        else:
                            tested = set()
                            for c in conds_of.get(id(n), []):
                                tested |= len_tested(c)
                            out.append((a["hid"], "[i]", tested == {a["hid"]},
                                        "element i of `%s` is selected %s" % (name_of[a["hid"]], ("under a length test of " + str(sorted(name_of[t] for t in tested))) if tested else "without a singleton test")))
            return out

        n_tr = 0
        for n in hirq.walk(root):
            if n["e"] == "struct" and n.get("path") == TRANSF_PATH:
                n_tr += 1
                for fld, val in n["fields"]:
                    if fld not in ("input", "output"):
                        continue
                    prov = provenance(val)
                    srcs = {side_of[h] for h, _, _, _ in prov}
                    bad = [p for p in prov if not p[2]]
                    ok = bool(prov) and srcs == {fld} and not bad
                    r.inst("%s: Transformation.%s <- %s" % (fname, fld, sorted({"%s%s" % (name_of[h], how) for h, how, _, _ in prov})), fn_loc(b, n["ln"]), "ok" if ok else "report")
                    if not prov:
                        r.report("SHR-2|%s|%s|unknown-source" % (fname, fld), fn_loc(b, n["ln"]), b.path,
                                 "cannot trace Transformation.%s back to a term list: rule fails closed" % fld)
                    elif srcs != {fld}:
                        r.report("SHR-2|%s|%s|wrong-list" % (fname, fld), fn_loc(b, n["ln"]), b.path,
                                 "Transformation.%s is taken from the %s term list" % (fld, "/".join(sorted(srcs))))
                    elif bad:
                        r.report("SHR-2|%s|%s|broadcast" % (fname, fld), fn_loc(b, n["ln"]), b.path,
                                 "Transformation.%s: %s — `a, b > x` style lines pair wrongly or drop entries" % (fld, bad[0][3]))
        if n_tr == 0:
            raise AnchorMissing("%s builds no Transformation" % fname)
    return r


TRANSF_PATH = "asca::alias::Transformation"


# ---------------------------------------------------------------- SHR-3 (`_,X` special environment)


def _vec_items(e):
    """elements of a `vec![..]` expression (macro expansion: the first expanded array literal), or None"""
    e = hirq.strip(e)
    if e.get("e") == "array":
        return e["items"]
    if e.get("e") == "call" and e.get("exp"):
        for n in hirq.walk(e):
            if n["e"] == "array" and n.get("exp"):
                return n["items"]
    if e.get("e") == "call" and (hirq.strip(e["f"]).get("path") or "").endswith("Vec::new"):
        return []
    return None


def _mentions(e, hid):
    names = []
    hit = False
    for n in hirq.walk(e):
        if n["e"] == "mcall":
            names.append(n["name"])
        if n["e"] == "path" and n.get("hid") == hid:
            hit = True
    return hit, names


def shr3(ctx):
    r = RuleResult("SHR-3", "`_,X` expands to exactly two environments: `X _` and `_ X` with X reversed", floor=5)
    lib = ctx.lib
    b = ctx.fn(lib, "asca::parser::Parser::get_spec_env")
    root = b.hir["body"]
    lets = {n["pat"]["hid"]: n["init"] for n in hirq.walk(root) if n["e"] == "let" and n["pat"].get("p") == "bind" and n.get("init") is not None and "hid" in n["pat"]}
    xs = [h for h, init in lets.items() if any(m["e"] == "mcall" and (m.get("def") or "").endswith("Parser::get_env_elements") for m in hirq.walk(init))]
    if len(xs) != 1:
        raise AnchorMissing("get_spec_env: the parsed element list X was not found")
    X = xs[0]
    ret = None
    for n in hirq.walk(root):
        if n["e"] == "call" and (hirq.strip(n["f"]).get("path") or "").endswith("Result::Ok") and not n.get("exp"):
            a = hirq.strip(n["args"][0])
            if a.get("e") == "call" and (hirq.strip(a["f"]).get("path") or "").endswith("Option::Some"):
                ret = hirq.strip(a["args"][0])
    if ret is None:
        raise AnchorMissing("get_spec_env: `Ok(Some(..))` not found")
    hops = 0
    while ret.get("e") == "path" and ret.get("hid") in lets and hops < 4:
        ret = hirq.strip(lets[ret["hid"]])
        hops += 1
    items = _vec_items(ret)
    ok = items is not None and len(items) == 2
    r.inst("get_spec_env returns a list of %s items" % (len(items) if items is not None else "?"), fn_loc(b, ret.get("ln")), "ok" if ok else "report")
    if not ok:
        r.report("SHR-3|items", fn_loc(b, ret.get("ln")), b.path,
                 "`_,X` must become two separate environment items (two sub-rules applied one after another: `X_` then `_X`); the parser builds %s" % (
                     "%d item(s)" % len(items) if items is not None else "a list of unrecognised shape"))
        return r
    want = [("before", "after", False), ("after", "before", True)]
    for k, it in enumerate(items):
        it0 = hirq.strip(it)
        envs = None
        for n in hirq.walk(it0):
            if n["e"] == "call" and (hirq.strip(n["f"]).get("path") or "") == "asca::parser::ParseElement::Environment":
                envs = _vec_items(n["args"][0])
                v = hirq.strip(n["args"][0])
                hops = 0
                while envs is None and v.get("e") == "path" and v.get("hid") in lets and hops < 4:
                    v = hirq.strip(lets[v["hid"]])
                    envs = _vec_items(v)
                    hops += 1
                break
        ok = envs is not None and len(envs) == 1 and hirq.strip(envs[0]).get("e") == "struct" and hirq.strip(envs[0]).get("path") == "asca::parser::Env"
        r.inst("item %d is an Environment holding one Env" % k, fn_loc(b, it0.get("ln")), "ok" if ok else "report")
        if not ok:
            r.report("SHR-3|item%d|shape" % k, fn_loc(b, it0.get("ln")), b.path, "item %d of the `_,X` expansion is not an Environment with exactly one Env" % k)
            continue
        flds = dict((nm, val) for nm, val in hirq.strip(envs[0])["fields"])
        full, empty, rev = want[k]
        hit, names = _mentions(flds.get(full, {}), X)
        e_items = _vec_items(flds.get(empty, {}))
        e_hit, _ = _mentions(flds.get(empty, {}), X)
        ok = hit and (("rev" in names) == rev) and e_items == [] and not e_hit
        r.inst("item %d: %s = X%s, %s empty" % (k, full, " reversed" if rev else "", empty), fn_loc(b, hirq.strip(envs[0]).get("ln")), "ok" if ok else "report")
        if not ok:
            r.report("SHR-3|item%d|sides" % k, fn_loc(b, hirq.strip(envs[0]).get("ln")), b.path,
                     "item %d of the `_,X` expansion must have %s = X%s and an empty %s (X mentioned: %s, reversed: %s, other side empty: %s)"
                     % (k, full, " reversed" if rev else " in order", empty, hit, "rev" in names, e_items == [] and not e_hit))
    return r


# ---------------------------------------------------------------- RT-1 (render marks are read back as what they stand for)


def rt1(ctx):
    r = RuleResult("RT-1", "Word::render_normal's stress / boundary / length / tone marks are read back by Word::setup as the same stress kind, boundary, repetition and tone", floor=6)
    lib = ctx.lib
    rn = ctx.fn(lib, "asca::word::Word::render_normal")
    st = ctx.fn(lib, "asca::word::Word::setup")
    SKP = "asca::syll::StressKind::"
    # writer: StressKind -> mark
    W = {}
    first_cond = None
    KEEP_R = {"asca::word::Word::render_normal", "asca::word::Word::render"}
    only_marks = lambda cb: any(n["e"] == "mcall" and n["name"] == "push" and hirq.strip(n["args"][0]).get("lk") == "char" for n in hirq.walk(cb.hir["body"]))
    rn_root = hirq.inline_helpers(lib, rn, keep=KEEP_R, only_if=only_marks)
    for m in [n for n in hirq.walk(rn_root) if n["e"] == "match"]:
        if (m.get("sty") or "").endswith("syll::StressKind"):
            for arm in m["arms"]:
                kinds = [(p.get("path") or "")[len(SKP):] for p in hirq.flat_pats(arm["pat"]) if (p.get("path") or "").startswith(SKP)]
                pushes = [hirq.strip(n["args"][0]).get("lit") for n in hirq.walk(arm["body"]) if n["e"] == "mcall" and n["name"] == "push" and n["args"]
                          and hirq.strip(n["args"][0]).get("lk") == "char"]
                for k in kinds:
                    W[k] = pushes
                if "Unstressed" in kinds:
                    iff = [n for n in hirq.walk(arm["body"]) if n["e"] == "if"]
                    if iff:
                        c = hirq.strip(iff[0]["cond"])
                        first_cond = (c.get("op"), hirq.strip(c.get("b") or {}).get("lit")) if c.get("e") == "binary" else None
            break
    if set(W) != {"Primary", "Secondary", "Unstressed"}:
        raise AnchorMissing("render_normal: match on syll.stress not found (%s)" % sorted(W))
    # reader: mark -> StressKind
    R = {}
    for m in hirq.matches(st):
        arms = [(a, [p for p in hirq.flat_pats(a["pat"]) if p.get("p") == "lit" and p.get("lk") == "char"]) for a in m["arms"]]
        if not any(ps for _, ps in arms):
            continue
        for a, ps in arms:
            asg = [n for n in hirq.walk(a["body"]) if n["e"] == "assign" and hirq.strip(n["lhs"]).get("e") == "field" and hirq.strip(n["lhs"])["name"] == "stress"]
            for p in ps:
                for n in asg:
                    rp = hirq.strip(n["rhs"]).get("path") or ""
                    if rp.startswith(SKP):
                        R[p["lit"]] = rp[len(SKP):]
    if len(R) < 2:
        raise AnchorMissing("Word::setup: mark -> StressKind table not found (%s)" % R)
    # the renderer used with romanisers opens syllables exactly like the default renderer
    ra = ctx.fn(lib, "asca::word::Word::render")
    W2 = {}
    first2 = None
    ra_root = hirq.inline_helpers(lib, ra, keep=KEEP_R, only_if=only_marks)
    for m in [n for n in hirq.walk(ra_root) if n["e"] == "match"]:
        if (m.get("sty") or "").endswith("syll::StressKind"):
            for arm in m["arms"]:
                kinds = [(p.get("path") or "")[len(SKP):] for p in hirq.flat_pats(arm["pat"]) if (p.get("path") or "").startswith(SKP)]
                pushes = [hirq.strip(n["args"][0]).get("lit") for n in hirq.walk(arm["body"]) if n["e"] == "mcall" and n["name"] == "push" and n["args"]
                          and hirq.strip(n["args"][0]).get("lk") == "char"]
                for k in kinds:
                    W2[k] = pushes
                if "Unstressed" in kinds:
                    iff = [n for n in hirq.walk(arm["body"]) if n["e"] == "if"]
                    if iff:
                        c = hirq.strip(iff[0]["cond"])
                        first2 = (c.get("op"), hirq.strip(c.get("b") or {}).get("lit")) if c.get("e") == "binary" else None
            break
    ok = W2 == W and first2 == first_cond
    r.inst("Word::render (with romanisers) opens syllables with the same marks as render_normal: %s" % W2, fn_loc(ra), "ok" if ok else "report")
    if not ok:
        r.report("RT-1|render-siblings", fn_loc(ra), ra.path, "Word::render writes the syllable marks %s (first-syllable condition %s), render_normal writes %s (%s)" % (W2, first2, W, first_cond))
    for k in ("Primary", "Secondary"):
        ok = len(W[k]) == 1 and R.get(W[k][0]) == k
        r.inst("%s is written as %r and %r is read as %s" % (k, W[k], W[k][0] if W[k] else None, R.get(W[k][0]) if W[k] else None), fn_loc(rn), "ok" if ok else "report")
        if not ok:
            r.report("RT-1|stress|%s" % k, fn_loc(rn), rn.path, "%s stress is rendered as %r, which Word::setup reads as %s" % (k, W[k], R.get(W[k][0]) if W[k] else "nothing"))
    # boundary
    reader_eq = {hirq.strip(n["b"]).get("lit") for n in hirq.walk(st.hir["body"]) if n["e"] == "binary" and n["op"] == "Eq" and hirq.strip(n["b"]).get("lk") == "char"}
    ok = W["Unstressed"] == ["."] and "." in reader_eq and first_cond == ("Gt", 0)
    r.inst("an unstressed non-initial syllable is opened by %r (condition %s), which Word::setup tests" % (W["Unstressed"], first_cond), fn_loc(rn), "ok" if ok else "report")
    if not ok:
        r.report("RT-1|boundary", fn_loc(rn), rn.path,
                 "unstressed syllables are opened by %r under the condition %s; expected '.' for every syllable but the first, and a reader test for it" % (W["Unstressed"], first_cond))
    # length mark
    wl = [n for n in hirq.walk(rn_root) if n["e"] == "mcall" and n["name"] == "push" and hirq.strip(n["args"][0]).get("lit") == "ː"]
    par = hirq.parent_map(rn_root)
    cond_ok = False
    for n in wl:
        x = par.get(id(n))
        while x is not None and x.get("e") != "if":
            x = par.get(id(x))
        if x is not None:
            eqs = [c for c in hirq.walk(x["cond"]) if c["e"] == "binary" and c["op"] == "Eq"]
            cond_ok = any(any(i["e"] == "index" for i in hirq.walk(c)) for c in eqs)
    rl = [n for n in hirq.walk(st.hir["body"]) if n["e"] == "if" and any(c["e"] == "binary" and c["op"] == "Eq" and hirq.strip(c["b"]).get("lit") == "ː" for c in hirq.walk(n["cond"]))]
    rd_ok = bool(rl) and any(m["e"] == "mcall" and m["name"] == "push_back" and any(b_["e"] == "mcall" and b_["name"] == "back" for b_ in hirq.walk(m)) for m in hirq.walk(rl[0]["then"]))
    ok = len(wl) == 1 and cond_ok and rd_ok
    r.inst("a repeated segment is written as 'ː' and 'ː' is read as a repetition of the last segment", fn_loc(rn), "ok" if ok else "report")
    if not ok:
        r.report("RT-1|length", fn_loc(rn), rn.path, "length mark: writer emits 'ː' for a segment equal to its predecessor (%s), reader repeats the last segment on 'ː' (%s)" % (cond_ok and len(wl) == 1, rd_ok))
    # tone
    wt = [n for n in hirq.walk(rn_root) if n["e"] == "if" and any(c["e"] == "binary" and c["op"] == "Ne" and any(f["e"] == "field" and f["name"] == "tone" for f in hirq.walk(c))
                                                                     and hirq.strip(c["b"]).get("lit") == 0 for c in hirq.walk(n["cond"]))]
    w_ok = bool(wt) and any(m["e"] == "mcall" and m["name"] == "to_string" and any(f["e"] == "field" and f["name"] == "tone" for f in hirq.walk(m)) for m in hirq.walk(wt[0]["then"]))
    rt = [n for n in hirq.walk(st.hir["body"]) if n["e"] == "assign" and hirq.strip(n["lhs"]).get("e") == "field" and hirq.strip(n["lhs"])["name"] == "tone"]
    r_ok = len(rt) == 1 and any(m["e"] == "mcall" and m["name"] == "parse" for m in hirq.walk(rt[0]["rhs"]))
    ok = w_ok and r_ok
    r.inst("a non-zero tone is written as its decimal digits after the syllable; digits are parsed back into `.tone`", fn_loc(rn), "ok" if ok else "report")
    if not ok:
        r.report("RT-1|tone", fn_loc(rn), rn.path, "tone: writer appends tone.to_string() iff tone != 0 (%s); reader parses the digits into .tone (%s)" % (w_ok, r_ok))
    # which syllable the tone closes: the reader pushes the syllable when it meets the digits
    return r


def rt2(ctx):
    """the renderer ranks candidate base phones with a *stable* sort: equal distances keep the (sorted) table order, so
    the spelling chosen among ties is the one the parser's left-to-right reading was tuned against"""
    from facts import callee_path
    r = RuleResult("RT-2", "the renderer's candidate ranking is a stable sort over the sorted cardinal table (ties keep table order)", floor=2)
    lib = ctx.lib
    n = 0
    roots = ("asca::seg::Segment::get_as_grapheme", "asca::seg::Segment::get_nearest_grapheme")
    for fn in roots:
        ctx.fn(lib, fn)
    # the search may live in helpers / closures of the same module: everything of asca::seg reachable from the two entry points
    reach = sorted(p for p in lib.reachable(list(roots)) if p.startswith("asca::seg::") and lib.body(p) is not None)
    for fn in reach:
        b = lib.body(fn)
        for bi, t in b.calls():
            cp = callee_path(t) or ""
            # `min_by_key` / `min_by` keep the FIRST of several minima: over the same ordered candidates that is the element a
            # stable sort puts first (whether the iteration is ordered is PUR-2's business)
            first_min = cp.endswith(("Iterator::min_by_key", "Iterator::min_by"))
            if "::sort" not in cp and not first_min:
                continue
            n += 1
            stable = "unstable" not in cp
            r.inst("%s ranks candidates with %s" % (fn.rsplit("::", 1)[-1], cp.rsplit("::", 1)[-1]), ":".join(t["loc"].split(":")[:2]), "ok" if stable else "report")
            if not stable:
                r.report("RT-2|%s" % fn, ":".join(t["loc"].split(":")[:2]), fn,
                         "candidates with equal feature distance are ordered by an unstable sort: which base phone is tried first among ties is no longer the table order, and some of the other spellings do not parse back to the same segment")
    if n < 2:
        raise AnchorMissing("renderer: fewer than two candidate sorts found (%d)" % n)
    return r


# ---------------------------------------------------------------- SYN-2: cursor rewinds restore the current token

def _self_field(place, owner):
    """name of the field of `*self` (local 1 behind a deref) a place goes through, or None"""
    if place.get("l") != 1 or len(place.get("p") or []) < 2 or place["p"][0] != "*":
        return None
    p = place["p"][1]
    if isinstance(p, dict) and (p.get("of") or "") == owner:
        return p.get("n")
    return None


def _places_read(x, out):
    """every place mentioned in an rvalue / operand / terminator JSON (reads, refs, copies, moves)"""
    if isinstance(x, dict):
        if "pl" in x and isinstance(x["pl"], dict) and "l" in x["pl"]:
            out.append(x["pl"])
        for k, v in x.items():
            if k not in ("lhs", "dest"):
                _places_read(v, out)
    elif isinstance(x, list):
        for y in x:
            _places_read(y, out)


def syn2(ctx, unit=None, grammars=None):
    """The rule parser keeps a cursor (`pos`) and a copy of the token under it (`curr_tkn`). `advance()` is the one function
    that moves both -- and it is *history dependent*: once the current token is a `;;` comment it answers Eol whatever `pos`
    says.  A back-track that only rewrites `pos` and then calls advance() therefore restores the token for `X` but not for
    `X ;; note`: the commented spelling of the rule is rejected (or parsed differently) where the bare one is accepted."""
    r = RuleResult("SYN-2", "a parser back-track (a write of the cursor outside the stepping function) restores the current token directly, never through a stepping function whose result depends on the token being left (a trailing `;;` comment would otherwise change the parse)", floor=3)
    unit = unit or ctx.lib
    grammars = grammars or [("rule", "asca::parser::Parser"), ("alias", "asca::alias::parser::AliasParser")]
    n_rewind = 0
    for gname, owner in grammars:
        adt = unit.adts.get(owner)
        if adt is None:
            raise AnchorMissing("SYN-2: parser type %s not found" % owner)
        methods = [b for b in unit.bodies if b.path.startswith(owner + "::") and not b.in_test_mod() and b.blocks and "{closure" not in b.path]
        writes, reads = {}, {}
        for b in methods:
            w, rd = {}, set()
            for bi, bl in enumerate(b.blocks):
                if bl.get("cleanup"):
                    continue
                for si, s in enumerate(bl["s"]):
                    if s["k"] == "assign":
                        f = _self_field(s["lhs"], owner)
                        if f:
                            w.setdefault(f, []).append((bi, si, s))
                        pls = []
                        _places_read(s["rv"], pls)
                        for pl in pls:
                            f2 = _self_field(pl, owner)
                            if f2:
                                rd.add(f2)
                pls = []
                _places_read(bl["t"], pls)
                for pl in pls:
                    f2 = _self_field(pl, owner)
                    if f2:
                        rd.add(f2)
            writes[b.path], reads[b.path] = w, rd
        # field roles: the stepping function writes one usize field (the cursor) and one field holding the current token
        fields = {f["name"]: f["ty"] for v in adt.get("variants", []) for f in v.get("fields", [])}
        roles = set()
        for b in methods:
            w = writes[b.path]
            us = [f for f in w if fields.get(f) == "usize"]
            tk = [f for f in w if f in fields and fields[f].endswith("Token")]
            if len(us) == 1 and len(tk) == 1:
                roles.add((us[0], tk[0]))
        if not roles:
            raise AnchorMissing("SYN-2: %s grammar: no function writes both the cursor and the current token" % gname)
        if len(roles) != 1:
            raise AnchorMissing("SYN-2: %s grammar: stepping functions disagree on the cursor/token fields: %s" % (gname, sorted(roles)))
        POS, CUR = roles.pop()
        # a function is a history-dependent stepper when, between a write of the cursor and the write of the token that follows
        # it, it reads the token being left
        hist = set()
        sites = []
        for b in methods:
            for (bi, si, s) in writes[b.path].get(POS, []):
                ok, why, where, read_cur = _after_rewind(b, bi, si, owner, CUR, (), ())
                if ok and read_cur:
                    hist.add(b.path)
                sites.append((b, bi, si, s))
        for p in sorted(hist):
            r.inst("%s grammar: %s moves `%s` and then sets `%s` to a value that depends on the token being left" % (gname, p, POS, CUR), fn_loc(unit.body(p)), "ok")
        # transitive closure: functions that (may) call a history-dependent stepper
        by_path = {b.path: b for b in methods}
        calls = {b.path: {callee_path_(t) for _, t in b.calls()} for b in methods}
        tainted = set(hist)
        changed = True
        while changed:
            changed = False
            for p, cs in calls.items():
                if p not in tainted and cs & tainted:
                    tainted.add(p)
                    changed = True
        restorers = {p for p in by_path if CUR in writes[p] and p not in tainted}
        for (b, bi, si, s) in sites:
            n_rewind += 1
            verdict, why, where, read_cur = _after_rewind(b, bi, si, owner, CUR, tainted, restorers)
            k = sum(1 for (bj, sj, _) in writes[b.path][POS] if (bj, sj) < (bi, si))
            stepping = b.path in hist and verdict
            r.inst("%s: cursor write #%d is followed on every path by a direct write of `%s`%s" % (b.path, k, CUR, " (the stepping function)" if stepping else ""),
                   fn_loc(b, int(s["loc"].split(":")[1])) if s.get("loc") else fn_loc(b), "ok" if verdict else "report")
            if not verdict:
                r.report("SYN-2|%s|rewind#%d|%s" % (b.path, k, why), where or fn_loc(b), b.path,
                         {"stepper": "after rewinding `%s` the current token is re-read through %s, whose answer depends on the token being left: when that token is a `;;` comment it yields Eol, so `X ;; note` is parsed differently from `X`" % (POS, why_name(where, b, tainted)),
                          "return": "the cursor `%s` is rewritten and the function returns without restoring `%s`: cursor and current token disagree" % (POS, CUR)}[why])
    r.analysed = {"rewind_sites": n_rewind}
    return r


def callee_path_(t):
    c = t.get("callee") or {}
    return c.get("res") or c.get("def") or ""


def why_name(where, b, tainted):
    for _, t in b.calls():
        if callee_path_(t) in tainted and t.get("loc") and where and t["loc"].startswith(where.split(":")[0]) and t["loc"].split(":")[1] == where.split(":")[1]:
            return callee_path_(t).rsplit("::", 1)[-1] + "()"
    return "a stepping function"


def _after_rewind(b, bi, si, owner, CUR, tainted, restorers):
    """first cursor event on every path after statement (bi, si); also: is the token field read on the way to its write?"""
    seen = set()
    st = [(bi, si + 1)]
    read_cur = False
    while st:
        x, k = st.pop()
        bl = b.blocks[x]
        done = False
        for s in bl["s"][k:]:
            if s["k"] == "assign":
                pls = []
                _places_read(s["rv"], pls)
                if any(_self_field(pl, owner) == CUR for pl in pls):
                    read_cur = True
                if _self_field(s["lhs"], owner) == CUR:
                    done = True
                    break
        if done:
            continue
        t = bl["t"]
        pls = []
        _places_read({k2: v for k2, v in t.items() if k2 != "pl" or t["k"] != "drop"}, pls)
        if any(_self_field(pl, owner) == CUR for pl in pls):
            read_cur = True
        if t["k"] == "call":
            cp = callee_path_(t)
            if cp in restorers:
                continue
            if cp in tainted:
                return False, "stepper", ":".join((t.get("loc") or b.loc).split(":")[:2]), read_cur
        if t["k"] == "return":
            return False, "return", ":".join((t.get("loc") or b.loc).split(":")[:2]), read_cur
        for s2 in b.cfg.succ[x]:
            if s2 not in seen:
                seen.add(s2)
                st.append((s2, 0))
    return True, None, None, read_cur
