"""Fact extraction (cached by content hash of the tree) and the in-memory model.

Facts are produced by /verif/driver (a rustc_private driver) run over the
*current working tree* of the repository; nothing of asca is executed.
"""
import fcntl
import hashlib
import json
import os
import subprocess
import sys
import time

VERIF = os.path.dirname(os.path.dirname(os.path.abspath(__file__)))
REPO = os.environ.get("ASCA_REPO", "/repo")
CACHE = os.path.join(VERIF, ".cache")
DRIVER = os.path.join(VERIF, "driver", "target", "release", "asca-facts")

HASHED = ["src", "doc", "Cargo.toml", "Cargo.lock", ".cargo/config.toml"]


def _files(root):
    out = []
    for rel in HASHED:
        p = os.path.join(root, rel)
        if os.path.isdir(p):
            for d, dn, fn in os.walk(p):
                dn.sort()
                for f in sorted(fn):
                    out.append(os.path.join(d, f))
        elif os.path.isfile(p):
            out.append(p)
    return out


def tree_hash(root):
    h = hashlib.sha256()
    for f in _files(root):
        h.update(os.path.relpath(f, root).encode())
        h.update(b"\0")
        with open(f, "rb") as fh:
            h.update(fh.read())
        h.update(b"\0")
    # the driver is part of the key: new driver => new facts
    try:
        st = os.stat(DRIVER)
        h.update(("%d:%d" % (st.st_size, int(st.st_mtime))).encode())
    except OSError:
        pass
    return h.hexdigest()[:24]


class ExtractionError(Exception):
    pass


def ensure_facts(root=None, tests=False, target_dir=None, facts_root=None):
    """Return the directory holding fresh fact files for the tree at `root`."""
    root = root or REPO
    hsh = tree_hash(root)
    facts_root = facts_root or os.path.join(CACHE, "facts")
    out = os.path.join(facts_root, hsh + ("-t" if tests else ""))
    want = ["asca-lib.facts.json", "asca-bin.facts.json"]
    if tests:
        want = ["asca-lib-test.facts.json", "asca-bin-test.facts.json"]
    os.makedirs(CACHE, exist_ok=True)
    lock = open(os.path.join(CACHE, "lock"), "w")
    fcntl.flock(lock, fcntl.LOCK_EX)
    try:
        if all(os.path.isfile(os.path.join(out, w)) for w in want) and os.path.isfile(os.path.join(out, "OK")):
            return out
        if not os.path.isfile(DRIVER):
            raise ExtractionError("driver not built: run MANIFEST.setup_cmd (%s missing)" % DRIVER)
        tgt = target_dir or os.path.join(CACHE, "target")
        nonce = "%s-%d-%d" % (hsh, os.getpid(), int(time.time() * 1000))
        os.makedirs(out, exist_ok=True)
        for w in want:
            try:
                os.remove(os.path.join(out, w))
            except OSError:
                pass
        cmd = [os.path.join(VERIF, "extract.sh"), root, out, tgt, nonce]
        if tests:
            cmd.append("--tests")
        r = subprocess.run(cmd, stdout=subprocess.PIPE, stderr=subprocess.STDOUT, text=True)
        if r.returncode != 0:
            raise ExtractionError("fact extraction failed (does the tree compile?):\n" + r.stdout[-4000:])
        for w in want:
            p = os.path.join(out, w)
            if not os.path.isfile(p):
                raise ExtractionError("fact file missing after extraction: " + p)
            with open(p, "rb") as fh:
                head = fh.read(400).decode("utf-8", "replace")
            if nonce not in head:
                raise ExtractionError("stale fact file (nonce mismatch): " + p)
        open(os.path.join(out, "OK"), "w").write(nonce)
        _prune(facts_root, keep=out)
        return out
    finally:
        fcntl.flock(lock, fcntl.LOCK_UN)
        lock.close()


def ensure_fixture_facts(fx_dir):
    """Facts of the positive-control fixture crate (same driver, same flags)."""
    h = hashlib.sha256()
    for d, dn, fn in os.walk(os.path.join(fx_dir, "src")):
        for f in sorted(fn):
            h.update(open(os.path.join(d, f), "rb").read())
    h.update(open(os.path.join(fx_dir, "Cargo.toml"), "rb").read())
    try:
        st = os.stat(DRIVER)
        h.update(("%d:%d" % (st.st_size, int(st.st_mtime))).encode())
    except OSError:
        pass
    out = os.path.join(CACHE, "facts", "fx-" + h.hexdigest()[:20])
    want = os.path.join(out, "poscontrol-lib.facts.json")
    os.makedirs(CACHE, exist_ok=True)
    lock = open(os.path.join(CACHE, "lock-fx"), "w")
    fcntl.flock(lock, fcntl.LOCK_EX)
    try:
        if os.path.isfile(want) and os.path.isfile(os.path.join(out, "OK")):
            return out
        if not os.path.isfile(DRIVER):
            raise ExtractionError("driver not built: run MANIFEST.setup_cmd")
        os.makedirs(out, exist_ok=True)
        tgt = os.path.join(CACHE, "target-fx")
        nonce = "fx-%d-%d" % (os.getpid(), int(time.time() * 1000))
        sysroot = subprocess.run(["rustc", "+nightly", "--print", "sysroot"], capture_output=True, text=True).stdout.strip()
        subprocess.run(["rm", "-rf", os.path.join(tgt, "debug", ".fingerprint")])
        env = dict(os.environ, LD_LIBRARY_PATH=sysroot + "/lib", RUSTFLAGS="-Zmir-opt-level=0 -Awarnings", RUSTC_WORKSPACE_WRAPPER=DRIVER,
                   CARGO_TARGET_DIR=tgt, ASCA_FACTS_OUT=out, ASCA_FACTS_NONCE=nonce, CARGO_NET_OFFLINE="true")
        r = subprocess.run(["cargo", "+nightly", "check", "--offline", "--lib", "-q"], cwd=fx_dir, env=env, stdout=subprocess.PIPE,
                           stderr=subprocess.STDOUT, text=True)
        if r.returncode != 0 or not os.path.isfile(want):
            raise ExtractionError("fixture extraction failed:\n" + r.stdout[-3000:])
        open(os.path.join(out, "OK"), "w").write(nonce)
        return out
    finally:
        fcntl.flock(lock, fcntl.LOCK_UN)
        lock.close()


def _prune(facts_root, keep, max_keep=6):
    try:
        ds = [os.path.join(facts_root, d) for d in os.listdir(facts_root)]
        ds = [d for d in ds if os.path.isdir(d) and d != keep and not os.path.basename(d).startswith("fx-")]
        ds.sort(key=lambda d: os.stat(d).st_mtime, reverse=True)
        for d in ds[max_keep:]:
            subprocess.run(["rm", "-rf", d])
    except OSError:
        pass


# --------------------------------------------------------------------------
# model


class Body:
    def __init__(self, unit, j):
        self.unit = unit
        self.j = j
        self.path = j["path"]
        self.kind = j["kind"]
        self.loc = j["loc"]
        self.file = self.loc.rsplit(":", 2)[0]
        self.line = int(self.loc.rsplit(":", 2)[1])
        self.end_line = j.get("end_line", self.line)
        self.exp = j.get("exp", False)
        self.mir = j["mir"]
        self.blocks = self.mir["blocks"]
        self.locals = self.mir["locals"]
        self.hir = j.get("hir")
        self.param_names = j.get("param_names", [])
        self.param_tys = j.get("param_tys", [])
        self.ret_ty = j.get("ret_ty")
        self.parent = j.get("parent")
        self.impl_self = j.get("impl_self")
        self.impl_trait = j.get("impl_trait")
        self.is_pub = j.get("pub", False)
        self._cfg = None

    def __repr__(self):
        return "<Body %s>" % self.path

    @property
    def short(self):
        return self.path

    def in_test_mod(self):
        return "_tests::" in self.path or "::tests::" in self.path or self.path.endswith("_tests")

    def terms(self):
        for i, b in enumerate(self.blocks):
            yield i, b["t"]

    def calls(self, include_cleanup=False):
        for i, b in enumerate(self.blocks):
            if b.get("cleanup") and not include_cleanup:
                continue
            t = b["t"]
            if t["k"] in ("call", "tailcall"):
                yield i, t

    def local_ty(self, l):
        return self.locals[l]["ty"]

    def local_name(self, l):
        return self.locals[l].get("name")

    @property
    def cfg(self):
        if self._cfg is None:
            from cfg import CFG
            self._cfg = CFG(self)
        return self._cfg


def callee_path(t):
    """Resolved callee def-path of a call terminator (impl method when resolvable)."""
    c = t["callee"]
    return c.get("res") or c.get("def")


def callee_def(t):
    return t["callee"].get("def")


class Unit:
    def __init__(self, path):
        with open(path, "r", encoding="utf-8") as fh:
            self.j = json.load(fh)
        self.name = self.j["unit"]
        self.krate = self.j["crate"]
        self.bodies = [Body(self, b) for b in self.j["bodies"]]
        self.by_path = {}
        for b in self.bodies:
            self.by_path.setdefault(b.path, b)
        self.adts = {a["path"]: a for a in self.j["adts"]}
        self.statics = self.j["statics"]
        self.consts = {}
        for c in self.j["consts"]:
            self.consts.setdefault(c["path"], c)
        self._callgraph = None

    def body(self, path):
        return self.by_path.get(path)

    def find(self, suffix):
        """Bodies whose path ends with `suffix` (anchor lookup)."""
        return [b for b in self.bodies if b.path == suffix or b.path.endswith("::" + suffix)]

    def non_test_bodies(self):
        return [b for b in self.bodies if not b.in_test_mod()]

    # ---- call graph (resolved callees + mentions of fn items / closures)
    @property
    def callgraph(self):
        if self._callgraph is None:
            g = {}
            for b in self.bodies:
                outs = set()
                for _, t in b.calls(include_cleanup=True):
                    c = t["callee"]
                    for k in ("res", "def"):
                        if c.get(k):
                            outs.add(c[k])
                for ref in mentioned_fns(b):
                    outs.add(ref)
                g[b.path] = outs
            self._callgraph = g
        return self._callgraph

    def reachable(self, roots):
        g = self.callgraph
        seen = set()
        stack = [r for r in roots]
        while stack:
            n = stack.pop()
            if n in seen:
                continue
            seen.add(n)
            for m in g.get(n, ()):
                if m not in seen:
                    stack.append(m)
        return seen


def iter_operands_rv(rv):
    k = rv.get("k")
    if k in ("use", "repeat", "cast"):
        yield rv["op"]
    elif k == "binop":
        yield rv["a"]
        yield rv["b"]
    elif k == "unop":
        yield rv["a"]
    elif k == "agg":
        for o in rv["ops"]:
            yield o


def mentioned_fns(body):
    """fn items and closures mentioned as values (not only as callees) in a body."""
    out = set()

    def op(o):
        if o.get("k") == "const" and o.get("fn"):
            out.add(o["fn"])

    for blk in body.blocks:
        for s in blk["s"]:
            if s["k"] == "assign":
                rv = s["rv"]
                if rv.get("k") == "agg" and rv.get("ak") == "closure":
                    out.add(rv["fn"])
                for o in iter_operands_rv(rv):
                    op(o)
        t = blk["t"]
        if t["k"] in ("call", "tailcall"):
            for a in t["args"]:
                op(a)
    return out


def load_units(facts_dir, tests=False):
    sfx = "-test" if tests else ""
    lib = Unit(os.path.join(facts_dir, "asca-lib%s.facts.json" % sfx))
    bn = Unit(os.path.join(facts_dir, "asca-bin%s.facts.json" % sfx))
    return lib, bn


def rel(loc):
    """file:line from file:line:col"""
    p = loc.rsplit(":", 1)[0]
    return p


# --------------------------------------------------------------------------
# MIR inlining (so that intra-procedural analyses see through an extracted helper)


def _shift_locals(x, off, ret_to=None):
    """deep copy of a statement / terminator / operand tree with every local index shifted by `off`
    (callee local 0, the return place, becomes `ret_to` when given)"""
    if isinstance(x, dict):
        out = {}
        for k, v in x.items():
            if k in ("l", "idx") and isinstance(v, int):
                out[k] = ret_to if (v == 0 and ret_to is not None and k == "l") else v + off
            else:
                out[k] = _shift_locals(v, off, ret_to)
        return out
    if isinstance(x, list):
        return [_shift_locals(v, off, ret_to) for v in x]
    return x


def inline_mir(unit, body, select, max_blocks=80, rounds=2):
    """A copy of `body` in which calls of the local functions chosen by `select(callee_body)` are replaced by the callee's
    blocks: parameters become assignments, `return` becomes a jump to the continuation, the return place is the call's
    destination. Unwind edges are dropped (analyses here use the normal-path CFG)."""
    import copy
    j = copy.deepcopy(body.j)
    mir = j["mir"]
    for _ in range(rounds):
        changed = False
        blocks = mir["blocks"]
        for bi in range(len(blocks)):
            blk = blocks[bi]
            t = blk["t"]
            if t["k"] != "call" or blk.get("cleanup") or t.get("t") is None:
                continue
            cp = callee_path(t)
            cb = unit.body(cp) if cp else None
            if cb is None or cb.path == body.path or len(cb.blocks) > max_blocks or not select(cb):
                continue
            if len(t["args"]) != len(cb.param_tys):
                continue
            loff = len(mir["locals"])
            boff = len(blocks)
            dest = t["dest"]
            ret_to = dest["l"] if not dest["p"] else None
            for i, ld in enumerate(cb.locals):
                nl = dict(ld)
                if nl.get("name"):
                    nl["name"] = nl["name"] + "@" + cb.path.rsplit("::", 1)[-1]
                mir["locals"].append(nl)
            cont = t["t"]
            # parameter passing
            for i, a in enumerate(t["args"]):
                blk["s"].append({"k": "assign", "lhs": {"l": loff + i + 1, "p": []}, "rv": {"k": "use", "op": a}, "loc": t.get("loc"), "exp": False, "inl": cb.path})
            blk["t"] = {"k": "goto", "t": boff, "loc": t.get("loc"), "exp": t.get("exp", False)}
            for cblk in cb.blocks:
                nb = {"s": _shift_locals(cblk["s"], loff, ret_to), "cleanup": cblk.get("cleanup", False), "inl": cb.path}
                ct = _shift_locals(cblk["t"], loff, ret_to)
                k = ct["k"]
                if k == "return":
                    ct = {"k": "goto", "t": cont, "loc": ct.get("loc"), "exp": ct.get("exp", False)}
                    if ret_to is None:
                        nb["s"].append({"k": "assign", "lhs": dest, "rv": {"k": "use", "op": {"k": "move", "pl": {"l": loff, "p": []}}}, "loc": t.get("loc"), "exp": False})
                else:
                    if isinstance(ct.get("t"), int):
                        ct["t"] += boff
                    if "unwind" in ct:
                        ct["unwind"] = None
                    if "otherwise" in ct and isinstance(ct["otherwise"], int):
                        ct["otherwise"] += boff
                    if "vals" in ct:
                        ct["vals"] = [[v, tg + boff] for v, tg in ct["vals"]]
                nb["t"] = ct
                blocks.append(nb)
            changed = True
        if not changed:
            break
    nb_ = Body(unit, j)
    return nb_
