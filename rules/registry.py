"""Property -> rules registry."""
import engine_tab as tab
import engine_tab2 as tab2
import engine_err as err
import engine_pur as pur
import engine_cli as cli
import engine_flw as flw
import engine_flw2 as flw2
import engine_pan as pan
import engine_bit as bit
import engine_pol as pol
import engine_env as env4mod
import engine_sup as sup
import engine_env as env
import engine_r5 as r5

PROPS = {
    "C02": {
        "controls": ["PAN-1", "PAN-3", "ERR-1", "PAN-7", "PAN-18"],
        "rules": [("PAN-1", pan.pan1), ("PAN-2", pan.pan2), ("PAN-3", pan.pan3), ("PAN-4", pan.pan4), ("PAN-5", pan.pan5), ("PAN-6", pan.pan6), ("PAN-7", pan.pan7), ("PAN-8", pan.pan8), ("PAN-9", pan.pan9), ("PAN-10", pan.pan10), ("PAN-11", pan.pan11), ("PAN-12", r5.pan12), ("PAN-13", r5.pan13), ("PAN-14", r5.pan14), ("PAN-15", r5.pan15), ("PAN-16", r5.pan16), ("PAN-17", r5.pan17), ("PAN-18", r5.pan18), ("VAR-3", r5.var3), ("SUP-6", sup.sup6), ("ERR-1", err.err1)],
        "explanation": "Decides four panic mechanisms whose presence is visible in the shape of the code (each a necessary condition of C02), not termination or "
                       "value-dependent panics. PAN-1: forward liveness of every RefCell guard on MIR plus interprocedural borrow summaries (cells = SubRule fields / "
                       "&RefCell parameters mapped through call sites): no borrow, and no call that may borrow, of a cell while a conflicting guard on it is live. "
                       "PAN-2: no digits of rule/alias text reach parse::<int>().unwrap()/expect() (arms the grammar can never reach are discharged with the PAN-3 "
                       "producer table). PAN-3/PAN-4: a may-analysis of the parsers' HIR gives, per container (Input, Output, Env, Set, Structure, Optional; "
                       "(de)romaniser sides), the element kinds the grammar can put there; a tag analysis of the interpreter gives the containers whose elements reach "
                       "each match with an unreachable!/unimplemented! arm; the intersection must be empty (EmptySet/Metathesis discharged by four checked rule-type "
                       "conditions). PAN-5: the cursor written back to the scan loop through next_pos is dominated by SegPos::increment on that cursor (deletion and substitution). PAN-6: lexer/parser alphabet agreement: every modifier value Lexer::get_feature / AliasLexer::get_feature can put into a Feature token (char literals, `matches!` ranges and ascii classes of the gate, and '-'+class) is listed by an arm of the corresponding curr_token_to_modifier, whose default arm is unreachable!(). PAN-7: no str/String anywhere in lib or bin is range-sliced at an offset that is not a byte offset of that same string (zero slices on the pinned tree; the positive control keeps the rule alive). PAN-8: functions that index a container with a `usize` parameter they never compare with anything are summarised (to a fixed point through calls); at every call site that passes them a cursor which is advanced by arithmetic inside a loop, every path from an advance to the call passes a comparison of that cursor (Word::render's `j` and the alias matchers). PAN-9 (progress of the insertion loop, MIR): in SubRule::insert every path through one iteration of the loop over the output elements — from the `Some(state)` edge back to the loop head — passes an edit of the word or an advance of the cursor; an iteration that does neither leaves (word, cursor) unchanged and `transform`'s insertion loop finds the same insertion point forever. PAN-10 (no empty term, MIR): every push onto a Vec<Vec<Item>> term list (Parser::get_input / get_output) pushes a non-empty `vec![..]` literal or a local that cannot reach the push once its own `is_empty()` test answered true (repeated tests of the same local are correlated; a new assignment of the local ends the walk): Rule::split_into_subrules and the interpreter read `term[0]`. PAN-11 (width discipline): every multiplication / pow at an 8- or 16-bit width in the library is listed with the bound that makes it safe (today one: the four-digit fold at the end of concat_tone); the join `prev * 10^k + aft` is done at u64. SUP-6 (length bookkeeping, decision-table evaluation): for all 8 consistent sign combinations of [long, overlong] and run lengths 1..3, the number returned by Syllable::apply_supras equals run-after minus run-before (inserts / removes on `segments` are counted as they are executed, helper methods on `self` are looked through): every SubRule caller advances its cursor by that number, and a too-small number makes the rule re-match its own output forever. PAN-12 (cursor bounds, interprocedural MIR): a function that does `get_seg_at(pos).unwrap()/expect()` without a dominating bounds test of that cursor (in_bounds / out_of_bounds, or a get_seg_at whose Option is inspected) requires an in-bounds cursor of its callers, to a fixed point through calls that hand the cursor on; in every loop that calls a requiring function, every path from an advance of the cursor (SegPos::increment or a callee taking it by &mut) to the call passes a bounds test or a restore from a snapshot taken outside the loop. PAN-13 (progress of the unbounded optional, MIR): in context_match_option every trip round the extension loop whose bound derives from `unwrap_or(usize::MAX)` passes a SegPos comparison (cursor before vs after the repetition): a zero-width optional body ends the loop. ERR-1: no formatter call resolves to an unreachable!() stub.",
        "does_not_decide": "termination in general (e.g. `$ > $` spins although the cursor is advanced); index / slice / arithmetic / Option::unwrap panics that depend on cursor values (e.g. `r...l > l r r`); stack depth of the recursive matcher.",
        "assumptions": ["all SubRule methods are invoked on the same SubRule object (cells named by field)"],
    },
    "C05": {
        "controls": ["SUP-10"],
        "rules": [("SUP-1", sup.sup1), ("SUP-2", sup.sup2), ("SUP-4", sup.sup4), ("SUP-5", sup.sup5), ("SUP-7", r5.sup7), ("SHR-5", r5.shr5), ("TAB-8", r5.tab8), ("SUP-8", r5.sup8), ("SUP-9", r5.sup9), ("SUP-10", r5.sup10), ("SUP-11", r5.sup11)],
        "explanation": "Decides the table clauses of C05 by decision-table extraction: the matchers and setters of stress / sec.stress / long / overlong are small decision "
                       "trees over two finite domains (stress in {unstressed, primary, secondary}; length in {short, long, overlong}); the trees are read off the HIR (comparison "
                       "operators and constants, `while seg_len < N` / `> N` clamps, constants assigned to `.stress`, the true/false and Positive/Negative arms) and tabulated. "
                       "SUP-1: the match tables of SubRule::match_stress / match_seg_length and Word::alias_match_stress / alias_match_seg_length equal the manual's: [+long] at "
                       "least long, [-long] short, [+overlong] overlong, [-overlong] at most long, [+stress] primary or secondary, [-stress] unstressed, [+sec.stress] secondary "
                       "only; a bound alpha behaves as the binary arm of its value, an inverse alpha as the other, an unbound alpha captures membership in the positive set "
                       "(inverted for -α). SUP-2: for all 9 modifier combinations x 3 states, the state after Syllable::apply_syll_mods / apply_supras (and Word::alias_apply_stress) "
                       "is matched by that same combination, single modifiers set the documented value ([+long] short->long, [+stress]->primary, ...), [-stress,+sec.stress] and "
                       "[-long,+overlong] are errors, the alias setters agree with the rule setters (alias_apply_length = the rule table on a short segment). SUP-4 (MIR dominance): every return of SubRule::match_supr_mod_seg / Word::alias_match_supr_mod_seg that can accept is dominated by the calls of the stress matcher and the length matcher and by the test of `mods.tone` (the matrix is a conjunction of its tiers). SUP-5: match_tone is `*tone == syll.tone`, apply_syll_mods writes `.tone` exactly once, from the Some(t) of mods.tone, and the alias matcher rejects iff `*t != syll.tone` ([tone:n] matches and sets the whole tone).",
        "does_not_decide": "that the run length the tables are applied to is the true length of the segment at the cursor (get_seg_length_at, the insert/remove positions), tone 0 meaning none in the text forms, "
                           "the cursor after a lengthened segment, that the other suprasegmentals are left alone (C14 FLW-4 decides that write-effect clause).",
        "assumptions": ["length is abstracted to the manual's three values; `while seg_len < N { insert; seg_len += 1 }` is read as max(len, N), `> N` with remove as min(len, N)",
                        "ModKind::as_bool returns the sign of a binary modifier and the bound value of an alpha (PUR/POL rules)"],
    },
    "C07": {
        "controls": ["BIT"],
        "rules": [("SUP-3", sup.sup3), ("BIT-4", bit.bit4), ("POL-1", pol.pol1), ("VAR-1", flw2.var1), ("VAR-2", flw2.var2), ("VAR-3", r5.var3), ("TAB-9", r5.tab9), ("VAR-4", r5.var4), ("ENV-8", r5.env8), ("VAR-5", r5.var5)],
        "explanation": "Decides the alpha half of C07 ('a feature, node, length or stress value copied by an alpha onto the element it was read from leaves every word as it was') "
                       "as a composition of extracted tables and proved identities: POL-1: the matcher captures `bit != 0` (false on an absent node) for α, its inverse for -α, and the "
                       "output applies set_feat(N, bit, α) resp. !α; BIT-4 (bit-level abstract interpretation, all segments): set_feat(N, bit, <value of that bit>) and "
                       "set_node(N, get_node(N)) are the identity on every segment (7 nodes x 16 place shapes x every bit x both values); SUP-3: for long, overlong, stress, sec.stress "
                       "the value captured by the unbound alpha arm of match_seg_length / match_stress, fed to apply_supras / apply_syll_mods, gives the state back, for each of the "
                       "three states. VAR-1 ('a variable used in a context matches only a syllable identical to the captured one'): in context_match_syll_var and "
                       "input_match_syll_var the path without modifiers compares segments, stress and tone of the current syllable with the captured one (field by field or as a "
                       "whole Syllable), the path with modifiers compares the segments. VAR-2: the two context matchers that run in both directions and capture a syllable (context_match_syll, context_match_structure) store it under `if forwards`, and the backwards branch reverses the copy (a before-context is matched on the reversed word).",
        "does_not_decide": "variables (`X=1 > 1`): capture and write-back of segments and syllables, segment-variable comparison in contexts; that the alpha table is keyed and scoped correctly beyond FLW-8 (C04); tone.",
        "assumptions": ["length abstracted to the manual's three values (see C05)", "`==` on Syllable is field-wise (FLW-3d, decided under C16)"],
    },
    "C08": {
        "controls": ["FLW-guard", "BIT"],
        "rules": [("FLW-5", flw2.flw5), ("FLW-6", flw2.flw6), ("FLW-7", flw2.flw7), ("TAB-2", tab.tab2), ("TAB-3", tab.tab3), ("BIT-2", bit.bit2), ("FLW-9", flw2.flw9)],
        "explanation": "FLW-9 ('at least one syllable'): every DeletionOnlySeg / DeletionOnlySyll refusal counts segments / syllables of the very word local that the removal following it edits (a guard on the pre-image lets a multi-segment deletion remove the last segment). Decides the invariant-maintenance clauses of C08: a representation invariant holds after every rule iff every writer re-establishes it. "
                       "FLW-5a: MIR typestate (Empty/NonEmpty/Maybe, branch-refined on is_empty) of every by-value syllable that is pushed, inserted or stored "
                       "into a word; FLW-5b: every removal of a segment from a syllable inside a word is followed on all normal paths by an emptiness check that "
                       "removes or overwrites the syllable, or keeps a copy (run-length guard), or is the first half of a split guarded by !at_syll_start; "
                       "FLW-6: every parse::<u16> of tone digits is reachable only after replace('0',\"\") and a rejected chars().count() > 4, concat_tone cannot "
                       "return before dedup and its len > 4 meld test, every write of Syllable.tone copies a tone / capped literal / concat_tone result; FLW-7: raw "
                       "`*place =` writes assign None only, node bytes and the packed place word are written only by set_node and the four setters (each ending "
                       "in the Some(0)->None normalisation, TAB-3), cardinals.json places are normalised; TAB-2/3: masks stay inside their fields; BIT-2: by bit-level abstract interpretation of the four setters' MIR over all canonical places (16 presence shapes, symbolic payloads), the word after set_X is exactly the canonical word of the resulting shape (absent sub-node => payload bits 0, no presence bit => None) and every one of the 16 bits is owned by exactly one sub-node.",
        "does_not_decide": "'at least one syllable' beyond the presence and freshness of the explicit `len() <= 1` refusals; the arithmetic inside concat_tone's meld step.",
        "assumptions": ["words entering a rule satisfy the invariant (syllables cloned out of a word are NonEmpty)",
                        "gen_syll_from_struct may return an empty syllable (unknown variable / empty structure), hence Maybe"],
    },
    "C14": {
        "controls": ["FLW-guard"],
        "rules": [("FLW-4", flw2.flw4), ("FLW-4g", r5.flw4g), ("FLW-4h", r5.flw4h), ("TAB-14", r5.tab14), ("TAB-8", r5.tab8), ("SUP-8", r5.sup8)],
        "explanation": "Decides the write-effect clauses of C14 on MIR: Segment::apply_seg_mods cannot reach a syllable by type; in Syllable::apply_syll_mods every write "
                       "of stress (tone) is reachable only on a Some edge of mods.stress[i] (mods.tone) and nothing else is written; in apply_supras every insertion/"
                       "removal of segment copies is reachable only on a Some edge of mods.length[i]; Syllable::apply_seg_mods only maps the segment-level function "
                       "and delegates; elsewhere in the interpreter stress/tone are written only to a syllable under construction (copied from the syllable being "
                       "split) or while merging with a neighbour that is removed on every normal path; syllable-boundary deletion arms merge by `append` only.",
        "does_not_decide": "that boundary insertion / deletion / metathesis keep segment order (value reasoning about pop_back -> push_front loops and indices); the documented stress 'steal' on initial insertion.",
        "assumptions": [],
    },
    "C06": {
        "controls": ["FLW-guard"],
        "rules": [("FLW-1", flw.flw1), ("FLW-10", flw.flw10), ("FLW-11", flw.flw11), ("FLW-12", flw.flw12), ("FLW-8", flw2.flw8), ("FLW-8c", r5.flw8c), ("FLW-8s", r5.flw8s), ("FLW-15", r5.flw15), ("TAB-9", r5.tab9), ("TAB-10", r5.tab10), ("SYN-5", r5.syn5), ("TAB-12", r5.tab12), ("TAB-15", r5.tab15)],
        "explanation": "FLW-10: in input_match_at a match reported after the scan loop (the word ran out mid-match) is conditioned on `state_index`, i.e. only the trailing boundary may be left unmatched (on the pinned tree it was not: `a x $ > e` rewrote `ka`; repaired, F7). FLW-11: for every element kind of SubRule::input_match_item, the number of times `*state_index` is advanced on a path that ends in a successful match is exactly one, counted structurally over the HIR with summaries of the matchers that receive the index (a matcher that advances inside a loop, the ellipsis, is exempt); on the pinned tree syllable variables and syllables inside sets advanced it twice, so the next element was skipped (`%=1 1 q > *`, `{%,x} q > *`; repaired, F8). FLW-12 (context side): no arm of context_match advances the state index (its callers do), and every index-driven loop around context_match — match_before_env, match_after_env, context_match_ellipsis, context_match_option, match_opt_states, insertion_between — advances it exactly once per matched element. FLW-8: a restarted or new match attempt never sees bindings of an abandoned one. FLW-1 decides the no-write-without-match clause of C06: the four matchers take the word as &Word and Word/Syllable/Segment are Freeze with no "
                       "unaudited unsafe in their call tree, so a failed or partial match cannot have altered it; in SubRule::apply the word is replaced only by "
                       "the result of transform, whose call is reachable only on the non-empty edge of the input match and the true edge of "
                       "match_contexts_and_exceptions (MIR dominance + reachability avoiding the guard); in the insertion loop `insert` is reachable only after "
                       "insertion_match -> Some and insertion_match_exceptions -> false; blank and comment-only lines parse to no rule.",
        "does_not_decide": "that a rule whose input needs an absent segment is judged non-matching (matcher correctness over all rule shapes).",
        "assumptions": ["borrow checker: a function holding only &Word of a Freeze type cannot mutate it"],
    },
    "C15": {
        "rules": [("FLW-2", flw.flw2), ("SHR-2", tab2.shr2), ("RT-1", tab2.rt1), ("SHR-4", r5.shr4), ("NRM-2", r5.nrm2), ("RT-7", r5.rt7), ("FLW-14", r5.flw14), ("SHR-5", r5.shr5)],
        "explanation": "RT-1 (sibling clause): Word::render, used when romanisers are given, opens syllables with exactly the marks of the default renderer render_normal ('each printed word is the default rendering with the matched segments replaced'). SHR-2: in AliasParser::get_deromaniser / get_romaniser every Transformation takes its input from the input term list and its output from the output "
                       "term list, element i selected under that list's own `len() == 1` test (or through a cycled iterator), so `a, b > x` pairs (a,x),(b,x). "
                       "FLW-2 decides the noninterference clause of C15 exactly as an information-flow statement: Transformation vectors are coloured by the AliasKind constant "
                       "used to parse them; deromanisers reach only Word::new (word parsing), romanisers (or the empty list) only Word::render, at every call site, "
                       "through every intermediate parameter; no function reachable from rule application mentions Transformation; render takes &self.",
        "does_not_decide": "that a deromaniser `s > X` builds the same segment as typed X, and that the printed form is the default rendering rewritten by the table (value-level).",
        "assumptions": [],
    },
    "C16": {
        "rules": [("FLW-3", flw.flw3), ("FLW-3p", r5.flw3p), ("FLW-3e", r5.flw3e), ("NRM-1", r5.nrm1)],
        "explanation": "Decides the sibling-agreement and provenance clauses of C16: apply_rules_trace enumerates groups and, per word, the group's rules front to back "
                       "with the step res[j] = rule.apply(res[j].clone())? and no early exit, i.e. projected on one word the same rule sequence as the runner; a Change "
                       "is built only when the whole phrase differs from the snapshot taken before the group, with rule_index = the group loop's enumerate index and "
                       "after = the phrase after the group; parsed groups correspond one-to-one and in order to the caller's list; the printer indexes rules by "
                       "change.rule_index and renders change.after with the very list that was parsed.",
        "does_not_decide": "equality of error values when different words fail at different groups (word-major vs group-major order).",
        "assumptions": ["C11's independence of words (PUR rules) for the projection argument"],
    },
    "C19": {
        "controls": ["CLI-1"],
        "rules": [("CLI-1", cli.cli1), ("CLI-4", cli.cli4), ("TAB-7", cli.tab7), ("CLI-6", r5.cli6), ("CLI-7", r5.cli7), ("CLI-9", r5.cli9), ("CLI-10", r5.cli10), ("CLI-12", r5.cli12), ("CLI-14", r5.cli14), ("CLI-16", r5.cli16), ("CLI-19", r5.cli19)],
        "explanation": "Decides the wiring and file-format clauses of C19: no call (lib, bin) passes same-typed arguments crosswise to each other's parameters "
                       "(names of arguments vs parameters); in `asca run` the four components of get_input reach asca::run's parameters of the same role and the "
                       "value printed / written is the Ok payload of that call joined by LINE_ENDING; writers and readers of .rsca/.alias/.wsca use the same sigils "
                       "(@, #, @into/@from, trim vs indent, description line separator), and all four JSON paths go through the one serde type AscaJson.",
        "does_not_decide": "losslessness of .rsca for every group shape (blank-line / description state machine: value-level behaviour of a line-oriented parser), path / extension handling in write_to_file.",
        "assumptions": ["argument and parameter names are meaningful (crossed-names detector: fires only on a crossing, never on merely different names)"],
    },
    "C20": {
        "rules": [("CLI-2", cli.cli2), ("CLI-3", cli.cli3), ("CLI-5", cli.cli5), ("CLI-8", r5.cli8), ("CLI-11", r5.cli11), ("CLI-13", r5.cli13), ("CLI-15", r5.cli15), ("CLI-16", r5.cli16), ("CLI-17", r5.cli17), ("CLI-18", r5.cli18)],
        "explanation": "Decides the cycle, filter and stage-order clauses of C20: Parser::parse returns Ok only after top-level loops that check every `%tag` reference "
                       "for existence and for cycles (detector inserts each visited tag in a set and returns on a repeat), every config slice given to the five "
                       "functions that follow `from` recursively comes from get_config = Parser::parse, and ASCAConfig literals with a reference are built only in "
                       "that parser; `~{..}` builds its result by looping over the filter list (order named), `!` is a filter over the file's groups, every name "
                       "comparison lower-cases both sides; run_sequence runs entry i's rules on trace[i] front to back pushing one result per stage, caches "
                       "trace.last() per tag; get_all_rules = upstream history then own entries.",
        "does_not_decide": "equality of staged output with the one-shot run of the concatenated history (needs the render/parse round trip C09 and C10(ii)); effects of re-applying alias files at every stage.",
        "assumptions": [],
    },
    "C01": {
        "controls": ["PUR-1", "PUR-2", "PUR-3"],
        "rules": [("PUR-1", pur.pur1), ("PUR-2", pur.pur2), ("PUR-3", pur.pur3), ("PUR-4", pur.pur4)],
        "explanation": "Decides C01 as an effect property: in safe Rust a function of its arguments can only become nondeterministic through hash-collection "
                       "iteration order, ambient inputs (time, env, fs, threads, randomness, addresses), state surviving a call (interior-mutable statics, "
                       "thread-locals) or unsafe reads. PUR-1: no such source is an (external) callee reachable from run / trace_changes / get_trace_string / "
                       "run_wasm over the resolved call graph, unsafe blocks enumerated; PUR-2: every order-exposing iteration of a std hash collection (lib, "
                       "bin, static initialisers) feeds only an order-insensitive sink; PUR-3: all statics immutable and Freeze (lazy_static cells of Freeze "
                       "payloads), Rule/Word/Transformation Freeze; PUR-4: SubRule's RefCell binding tables are fresh per application or cleared before every "
                       "match attempt.",
        "does_not_decide": "nothing of C01 is value-level; residue = trusted base (deny table complete for the std/dependency surface actually reached — the reached external callee list is written to evidence; serde_json / lazy_static internals deterministic; allocation failure and stack overflow ignored).",
        "assumptions": ["deny table covers the nondeterminism channels of the reached std surface (list in evidence.analysed)",
                        "Trie::insert is order-insensitive (children kept sorted; confirmed by reading)"],
    },
    "C09": {
        "controls": ["BIT"],
        "rules": [("RT-1", tab2.rt1), ("RT-2", tab2.rt2), ("TAB-6", tab2.tab6), ("FLW-6", flw2.flw6), ("BIT-2", bit.bit2), ("FLW-7", flw2.flw7), ("RT-3", r5.rt3), ("RT-4", r5.rt4), ("RT-5", r5.rt5), ("RT-6", r5.rt6), ("SYN-8", r5.syn8), ("TAB-13", r5.tab13)],
        "explanation": "Decides three necessary conditions of the text round trip, none of them the round trip itself. RT-1 writer/reader agreement of the suprasegmental notation: "
                       "Word::render_normal writes primary stress as the mark Word::setup reads as Primary, secondary likewise, opens every non-initial unstressed syllable with '.', "
                       "writes a segment equal to its predecessor as 'ː' (read back as a repetition of the last segment) and a non-zero tone as its decimal digits (parsed back into "
                       ".tone). TAB-6: every mark render_normal can push is tested by Word::setup; the americanist replacement chain of render_normal is the exact inverse of Word::new's, "
                       "in an order where no replacement destroys a later source. RT-2: the renderer ranks candidate base phones with a stable sort (ties keep the sorted table order). FLW-6: every tone that enters a word is zero-free and at most four digits, which is what the reader reproduces from the printed digits. BIT-2 / FLW-7: a place is kept in canonical form by every writer (for all values), so that the derived "
                       "`==` on the re-parsed segment compares equal representations.",
        "does_not_decide": "the renderer's base+diacritic search against the parser's left-to-right diacritic application (per-bundle behaviour, ~400k values), the cursor arithmetic of Word::setup "
                           "(e.g. what follows a tone number), U+FFFD cases.",
        "assumptions": ["cardinals.json / diacritics.json contents (checked for canonical places by FLW-7)"],
    },
    "C10": {
        "controls": ["PUR-3"],
        "rules": [("PUR-3", pur.pur3), ("PUR-4", pur.pur4), ("PUR-5", pur.pur5), ("RT-3", r5.rt3), ("RT-4", r5.rt4), ("PUR-6", r5.pur6), ("PUR-7", r5.pur7), ("PUR-8", r5.pur8)],
        "explanation": "Decides the statelessness / grouping clause of C10: applying a rule list is a left fold `word = rule.apply(word)?` over groups and rules in "
                       "order with no early exit, no adaptor and no other loop-carried state (PUR-5); the step depends only on its arguments: no global state "
                       "(PUR-3), binding tables fresh or reset (PUR-4). Hence regrouping and empty groups cannot matter.",
        "does_not_decide": "equality with the staged run through rendered text (needs the render/parse round trip, C09) and therefore nothing about `seq` beyond C20's clauses.",
        "assumptions": ["Rule::apply's own determinism is C01's claim"],
    },
    "C11": {
        "controls": ["PUR-1", "PUR-3"],
        "rules": [("PUR-1", pur.pur1), ("PUR-3", pur.pur3), ("PUR-4", pur.pur4), ("PUR-5", pur.pur5), ("PUR-6", r5.pur6), ("PUR-7", r5.pur7), ("PUR-8", r5.pur8)],
        "explanation": "Decides C11 structurally: one result per input line in input order (apply_rule_groups pushes exactly one word per word and one phrase per line, "
                       "iterating front to back with no break/continue/adaptor; parse_phrases / phrases_to_string use only order- and count-preserving adaptors, "
                       "split(' ') / + \" \" / one trim_end); no cross-word channel: the per-word loop starts from word.clone() and carries only the word, no "
                       "global or thread-local state (PUR-1, PUR-3), binding tables fresh or reset per match attempt (PUR-4).",
        "does_not_decide": "which error is reported when several words fail (parse errors of later words pre-empt run-time errors of earlier ones because all words are parsed first).",
        "assumptions": [],
    },
    "C17": {
        "controls": ["ERR-1", "PAN-7"],
        "rules": [("ERR-1", err.err1), ("ERR-2", err.err2), ("ERR-3", err.err3), ("ERR-4", err.err4), ("ERR-5", err.err5), ("ERR-6", r5.err6), ("ERR-7", r5.err7), ("ERR-8", r5.err8), ("PAN-7", pan.pan7), ("PAN-10", pan.pan10)],
        "explanation": "PAN-7: formatting an error never slices a string at a character column (no str range-slice by a foreign offset in lib or bin). ERR-3 (ii-b): the characters handed to Lexer::new / AliasLexer::new are `<enumerated line>.chars().collect()` untransformed, so columns refer to the text the formatter prints. Decides the dispatch, payload and index-provenance clauses of C17: no call of an ASCAError formatter resolves to an impl whose "
                       "body is a bare unreachable!() (lib and CLI dispatchers cover all six Error variants); every variant of the six error enums carries a "
                       "location payload; the (group,line)/(kind,line) values handed to the lexers and parsers are the enumerate indices of exactly the slices "
                       "the formatters later index (rules[group].rule[line], into[line]/from[line]); every Position/Token/raw (group,line,pos) error is built from "
                       "self.group/self.line/self.kind in the slot the formatter reads under that name; a parsed item's span end is read from the last consumed token (token_list[self.pos - 1]), never from the look-ahead token (ERR-4). ERR-5 (the formatter cannot panic on its payload): every expect()/unwrap() reachable from an ASCAError formatter is first()/last() of a variant payload -- and then every constructor site of that variant passes a vector that is tested non-empty on the path to it (`!x.is_empty()` conjunct or early return), or is the result of a producer that ends in `if v.is_empty() { return Err } Ok(v)` -- or a min/max/next pick over a constant non-empty table that no filter narrows. PAN-10 supplies the non-emptiness of the terms inside Rule.input / Rule.output.",
        "does_not_decide": "that the caret span lies inside the line (unsigned `end - start`, `pos2 - pos1 - 1`, token-index vs column mixing are arithmetic on run-time positions).",
        "assumptions": ["formatters keep binding the raw payload fields under the names group/line/kind"],
    },
    "C12": {
        "rules": [("TAB-4", tab2.tab4), ("SHR-1", tab2.shr1), ("SHR-3", tab2.shr3), ("FLW-13", r5.flw13), ("ENV-5", r5.env5), ("SHR-5", r5.shr5), ("VAR-4", r5.var4), ("SHR-6", r5.shr6), ("SHR-7", r5.shr7)],
        "explanation": "Decides three table/shape clauses of C12. SHR-3: Parser::get_spec_env returns exactly two items, each an Environment with one Env: the first `before = X, after = []`, the second `before = [], after = X` passed through `rev()` (so Rule::split_into_subrules makes two sub-rules, `X_` then `_X` mirrored). SHR-1: in Rule::split_into_subrules each of the four lists (input, output, context, except) is indexed under a length test of that same list (a singleton is shared, otherwise element i) — necessary for 'a condensed rule behaves as its sub-rules'. TAB-4: the letter -> matrix table of Parser::group_to_matrix equals its "
                       "sibling in AliasParser and the table in doc/doc.md § Groupings (feature names resolved through the lexer's own synonym table).",
        "does_not_decide": "that the sub-rules behave as separate rules, optional bounds and `&` expansion (equalities between two interpreter runs).",
        "assumptions": ["doc/doc.md keeps its `X -> ... (equiv. to [..])` row layout"],
    },
    "C13": {
        "controls": ["SYN-1", "SYN-2", "SYN-6"],
        "rules": [("TAB-5", tab2.tab5), ("TAB-6", tab2.tab6), ("TAB-6b", tab2.tab6b), ("SYN-1", tab2.syn1), ("SYN-2", tab2.syn2), ("SYN-3", r5.syn3), ("SYN-4", r5.syn4), ("SYN-6", r5.syn6), ("SYN-7", r5.syn7), ("SYN-8", r5.syn8), ("SYN-9", r5.syn9), ("TAB-15", r5.tab15), ("NRM-1", r5.nrm1)],
        "explanation": "Decides the table and follow-set clauses of C13: the feature-name synonym tables of the two lexers are equal maps, without "
                       "duplicate or unreachable spellings and covering FEAT_VARIANTS; word-level respellings (Word::to_ipa, Word::new replace chains, "
                       "lexer cur_as_ipa siblings, americanist inverse in render_normal, render marks ⊆ Word::setup tests) equal the manual's tables; every character of the word text that enters a grapheme lookup buffer in Word::fill_segments passes through Word::to_ipa (TAB-6b: the aliases apply at every position, also after `^`); "
                       "every documented symbol synonym either lexes to one token kind or its kinds are tested equally often in every parser function "
                       "(Pipe≍DubSlash, Star≍EmptySet, Arrow≍GreaterThan, Eol≍Comment at follow-set positions).",
        "does_not_decide": "spaces inside matrices, alpha-letter / variable-number renaming, doubled segment ≍ length mark (semantic).",
        "assumptions": ["doc/doc.md keeps its '### Inbuilt Aliases' code blocks", "a helper that tests both members of a pair satisfies SYN-1 by itself"],
    },
    "C03": {
        "rules": [("ENV-1", env.env1), ("ENV-2", env.env2), ("ENV-3", env.env3), ("FLW-12", flw.flw12), ("PAN-5", pan.pan5), ("FLW-13", r5.flw13), ("ENV-5", r5.env5), ("ENV-6", r5.env6), ("ENV-7", r5.env7), ("ENV-8", r5.env8), ("ENV-9", r5.env9), ("FLW-16", r5.flw16), ("PUR-8", r5.pur8), ("POL-2", r5.pol2), ("ENV-10", r5.env10), ("FLW-17", r5.flw17)],
        "explanation": "Decides the plumbing clauses of C03 ('whose left neighbours match the context and do not match the exception', 'scanning left to right'), not the rewrite semantics. "
                       "ENV-1: in SubRule::match_contexts_and_exceptions, for contexts and for exceptions alike, the before-half is a reversed copy of the pair's first element, matched by "
                       "match_before_env on `word.reverse()` at `start_pos.reversed(word)`; the after-half is the pair's second element, matched by match_after_env on the word at end_pos; "
                       "both halves are required (&&) and an empty half is vacuous; is_context is true for contexts and false for exceptions; without contexts the context counts as matched; "
                       "the verdict is `!exception_matched && context_matched`. ENV-2: match_before_env matches with forwards = false, match_after_env with forwards = true, and each of the "
                       "18 calls between context matchers hands the caller's own `forwards` on. ENV-3 (sibling agreement): the state loops of match_before_env and match_after_env are the same code up to local names and differ in exactly one boolean (the direction flag) — how a failing state clears the verdict and when the loop stops is the same on both sides of the target. FLW-12: every context element is consumed exactly once (no arm of context_match advances the state index, every index-driven loop around it advances it once per matched element). PAN-5: the cursor handed back to the scan loop has been advanced past the rewrite.",
        "does_not_decide": "that the matchers accept exactly the segments the elements denote, the position arithmetic (SegPos increment / reversed), long segments, the order of already-rewritten "
                           "versus not-yet-rewritten neighbours: the equality with a reference interpreter is a behavioural statement outside static reach.",
        "assumptions": ["Word::reverse and SegPos::reversed are mutually consistent (not checked)"],
    },
    "C04": {
        "controls": ["BIT"],
        "rules": [("TAB-1", tab.tab1), ("TAB-2", tab.tab2), ("TAB-3", tab.tab3), ("BIT-3", bit.bit3), ("FLW-8", flw2.flw8), ("FLW-8c", r5.flw8c), ("FLW-8s", r5.flw8s), ("ENV-4", env4mod.env4), ("POL-1", pol.pol1), ("SHR-5", r5.shr5), ("TAB-9", r5.tab9), ("SUP-8", r5.sup8), ("TAB-11", r5.tab11), ("POL-2", r5.pol2), ("TAB-14", r5.tab14), ("SUP-12", r5.sup12)],
        "explanation": "SUP-12: SubRule::match_modifiers / match_supr_mod_seg answer a constant `Ok(false)` only on paths dominated by a call to a component matcher (match_feat_mod, match_node_mod, match_stress, match_seg_length): a matrix is refused only because a named feature, node or suprasegmental was tested and differed, never by a shortcut on the shape of the segment. ENV-4: in match_contexts_and_exceptions the contexts are matched before the exceptions, so an alpha first bound in the context carries into the exception. POL-1 decides the sign clauses ('named value', 'or its inverse with -α') as sibling agreement: in each of the 39 matches on BinMod / AlphaMod of the library, arms with the same skeleton differ in polarity (never the same code for both signs), and the sites whose meaning the accessors fix -- third argument of Segment::set_feat / feat_match, `Alpha::Feature(f != 0)` -- receive the positive polarity in the Positive / Alpha arm and the negative one in the Negative / InvAlpha arm. FLW-8 decides the scoping clause of alpha binding ('in the same application'): on MIR, every call of input_match_at in SubRule::apply is dominated inside the scan loop by HashMap::clear of both `alphas` and `variables` (directly or through a SubRule method that clears on every path), and every restart of a partial input match in input_match_at (`state_index = 0` inside the loop) is paired in the same iteration with clears of both tables. BIT-3 decides the single-feature equations of C04 for all segments at once by bit-level abstract interpretation of Segment::{get_node,set_node,set_feat,feat_match}: on a symbolic segment (3 symbolic bytes, place = one of 17 presence shapes with symbolic payloads), for every node, single-bit mask and polarity: feat_match is the named bit (its negation for -) and false on an absent sub-node; set_feat(+) yields old|bit (creating an absent sub-node with its other bits 0), set_feat(-) yields old&!bit and is the identity on an absent sub-node; every other node reads exactly as before; the feature then matches with the polarity set. Tables: the hand-maintained index tables (FType/NodeType/NodeKind "
                       "from_usize & count, DiaFeatType = NodeType++FType, hm_to_mod split constant, modifier array lengths, "
                       "diacritics.json keys) agree, the 16-bit place packing is laid out consistently and used consistently by its accessors (TAB-3, see C18), and FType::to_node_mask maps every feature to exactly one bit, bits of a node "
                       "disjoint and contiguous and equal to the Place masks, enum order node-contiguous. A necessary condition: a "
                       "duplicated/two-bit mask or a shifted index makes [+F] test or alter another feature.",
        "does_not_decide": "Segment::apply_seg_mods node/alpha logic above set_feat/set_node, alpha capture and replay.",
        "assumptions": ["HIR literals and resolved paths as type-checked by rustc are the table contents",
                        "root/manner/laryngeal widths (3/8/3 low bits) as documented on `Segment` and used by cardinals.json"],
    },
    "C18": {
        "controls": ["BIT"],
        "rules": [("TAB-3", tab.tab3), ("BIT-1", bit.bit1), ("BIT-2", bit.bit2), ("BIT-3", bit.bit3)],
        "explanation": "BIT-1/2/3 decide the get/set/match equations of C18 for every value by bit-level abstract interpretation of the accessors' MIR (rules/bitdom.py: forward dataflow over symbolic bits, branches on decided conditions pruned, calls to local functions followed context-sensitively): the layout (presence bit, payload bits per sub-node) is derived from the getters; for 16 canonical presence shapes + None + 16 raw shapes with symbolic junk in absent payloads (together all 2^16 words), get_X after set_X(Some(m)/None) is Some(m)/None, get_Y (Y != X) is unchanged, X_is_some/X_is_none agree, the raw word after a setter is canonical (absent => no residual payload bits; last sub-node removed => None); Segment::{get_node,set_node,set_feat,feat_match,node_match} satisfy the corresponding equations on a symbolic segment for 7 nodes x single-bit masks x polarities, and NodeKind::Place is refused by getter and setter alike. TAB-3 additionally decides the layout-agreement clause: Place's 15 constants describe four disjoint presence bits and four "
                       "disjoint contiguous payload fields covering 16 bits with X_LOW == X_MSK << X_OFF; every accessor uses only its own "
                       "sub-node's constants (is_some tests X_BIT, get_X is guarded by X_is_some and shifts/masks by X_OFF/X_MSK, set_X(Some) "
                       "sets X_BIT and clears exactly X_LOW, set_X(None) clears exactly X_BIT|X_LOW) and every setter ends in the Some(0)->None "
                       "normalisation; Segment::{get,set}_node dispatch each NodeKind to the accessor of the same name.",
        "does_not_decide": "out-of-range payloads in release builds (the debug_assert is the only guard; TAB-2 bounds the masks that reach the setters); multi-bit masks (the feature table has single-bit masks only, TAB-2); node_match(Some(v)) on a present node (equality of two symbolic bytes).",
        "assumptions": ["constants const-evaluated by rustc", "rule compares which constants/literals are used under which operator, "
                        "not arbitrary arithmetic: an equivalent rewrite in a different idiom fails closed"],
    },
}
