"""FLW engine, part 1 — flow / effect rules on MIR and HIR.

FLW-1  no write to the word before / without a successful match (C06)
FLW-2  romaniser / deromaniser two-colour provenance (C15)
FLW-3  tracer ≍ runner sibling agreement and Change provenance (C16)
"""
import hirq
from core import AnchorMissing, RuleResult, fn_loc, short_loc
from engine_err import for_loops, expr_name, enumerate_index, single_lets
from engine_cli import arg_name, all_calls, all_calls_node
from facts import callee_path

WORD = "asca::word::Word"


# ---------------------------------------------------------------- value tracking on MIR


def track_value(body, start_local):
    """Locals that hold the value produced into `start_local`, through moves/copies, `?`
    (Try::branch + Continue payload), boolean negation and discriminant reads.
    Returns {local: (polarity, kind)} with kind in {'val','try','discr'}."""
    out = {start_local: (1, "val")}
    changed = True
    while changed:
        changed = False
        for blk in body.blocks:
            for s in blk["s"]:
                if s["k"] != "assign" or s["lhs"]["p"]:
                    continue
                dst = s["lhs"]["l"]
                rv = s["rv"]
                new = None
                if rv["k"] == "use" and rv["op"].get("k") in ("copy", "move"):
                    pl = rv["op"]["pl"]
                    src = pl["l"]
                    if src in out:
                        pol, kind = out[src]
                        if not pl["p"] and kind in ("val", "discr"):
                            new = (pol, kind)
                        elif kind == "try" and len(pl["p"]) == 2 and isinstance(pl["p"][0], dict) and pl["p"][0].get("v") == "Continue":
                            new = (pol, "val")
                elif rv["k"] == "unop" and rv["op"] == "Not" and rv["a"].get("k") in ("copy", "move"):
                    pl = rv["a"]["pl"]
                    if pl["l"] in out and not pl["p"] and out[pl["l"]][1] == "val":
                        new = (-out[pl["l"]][0], "val")
                elif rv["k"] == "discr":
                    pl = rv["pl"]
                    if pl["l"] in out and not pl["p"] and out[pl["l"]][1] == "val" and rv.get("adt") != "core::ops::control_flow::ControlFlow":
                        new = (out[pl["l"]][0], "discr:" + ",".join("%d=%s" % (d, n) for d, n in rv.get("variants", [])))
                if new and out.get(dst) != new:
                    out[dst] = new
                    changed = True
            t = blk["t"]
            if t["k"] == "call" and not t["dest"]["p"]:
                cp = callee_path(t) or ""
                if cp.endswith("as core::ops::try_trait::Try>::branch") and t["args"] and t["args"][0].get("k") in ("copy", "move"):
                    pl = t["args"][0]["pl"]
                    if pl["l"] in out and not pl["p"] and out[pl["l"]][1] == "val":
                        new = (out[pl["l"]][0], "try")
                        if out.get(t["dest"]["l"]) != new:
                            out[t["dest"]["l"]] = new
                            changed = True
    return out


def guard_switches(body, vals):
    """[(block, succ_when_true, succ_when_false)] for boolean switches on tracked values,
    [(block, {variant: succ})] for discriminant switches."""
    bools, discrs = [], []
    for i, blk in enumerate(body.blocks):
        t = blk["t"]
        if t["k"] != "switch" or t["op"].get("k") not in ("copy", "move"):
            continue
        pl = t["op"]["pl"]
        if pl["p"] or pl["l"] not in vals:
            continue
        pol, kind = vals[pl["l"]]
        if kind == "val":
            zero = dict((v, tgt) for v, tgt in t["vals"]).get(0)
            if zero is None:
                continue
            f_succ, t_succ = zero, t["otherwise"]
            if pol < 0:
                f_succ, t_succ = t_succ, f_succ
            bools.append((i, t_succ, f_succ))
        elif kind.startswith("discr:"):
            names = dict((int(x.split("=")[0]), x.split("=")[1]) for x in kind[6:].split(","))
            m = {}
            for v, tgt in t["vals"]:
                m[names.get(v, str(v))] = tgt
            rest = [n for d, n in names.items() if n not in m]
            if len(rest) == 1:
                m[rest[0]] = t["otherwise"]
            discrs.append((i, m))
    return bools, discrs


def only_reachable_via(cfg, switch_blk, bad_succ, target):
    """target cannot be reached from bad_succ without passing the switch again"""
    return target not in cfg.reachable_from(bad_succ, avoid={switch_blk}) and bad_succ != target


def find_calls(body, suffix):
    return [(i, t) for i, t in body.calls() if (callee_path(t) or "").endswith(suffix)]


# ---------------------------------------------------------------- FLW-1


def flw1(ctx):
    r = RuleResult("FLW-1", "nothing is written to the word before, or without, a full match plus environment check; blank/comment lines yield no rule", floor=19)
    lib = ctx.lib
    SR = "asca::subrule::SubRule::"
    ap = ctx.fn(lib, SR + "apply")
    tr = ctx.fn(lib, SR + "transform")
    # ---- 1a: matchers receive the word immutably; data types are Freeze
    for root in ("input_match_at", "match_contexts_and_exceptions", "insertion_match", "insertion_match_exceptions"):
        b = ctx.fn(lib, SR + root)
        wtys = [t for t in b.param_tys if "asca::word::Word" in t]
        ok = bool(wtys) and all(t == "&asca::word::Word" for t in wtys)
        r.inst("matcher %s takes the word as &Word (%s)" % (root, wtys), fn_loc(b), "ok" if ok else "report")
        if not ok:
            r.report("FLW-1a|sig|%s" % root, fn_loc(b), b.path,
                     "matcher %s receives the word as %s: a failed or partial match could leave it modified" % (root, wtys))
    for tp in ("asca::word::Word", "asca::syll::Syllable", "asca::seg::Segment"):
        a = ctx.adt(lib, tp)
        r.inst("%s is Freeze: a shared reference cannot be written through" % tp, short_loc(a["loc"]), "ok" if a["freeze"] else "report")
        if not a["freeze"]:
            r.report("FLW-1a|freeze|%s" % tp, short_loc(a["loc"]), tp, "%s has interior mutability: `&Word` no longer implies read-only" % tp)
    reach = lib.reachable([SR + x for x in ("input_match_at", "match_contexts_and_exceptions", "insertion_match", "insertion_match_exceptions")])
    from engine_pur import user_unsafe_blocks, UNSAFE_ALLOWED
    for p in sorted(reach):
        b = lib.body(p)
        if b is None:
            continue
        for ub in user_unsafe_blocks(b):
            ok = p in UNSAFE_ALLOWED
            r.inst("unsafe block in matcher call tree: %s" % p, fn_loc(b, ub["ln"]), ("accepted:" + UNSAFE_ALLOWED[p]) if ok else "report", nontrivial=not ok)
            if not ok:
                r.report("FLW-1a|unsafe|%s" % p, fn_loc(b, ub["ln"]), p, "unsafe code in the matchers' call tree can write through a shared reference")
    # in the scan function, the word local is assigned only from the parameter and from transform's result
    word_locals = [i for i, l in enumerate(ap.locals) if l["ty"] == WORD]
    tr_calls = find_calls(ap, "SubRule::transform")
    tr_dests = set()
    for i, t in tr_calls:
        tr_dests |= set(track_value(ap, t["dest"]["l"]).keys())
    bad_assign = []
    for bi, blk in enumerate(ap.blocks):
        for s in blk["s"]:
            if s["k"] == "assign" and not s["lhs"]["p"] and s["lhs"]["l"] in word_locals:
                rv = s["rv"]
                src = rv["op"]["pl"]["l"] if rv["k"] == "use" and rv["op"].get("k") in ("copy", "move") else None
                if src is None or not (src in word_locals or src in tr_dests or src <= ap.mir["arg_count"]):
                    bad_assign.append(short_loc(s["loc"]))
            if s["k"] == "assign" and s["rv"]["k"] == "ref" and s["rv"].get("mut") and ap.local_ty(s["rv"]["pl"]["l"]) == WORD:
                bad_assign.append(short_loc(s["loc"]) + " (&mut word)")
        t = blk["t"]
        if t["k"] == "call" and not t["dest"]["p"] and t["dest"]["l"] in word_locals and not (callee_path(t) or "").endswith("SubRule::transform"):
            bad_assign.append(short_loc(t["loc"]) + " (call result)")
    r.inst("SubRule::apply: the word is only ever replaced by the result of transform (no &mut borrow, no other producer)", fn_loc(ap),
           "ok" if not bad_assign else "report")
    if bad_assign:
        r.report("FLW-1a|apply|word-writes", bad_assign[0], ap.path, "the word is written at %s outside the guarded transform call" % bad_assign)
    # ---- 1b.1: transform in the scan loop is guarded by a non-empty match and a true environment check
    cfg = ap.cfg
    loop_tr = [(i, t) for i, t in tr_calls if cfg.loops_containing(i)]
    entry_tr = [(i, t) for i, t in tr_calls if not cfg.loops_containing(i)]
    if not loop_tr:
        raise AnchorMissing("SubRule::apply: no transform call inside the scan loop")
    ima = find_calls(ap, "SubRule::input_match_at")
    mce = find_calls(ap, "SubRule::match_contexts_and_exceptions")
    if len(ima) != 1 or len(mce) != 1:
        raise AnchorMissing("SubRule::apply: expected one input_match_at and one match_contexts_and_exceptions call")
    # `res` = first tuple component of input_match_at's Ok payload; find is_empty() on it
    res_vals = track_value(ap, ima[0][1]["dest"]["l"])
    empties = []
    for i, t in find_calls(ap, "alloc::vec::Vec::is_empty"):
        empties.append((i, t))
    for T, tt in loop_tr:
        # (a) non-empty match
        ok_a = False
        for i, t in empties:
            if not cfg.dominates(ima[0][0], i) or not cfg.dominates(i, T):
                continue
            vals = track_value(ap, t["dest"]["l"])
            bools, _ = guard_switches(ap, vals)
            for sb, t_succ, f_succ in bools:
                # true = "is empty": transform must not be reachable from the `empty` successor
                if only_reachable_via(cfg, sb, t_succ, T) and cfg.dominates(sb, T):
                    ok_a = True
        r.inst("SubRule::apply: transform is reachable only when the input match is non-empty", short_loc(tt["loc"]), "ok" if ok_a else "report")
        if not ok_a:
            r.report("FLW-1b|apply|nonempty", short_loc(tt["loc"]), ap.path, "transform can be reached although `res.is_empty()`: a write without an input match")
        # (b) environment check true
        vals = track_value(ap, mce[0][1]["dest"]["l"])
        bools, _ = guard_switches(ap, vals)
        ok_b = False
        for sb, t_succ, f_succ in bools:
            if cfg.dominates(sb, T) and only_reachable_via(cfg, sb, f_succ, T):
                ok_b = True
        ok_b = ok_b and cfg.dominates(mce[0][0], T)
        r.inst("SubRule::apply: transform is reachable only on the `true` edge of match_contexts_and_exceptions", short_loc(tt["loc"]),
               "ok" if ok_b else "report")
        if not ok_b:
            r.report("FLW-1b|apply|env-check", short_loc(tt["loc"]), ap.path,
                     "transform is not guarded by a successful context/exception check (called before it, or on its false edge)")
    # entry call for insertion rules
    for T, tt in entry_tr:
        first = hirq.strip((ap.hir["body"].get("stmts") or [None])[0] or {})
        ok = False
        if first.get("e") == "if":
            cond = first["cond"]
            mentions = [n.get("path") for n in hirq.walk(cond) if n["e"] == "path"]
            ok = any((m or "").endswith("RuleType::Insertion") for m in mentions) and any(
                n["e"] == "binary" and n["op"] == "Eq" for n in hirq.walk(cond)) and any(
                n["e"] == "mcall" and (n.get("def") or "").endswith("SubRule::transform") for n in hirq.walk(first["then"]))
        r.inst("SubRule::apply: the unguarded transform call is the `rule_type == Insertion` entry", short_loc(tt["loc"]), "ok" if ok else "report")
        if not ok:
            r.report("FLW-1b|apply|entry", short_loc(tt["loc"]), ap.path, "a transform call outside the scan loop is not the insertion entry")
    # ---- 1b.2: insertion loop in transform
    cfgt = tr.cfg
    ins = find_calls(tr, "SubRule::insert")
    im = find_calls(tr, "SubRule::insertion_match")
    ime = find_calls(tr, "SubRule::insertion_match_exceptions")
    if len(ins) != 1 or len(im) != 1 or len(ime) != 1:
        raise AnchorMissing("SubRule::transform: expected one insert / insertion_match / insertion_match_exceptions call each (%d/%d/%d)" % (len(ins), len(im), len(ime)))
    T, tt = ins[0]
    vals = track_value(tr, im[0][1]["dest"]["l"])
    _, discrs = guard_switches(tr, vals)
    ok = False
    for sb, m in discrs:
        if "Some" in m and "None" in m and cfgt.dominates(sb, T) and only_reachable_via(cfgt, sb, m["None"], T):
            ok = True
    r.inst("SubRule::transform: insert is reachable only when insertion_match returned Some", short_loc(tt["loc"]), "ok" if ok else "report")
    if not ok:
        r.report("FLW-1b|insert|some", short_loc(tt["loc"]), tr.path, "insert can be reached without an insertion point")
    vals = track_value(tr, ime[0][1]["dest"]["l"])
    bools, _ = guard_switches(tr, vals)
    ok = False
    for sb, t_succ, f_succ in bools:
        if cfgt.dominates(sb, T) and only_reachable_via(cfgt, sb, t_succ, T):
            ok = True
    ok = ok and cfgt.dominates(ime[0][0], T)
    r.inst("SubRule::transform: insert is reachable only when insertion_match_exceptions returned false", short_loc(tt["loc"]), "ok" if ok else "report")
    if not ok:
        r.report("FLW-1b|insert|exception", short_loc(tt["loc"]), tr.path, "insert is not guarded by a failed exception match")
    # ---- 1c: blank / comment lines
    prg = ctx.fn(lib, "asca::parse_rule_groups")
    # a helper of lib.rs that runs the parser is looked through
    prg_root = hirq.inline_helpers(lib, prg, prefixes=("asca::",), only_if=lambda cb: cb.path.count("::") == 1 and any(
        c["e"] == "mcall" and (c.get("def") or "").endswith("parser::Parser::parse") for c in hirq.walk(cb.hir["body"])))
    pushes = [n for n in hirq.walk(prg_root) if n["e"] == "mcall" and n["name"] == "push" and not n.get("exp")]
    cond_push = None
    for n in hirq.walk(prg_root):
        if n["e"] == "if":
            lc = [c for c in hirq.walk(n["cond"]) if c["e"] == "letcond"]
            if lc and (lc[0]["pat"].get("path") or "").endswith("Option::Some"):
                ps = [p for p in hirq.walk(n["then"]) if p["e"] == "mcall" and p["name"] == "push"]
                parse_calls = [c for c in hirq.walk(lc[0]["init"]) if c["e"] == "mcall" and (c.get("def") or "").endswith("parser::Parser::parse")]
                if not parse_calls and any(x.get("inl") for x in hirq.walk(lc[0]["init"])):
                    # the scrutinee is an expanded helper: its result derives from Parser::parse if every value it yields does
                    parse_calls = [c for c in hirq.walk(lc[0]["init"]) if c["e"] == "mcall" and (c.get("def") or "").endswith("parser::Parser::parse")]
                if not parse_calls:
                    # `let maybe_rule = Parser::new(..).parse()?; if let Some(rule) = maybe_rule { push }`
                    prg_lets = {n2["pat"]["hid"]: n2["init"] for n2 in hirq.walk(prg_root)
                                if n2["e"] == "let" and n2["pat"].get("p") == "bind" and n2.get("init") is not None and "hid" in n2["pat"]}
                    h = hirq.path_hid(lc[0]["init"])
                    hops = 0
                    while h in prg_lets and hops < 4 and not parse_calls:
                        parse_calls = [c for c in hirq.walk(prg_lets[h]) if c["e"] == "mcall" and (c.get("def") or "").endswith("parser::Parser::parse")]
                        h = hirq.path_hid(prg_lets[h])
                        hops += 1
                if ps and parse_calls:
                    cond_push = ps[0]
    ok = cond_push is not None
    r.inst("parse_rule_groups pushes a rule only when Parser::parse returned Some", fn_loc(prg), "ok" if ok else "report")
    if not ok:
        r.report("FLW-1c|parse_rule_groups", fn_loc(prg), prg.path, "a rule is pushed although Parser::parse may have returned None")
    pp = ctx.fn(lib, "asca::parser::Parser::parse")
    top = hirq.strip(pp.hir["body"])
    while top.get("e") == "block" and top.get("tail") is not None and not top.get("stmts"):
        top = hirq.strip(top["tail"])
    ok = False
    if top.get("e") == "if":
        kinds = sorted({(n.get("path") or "").rsplit("::", 1)[-1] for n in hirq.walk(top["cond"]) if n["e"] == "path" and "TokenKind::" in (n.get("path") or "")})
        then_none = any(n["e"] == "path" and (n.get("path") or "").endswith("Option::None") for n in hirq.walk(top["then"]))
        else_rule = any(n["e"] == "mcall" and (n.get("def") or "").endswith("Parser::rule") for n in hirq.walk(top.get("else") or {}))
        ors = [n for n in hirq.walk(top["cond"]) if n["e"] == "binary" and n["op"] == "Or"]
        ok = kinds == ["Comment", "Eol"] and then_none and else_rule and len(ors) == 1
    r.inst("Parser::parse returns None exactly when the line starts with Eol or Comment", fn_loc(pp), "ok" if ok else "report")
    if not ok:
        r.report("FLW-1c|Parser::parse", fn_loc(pp), pp.path, "Parser::parse does not map exactly {Eol, Comment}-initial lines to None and everything else to a rule")
    return r


# ---------------------------------------------------------------- FLW-2

TRANSF = "asca::alias::Transformation"
# temporaries of a literal `&[]` argument: a borrowed slice can only come from a parameter (checked), a Vec (checked) or the empty literal
EMPTY_ALIAS_TEMPS = ("&[asca::alias::Transformation; 0]", "[asca::alias::Transformation; 0]", "&[asca::alias::Transformation]")


def flw2(ctx):
    r = RuleResult("FLW-2", "deromanisers reach only word parsing, romanisers only rendering; no alias reaches rule application", floor=12)
    lib = ctx.lib
    pa = ctx.fn(lib, "asca::parse_aliases")
    # colours of the returned tuple
    ret = None
    for n in hirq.walk(pa.hir["body"]):
        if n["e"] == "call" and (hirq.strip(n["f"]).get("path") or "").endswith("Result::Ok") and not n.get("exp"):
            t = hirq.strip(n["args"][0])
            if t.get("e") == "tup" and len(t["items"]) == 2:
                ret = [arg_name(x) for x in t["items"]]
    if not ret:
        raise AnchorMissing("parse_aliases: `Ok((a, b))` not found")
    # colour propagation (HirId-keyed; helpers of this module are looked through): a container is coloured by the AliasKind
    # used in the outermost loop that writes it and by the colours of the containers its value is computed from (fixpoint)
    pa_root = hirq.inline_helpers(lib, pa, prefixes=("asca::",), only_if=lambda cb: cb.path.startswith("asca::") and cb.path.count("::") == 1
                                  and any(n["e"] == "call" and "AliasLexer::new" in (hirq.strip(n["f"]).get("path") or "") for n in hirq.walk(cb.hir["body"])))
    let_by_hid = {}
    for n in hirq.walk(pa_root):
        if n["e"] == "let" and n["pat"].get("p") == "bind" and n.get("init") is not None and "hid" in n["pat"]:
            let_by_hid[n["pat"]["hid"]] = n["init"]
    phid = {}
    for p_ in pa.hir.get("params") or []:
        for q in hirq.walk_pats(p_):
            if q.get("p") == "bind":
                phid[q["hid"]] = q["name"]

    def resolve(e, depth=0):
        """follow plain renamings (`let lines = into`) back to a parameter name or an AliasKind constant"""
        e0 = hirq.strip(e)
        while e0.get("e") in ("addr", "unary"):
            e0 = hirq.strip(e0["a"])
        if e0.get("e") == "path" and "alias::AliasKind::" in (e0.get("path") or ""):
            return ("kind", e0["path"].rsplit("::", 1)[-1])
        if e0.get("e") == "path" and "hid" in e0:
            if e0["hid"] in phid:
                return ("param", phid[e0["hid"]])
            if e0["hid"] in let_by_hid and depth < 6:
                return resolve(let_by_hid[e0["hid"]], depth + 1)
        return None

    def kinds_in(node):
        out = set()
        for n in hirq.walk(node):
            if n["e"] == "path":
                rv = resolve(n)
                if rv and rv[0] == "kind":
                    out.add(rv[1])
        return out
    loops = for_loops(pa_root)
    loop_nodes = [(pat, it, body, ln, {id(x) for x in hirq.walk(body)} if body is not None else set()) for pat, it, body, ln in loops]
    outer = [L for L in loop_nodes if not any(id(L[2]) in M[4] for M in loop_nodes if M is not L)]
    colours = {}
    for pat, it, body, ln, ids in outer:
        base = resolve(_strip_iter(it))
        kinds = kinds_in(body)
        if base and base[0] == "param":
            want = {"into": "Deromaniser", "from": "Romaniser"}.get(base[1])
            okk = want is not None and kinds == {want}
            r.inst("parse_aliases: loop over `%s` parses with %s" % (base[1], sorted(kinds)), fn_loc(pa, ln), "ok" if okk else "report")
            if not okk:
                r.report("FLW-2|parse_aliases|loop|%s" % base[1], fn_loc(pa, ln), pa.path,
                         "the loop over `%s` uses alias kinds %s (expected %s only)" % (base[1], sorted(kinds), want))
    flows = []       # (target hid, kinds, source hids)
    for n in hirq.walk(pa_root):
        if n["e"] == "mcall" and n["name"] in ("extend", "push", "append", "insert", "extend_from_slice"):
            rc = hirq.path_hid(n["recv"])
            k = set()
            for pat, it, body, ln, ids in outer:
                if id(n) in ids:
                    k |= kinds_in(body)
            mentioned = {m["hid"] for a in n["args"] for m in hirq.walk(a) if m["e"] == "path" and "hid" in m}
            if rc is not None:
                flows.append((rc, k, mentioned))
        if n["e"] == "let" and n["pat"].get("p") == "bind" and n.get("init") is not None and TRANSF in (n["pat"].get("ty") or ""):
            mentioned = {m["hid"] for m in hirq.walk(n["init"]) if m["e"] == "path" and "hid" in m}
            flows.append((n["pat"]["hid"], set(), mentioned))
    changed = True
    while changed:
        changed = False
        for rc, k, mentioned in flows:
            new = set(k)
            for m in mentioned:
                new |= colours.get(m, set())
            if not new <= colours.get(rc, set()):
                colours[rc] = colours.get(rc, set()) | new
                changed = True
    name_hids = {}
    for n in hirq.walk(pa_root):
        if n["e"] == "path" and "hid" in n and "local" in n:
            name_hids.setdefault(n["local"], set()).add(n["hid"])
    colour_of = {}
    for nm in ret:
        ks = set()
        # the returned names are bindings of parse_aliases itself (un-shifted HirIds)
        for h in name_hids.get(nm, ()):
            if h < 100000:
                ks |= colours.get(h, set())
        if ks == {"Deromaniser"}:
            colour_of[nm] = "derom"
        elif ks == {"Romaniser"}:
            colour_of[nm] = "rom"
        elif ks:
            colour_of[nm] = "mixed"
    cols = [colour_of.get(x) for x in ret]
    ok = cols == ["derom", "rom"]
    r.inst("parse_aliases returns (deromanisers, romanisers) = (%s, %s)" % tuple(ret), fn_loc(pa), "ok" if ok else "report")
    if not ok:
        r.report("FLW-2|parse_aliases|return", fn_loc(pa), pa.path, "parse_aliases returns (%s, %s) coloured %s; expected (deromanisers, romanisers)" % (ret[0], ret[1], cols))
    # consumers: colour locals by destructuring position; propagate into callee parameters
    param_colour = {}     # (fn path, param index) -> set of colours

    def colour_arg(e, env):
        e0 = hirq.strip(e)
        while e0.get("e") == "addr":
            e0 = hirq.strip(e0["a"])
        if e0.get("e") == "array" and not e0.get("items"):
            return "empty"
        if e0.get("e") == "path" and "local" in e0:
            return env.get(e0["local"])
        if e0.get("e") == "call" and (hirq.strip(e0["f"]).get("path") or "").endswith("Vec::new"):
            return "empty"
        return None

    work = []
    for b in lib.bodies:
        if b.in_test_mod() or not b.hir or b.kind == "closure":
            continue
        env = {}
        for n in hirq.walk(b.hir["body"]):
            if n["e"] == "let" and n["pat"].get("p") == "tup" and n.get("init") is not None and len(n["pat"]["pats"]) == 2:
                calls = [c for c in hirq.walk(n["init"]) if c["e"] == "call" and hirq.strip(c["f"]).get("path") == "asca::parse_aliases"]
                if calls:
                    for p, col in zip(n["pat"]["pats"], ("derom", "rom")):
                        if p.get("p") == "bind":
                            env[p["name"]] = col
                    # arguments of parse_aliases: (into, from)
                    an = [arg_name(a) for a in calls[0]["args"]]
                    a1 = hirq.strip(calls[0]["args"][1])
                    while a1.get("e") == "addr":
                        a1 = hirq.strip(a1["a"])
                    empty2 = a1.get("e") == "array" and not a1.get("items")
                    ok = (an[0] is None or "from" not in an[0]) and (empty2 or an[1] is None or "into" not in an[1])
                    r.inst("%s calls parse_aliases(%s, %s)" % (b.path, an[0], "[]" if empty2 else an[1]), fn_loc(b, n["ln"]), "ok" if ok else "report")
                    if not ok:
                        r.report("FLW-2|%s|parse_aliases-args" % b.path, fn_loc(b, n["ln"]), b.path,
                                 "parse_aliases(into, from) is called with (%s, %s)" % (an[0], an[1]))
        if env:
            work.append((b, env))
    # propagate colours through calls (fixed point over local functions taking &[Transformation] / Vec<Transformation>)
    seen_env = {}
    queue = list(work)
    steps = 0
    while queue and steps < 200:
        steps += 1
        b, env = queue.pop()
        key = (b.path, tuple(sorted(env.items())))
        if key in seen_env:
            continue
        seen_env[key] = True
        for callee, args, ln in all_calls(b):
            cb = lib.body(callee)
            if cb is None or not cb.param_tys:
                continue
            for i, (pt, a) in enumerate(zip(cb.param_tys, args)):
                if TRANSF not in pt:
                    continue
                col = colour_arg(a, env)
                param_colour.setdefault((callee, i), set()).add((col, "%s:%s" % (b.path, ln)))
                if col in ("derom", "rom") and cb.hir and cb.param_names[i]:
                    queue.append((cb, {cb.param_names[i]: col}))
    oblig = [("asca::word::Word::new", "aliases", {"derom"}, "deromanisers only"),
             ("asca::word::Word::render", "aliases", {"rom", "empty"}, "romanisers or the empty list")]
    for fpath, pname, allowed, text in oblig:
        fb = ctx.fn(lib, fpath)
        idx = fb.param_names.index(pname) if pname in fb.param_names else None
        if idx is None:
            raise AnchorMissing("%s has no `%s` parameter" % (fpath, pname))
        cols = param_colour.get((fpath, idx), set())
        nontest = {(c, w) for c, w in cols if "_tests::" not in w}
        if not nontest:
            raise AnchorMissing("no coloured call of %s found" % fpath)
        for c, w in sorted(nontest, key=lambda x: str(x)):
            ok = c in allowed
            b_ = w.rsplit(":", 1)
            r.inst("%s(%s = %s) at %s" % (fpath.rsplit("::", 2)[-2] + "::" + fpath.rsplit("::", 1)[-1], pname, c, w.split("::", 1)[-1]), None, "ok" if ok else "report")
            if not ok:
                cb_ = lib.body(b_[0])
                r.report("FLW-2|%s|%s" % (fpath, b_[0]), fn_loc(cb_, int(b_[1])) if cb_ else "-", b_[0],
                         "%s receives %s aliases here; it must receive %s" % (fpath, {"derom": "deromaniser", "rom": "romaniser", None: "uncoloured", "empty": "no"}.get(c, c), text))
    # every call site of the two consumers is accounted for (coloured, or the literal empty list)
    envs = {}
    for b, env in work:
        envs.setdefault(b.path, {}).update(env)
    for (callee, i), cols in param_colour.items():
        cb = lib.body(callee)
        cs = {c for c, w in cols if "_tests::" not in w}
        if cb is not None and len(cs) == 1 and cb.param_names[i]:
            envs.setdefault(callee, {})[cb.param_names[i]] = list(cs)[0]
    for b in lib.bodies:
        if b.in_test_mod() or not b.hir or b.kind == "closure":
            continue
        for callee, args, ln in all_calls(b):
            for fpath, pname, allowed, text in oblig:
                if callee != fpath:
                    continue
                fb = lib.body(fpath)
                idx = fb.param_names.index(pname)
                col = colour_arg(args[idx], envs.get(b.path, {}))
                if col is None:
                    r.inst("%s -> %s: alias argument has no known origin" % (b.path, fpath), fn_loc(b, ln), "report")
                    r.report("FLW-2|%s|%s|origin" % (fpath, b.path), fn_loc(b, ln), b.path,
                             "%s is called with an alias list whose origin (deromanisers / romanisers) cannot be traced to parse_aliases" % fpath)
    # no alias in the rule-application call tree
    # (a consumer called with the literal empty list from inside rule application is not followed: no alias can reach it that way)
    consumers = {fpath: fb_.param_names.index(pname) for fpath, pname, _, _ in oblig for fb_ in [lib.body(fpath)] if fb_ is not None}
    g = lib.callgraph
    tree, stack = set(), ["asca::apply_rule_groups", "asca::apply_rules_trace"]
    while stack:
        f = stack.pop()
        if f in tree:
            continue
        tree.add(f)
        fb = lib.body(f)
        empties = set()
        if fb is not None and fb.hir and fb.kind != "closure":
            per = {}
            for callee, args, ln in all_calls(fb):
                if callee in consumers and consumers[callee] < len(args):
                    per.setdefault(callee, []).append(colour_arg(args[consumers[callee]], envs.get(f, {})))
            for callee, cols_ in per.items():
                if cols_ and all(c == "empty" for c in cols_):
                    empties.add(callee)
                    r.inst("%s calls %s with the empty alias list only" % (f, callee), fn_loc(fb), "accepted:empty list")
        for c in g.get(f, ()):
            if c not in tree and c not in empties:
                stack.append(c)
    bad = []
    for p in sorted(tree):
        fb = lib.body(p)
        if fb is None or fb.in_test_mod():
            continue
        if any(TRANSF in t for t in fb.param_tys) or any(TRANSF in (l.get("ty") or "") and (l.get("ty") or "") not in EMPTY_ALIAS_TEMPS for l in fb.locals[len(fb.param_tys) + 1:]):
            bad.append(p)
    r.inst("no function reachable from apply_rule_groups / apply_rules_trace mentions Transformation (%d bodies)" % len([p for p in tree if lib.body(p)]),
           None, "ok" if not bad else "report")
    for p in bad:
        fb = lib.body(p)
        r.report("FLW-2|apply-tree|%s" % p, fn_loc(fb), p, "%s is part of rule application and handles alias Transformations" % p)
    # render is read-only
    rd = ctx.fn(lib, "asca::word::Word::render")
    ok = rd.param_tys[0] == "&asca::word::Word"
    r.inst("Word::render takes &self", fn_loc(rd), "ok" if ok else "report")
    if not ok:
        r.report("FLW-2|render|self", fn_loc(rd), rd.path, "Word::render takes %s: printing could alter the word" % rd.param_tys[0])
    return r


def _strip_iter(it):
    e = hirq.strip(it)
    while e.get("e") in ("mcall", "addr"):
        e = hirq.strip(e["recv"] if e["e"] == "mcall" else e["a"])
    return e


# ---------------------------------------------------------------- FLW-3


def flw3(ctx):
    r = RuleResult("FLW-3", "tracer iterates groups and rules like the runner; Change records the group index and the phrase after that group", floor=19)
    lib = ctx.lib
    art = ctx.fn(lib, "asca::apply_rules_trace")
    body = art.hir["body"]
    p_rules, p_phrase = art.param_names[0], art.param_names[1]
    lets = single_lets(body)
    loops = for_loops(body)
    outer = None
    for pat, it, lb, ln in loops:
        e = enumerate_index(pat, it, with_adaptors=True, lets=lets)
        if e and expr_name(e[2]) == ("local", p_rules):
            outer = (e, lb, ln)
            break
    if not outer:
        raise AnchorMissing("apply_rules_trace: enumerate loop over the rule groups not found")
    (gi, gvar, _, gad), gbody, gln = outer
    r.inst("tracer: outer loop enumerates the rule groups front to back (adaptors %s)" % (gad or "none"), fn_loc(art, gln), "ok" if not gad else "report")
    if gad:
        r.report("FLW-3a|groups-adaptor", fn_loc(art, gln), art.path, "group loop goes through %s: rule_index no longer names the applied group" % gad)
    # carried phrase variable: `let mut X = phrase.clone()` before the loop
    carried = None
    for n in hirq.walk(body):
        if n["e"] == "let" and n["pat"].get("p") == "bind" and n.get("init") is not None:
            i0 = hirq.strip(n["init"])
            if i0.get("e") == "mcall" and i0["name"] == "clone" and expr_name(i0["recv"]) == ("local", p_phrase):
                carried = n["pat"]["name"]
                break
    if not carried:
        raise AnchorMissing("apply_rules_trace: `let mut res = phrase.clone()` not found")
    gst = [hirq.strip(s) for s in (gbody.get("stmts") or [])] + ([hirq.strip(gbody["tail"])] if gbody.get("tail") is not None else [])
    # snapshot, word loop, compare — in this order, as direct statements of the group loop
    snap_i = [i for i, s in enumerate(gst) if s.get("e") == "let" and s.get("init") is not None and hirq.strip(s["init"]).get("e") == "mcall"
              and hirq.strip(s["init"])["name"] == "clone" and expr_name(hirq.strip(s["init"])["recv"]) == ("local", carried)]
    wl_i = [i for i, s in enumerate(gst) if s.get("src") == "ForLoopDesugar"]
    if_i = [i for i, s in enumerate(gst) if s.get("e") == "if"]
    ok = len(snap_i) == 1 and len(wl_i) == 1 and len(if_i) == 1 and snap_i[0] < wl_i[0] < if_i[0] and len(gst) == 3
    r.inst("tracer: group body is exactly snapshot; word loop; compare-and-record", fn_loc(art, gln), "ok" if ok else "report")
    if not ok:
        r.report("FLW-3b|group-body", fn_loc(art, gln), art.path,
                 "the per-group body is not `let before = res.clone(); for words {..}; if res != before {record}` in this order")
        return r
    snap = gst[snap_i[0]]["pat"]["name"]
    # word loop
    wloops = for_loops(gst[wl_i[0]])
    w = wloops[0] if wloops else None
    we = enumerate_index(w[0], w[1], with_adaptors=True, lets=lets) if w else None
    by_ref = None
    if w and not we:
        # `for word in res.iter_mut()`: every word of the carried phrase, in order, by mutable reference
        it0 = hirq.strip(w[1])
        if it0.get("e") == "mcall" and it0["name"] == "iter_mut" and expr_name(it0["recv"]) == ("local", carried) and w[0].get("p") == "bind":
            by_ref = w[0]["name"]
            we = (None, by_ref, it0["recv"], [])
    okw = bool(we) and expr_name(we[2])[0] == "local" and expr_name(we[2])[1] in (p_phrase, carried) and not we[3]
    r.inst("tracer: word loop enumerates every word of the phrase", fn_loc(art, w[3]) if w else fn_loc(art), "ok" if okw else "report")
    if not okw:
        r.report("FLW-3a|words", fn_loc(art, w[3]) if w else fn_loc(art), art.path, "the word loop does not enumerate all words of the phrase in order")
        return r
    j = we[0]
    rl = for_loops(w[2])
    rule_loop = [x for x in rl if expr_name(_strip_iter(x[1])) == ("local", gvar)]
    adapt = []
    if rule_loop:
        e = hirq.strip(rule_loop[0][1])
        while e.get("e") in ("mcall", "addr"):
            if e["e"] == "mcall" and e["name"] not in ("iter",):
                adapt.append(e["name"])
            e = hirq.strip(e["recv"] if e["e"] == "mcall" else e["a"])
    okr = len(rule_loop) == 1 and not adapt
    r.inst("tracer: rule loop iterates the group's rules front to back", fn_loc(art, rule_loop[0][3]) if rule_loop else fn_loc(art), "ok" if okr else "report")
    if not okr:
        r.report("FLW-3a|rules", fn_loc(art), art.path, "the rule loop does not iterate the group's rules front to back (adaptors %s)" % adapt)
        return r
    rb = rule_loop[0][2]
    st = [hirq.strip(s) for s in (rb.get("stmts") or [])] + ([hirq.strip(rb["tail"])] if rb.get("tail") is not None else [])
    okf = False
    if len(st) == 1 and st[0].get("e") == "assign":
        lhs = hirq.strip(st[0]["lhs"])
        calls = [n for n in hirq.walk(st[0]["rhs"]) if n["e"] == "mcall" and (n.get("def") or "").endswith("rule::Rule::apply")]
        if by_ref and lhs.get("e") == "unary" and lhs.get("op") == "Deref" and len(calls) == 1:
            a0 = hirq.strip(calls[0]["args"][0])
            while a0.get("e") == "mcall" and a0["name"] == "clone":
                a0 = hirq.strip(a0["recv"])
            okf = (expr_name(lhs["a"]) == ("local", by_ref) and expr_name(a0) == ("local", by_ref)
                   and expr_name(calls[0]["recv"]) == ("local", sorted(_names(rule_loop[0][0]))[0]))
        elif lhs.get("e") == "index" and len(calls) == 1:
            a0 = hirq.strip(calls[0]["args"][0])
            while a0.get("e") == "mcall" and a0["name"] == "clone":
                a0 = hirq.strip(a0["recv"])
            okf = (expr_name(lhs["a"]) == ("local", carried) and expr_name(lhs["i"]) == ("local", j) and a0.get("e") == "index"
                   and expr_name(a0["a"]) == ("local", carried) and expr_name(a0["i"]) == ("local", j)
                   and expr_name(calls[0]["recv"]) == ("local", sorted(_names(rule_loop[0][0]))[0]))
    r.inst("tracer: innermost step is `res[j] = rule.apply(res[j].clone())?` (same word read and written)", fn_loc(art, rule_loop[0][3]), "ok" if okf else "report")
    if not okf:
        r.report("FLW-3a|step", fn_loc(art, rule_loop[0][3]), art.path, "the tracer's application step is not `res[j] = rule.apply(res[j].clone())?`")
    ex = [n for n in hirq.walk(gbody) if n["e"] in ("break", "continue", "ret") and not n.get("exp")]
    r.inst("tracer: no break/continue/return in the loops", fn_loc(art, gln), "ok" if not ex else "report")
    if ex:
        r.report("FLW-3a|exit", fn_loc(art, ex[0]["ln"]), art.path, "`%s` inside the tracer loops" % ex[0]["e"])
    # compare and record
    iff = gst[if_i[0]]
    c = hirq.strip(iff["cond"])
    okc = c.get("e") == "binary" and c["op"] == "Ne" and {expr_name(c["a"]), expr_name(c["b"])} == {("local", carried), ("local", snap)}
    r.inst("tracer: a change is recorded iff the whole phrase differs from the snapshot taken before the group", fn_loc(art, iff["ln"]), "ok" if okc else "report")
    if not okc:
        r.report("FLW-3b|compare", fn_loc(art, iff["ln"]), art.path, "the record condition is not `%s != %s` (whole phrase vs. pre-group snapshot)" % (carried, snap))
    ch = [n for n in hirq.walk(iff["then"]) if n["e"] == "struct" and (n.get("path") or "") == "asca::Change"]
    okp = False
    if len(ch) == 1:
        f = dict((k, v) for k, v in ch[0]["fields"])
        ri = expr_name(f.get("rule_index") or {})
        af = hirq.strip(f.get("after") or {})
        while af.get("e") == "mcall" and af["name"] == "clone":
            af = hirq.strip(af["recv"])
        okp = ri == ("local", gi) and expr_name(af) == ("local", carried)
    all_ch = [n for n in hirq.walk(body) if n["e"] == "struct" and (n.get("path") or "") == "asca::Change"]
    r.inst("tracer: Change { rule_index: <group index>, after: <phrase after the group> } built once, inside the record branch", fn_loc(art, iff["ln"]),
           "ok" if okp and len(all_ch) == 1 else "report")
    if not (okp and len(all_ch) == 1):
        r.report("FLW-3b|change", fn_loc(art, iff["ln"]), art.path, "Change is not built as { rule_index: %s, after: %s.clone() } in the record branch only" % (gi, carried))
    # ---- parse_rule_groups keeps one parsed group per input group (index agreement between tracer and caller's list)
    prg = ctx.fn(lib, "asca::parse_rule_groups")
    pl = for_loops(prg.hir["body"])
    outer_p = [x for x in pl if expr_name(_strip_iter(x[1])) == ("local", prg.param_names[0])]
    okg = False
    if outer_p:
        ob = outer_p[0][2]
        st = [hirq.strip(s) for s in (ob.get("stmts") or [])] + ([hirq.strip(ob["tail"])] if ob.get("tail") is not None else [])
        direct = [s for s in st if s.get("e") == "mcall" and s["name"] == "push"]
        allp = [n for n in hirq.walk(ob) if n["e"] == "mcall" and n["name"] == "push" and not n.get("exp")]
        e = hirq.strip(outer_p[0][1])
        ad = []
        while e.get("e") in ("mcall", "addr"):
            if e["e"] == "mcall" and e["name"] not in ("iter", "enumerate"):
                ad.append(e["name"])
            e = hirq.strip(e["recv"] if e["e"] == "mcall" else e["a"])
        okg = len(direct) == 1 and len(allp) == 2 and not ad and not [n for n in hirq.walk(ob) if n["e"] in ("break", "continue") and not n.get("exp")]
    r.inst("parse_rule_groups yields exactly one parsed group per input group (unconditional push)", fn_loc(prg), "ok" if okg else "report")
    if not okg:
        r.report("FLW-3c|parse_rule_groups|one-per-group", fn_loc(prg), prg.path,
                 "parsed groups are not in one-to-one, in-order correspondence with the caller's RuleGroup list: Change.rule_index would name the wrong group")
    # ---- printing
    tts = ctx.fn(lib, "asca::trace_to_string")
    idx = [n for n in hirq.walk(tts.hir["body"]) if n["e"] == "index" and expr_name(n["a"]) == ("local", tts.param_names[2])]
    oki = len(idx) == 1 and expr_name(idx[0]["i"])[0] == "field" and expr_name(idx[0]["i"])[2] == "rule_index"
    r.inst("trace_to_string names the group `rules[change.rule_index]`", fn_loc(tts), "ok" if oki else "report")
    if not oki:
        r.report("FLW-3c|trace_to_string|index", fn_loc(tts), tts.path, "the printed group name is not rules[change.rule_index]")
    aft = [n for n in hirq.walk(tts.hir["body"]) if n["e"] == "field" and n["name"] == "after"]
    r.inst("trace_to_string renders change.after", fn_loc(tts), "ok" if aft else "report")
    if not aft:
        r.report("FLW-3c|trace_to_string|after", fn_loc(tts), tts.path, "trace_to_string does not render change.after")
    for f in ("asca::get_trace_string", "asca::run_trace_wasm"):
        fb = ctx.fn(lib, f)
        a_parse = [arg_name(a[0]) for c, a, l in all_calls(fb) if c == "asca::parse_rule_groups"]
        a_print = [arg_name(a[2]) for c, a, l in all_calls(fb) if c == "asca::trace_to_string"]
        ok = len(a_parse) == 1 and a_parse == a_print
        r.inst("%s prints with the same rule list it parsed (%s)" % (f, a_parse), fn_loc(fb), "ok" if ok else "report")
        if not ok:
            r.report("FLW-3c|%s|same-rules" % f, fn_loc(fb), f, "parse_rule_groups gets %s but trace_to_string gets %s" % (a_parse, a_print))
    # ---- the change detector (`res_phrase != res_step`) is structural equality down to the feature bytes
    NOT_CONTENT = {("asca::word::Word", "americanist"): "rendering flag, not part of the word's content"}
    for ty in ("asca::Phrase", "asca::word::Word", "asca::syll::Syllable", "asca::seg::Segment", "asca::place::Place", "asca::syll::StressKind"):
        eqb = lib.body("<%s as core::cmp::PartialEq>::eq" % ty)
        if eqb is None:
            raise AnchorMissing("no PartialEq impl for %s (the tracer compares phrases with !=)" % ty)
        if eqb.exp:
            r.inst("%s: PartialEq is derived (field-wise)" % ty, fn_loc(eqb))
            continue
        adt = ctx.adt(lib, ty)
        fields = [f["name"] for f in adt["variants"][0]["fields"]]
        terms, bad = [], []

        def conj(e):
            e = hirq.strip(e)
            if e.get("e") == "binary" and e["op"] == "And":
                conj(e["a"]); conj(e["b"])
                return
            if e.get("e") == "block" and not e.get("stmts") and e.get("tail") is not None:
                conj(e["tail"])
                return
            if e.get("e") == "binary" and e["op"] == "Eq":
                a, b_ = expr_name(e["a"]), expr_name(e["b"])
                if a[0] == "field" and b_[0] == "field" and a[2] == b_[2] and {a[1], b_[1]} == {("local", "self"), ("local", eqb.param_names[1])}:
                    terms.append(a[2])
                    return
            bad.append(e.get("ln"))
        conj(eqb.hir["body"])
        missing = [f for f in fields if f not in terms and (ty, f) not in NOT_CONTENT]
        ok = not bad and not missing
        r.inst("%s: hand-written eq is the conjunction of %s" % (ty, terms), fn_loc(eqb), "ok" if ok else "report")
        for f in fields:
            if (ty, f) in NOT_CONTENT and f not in terms:
                e_ = {"site": "%s.%s" % (ty, f), "reason": NOT_CONTENT[(ty, f)]}
                if e_ not in r.exceptions:
                    r.exceptions.append(e_)
        if not ok:
            r.report("FLW-3d|%s|eq" % ty, fn_loc(eqb), eqb.path,
                     "equality of %s is not plain field-wise equality (%s): a group whose only effect is invisible to `==` drops out of the trace and is blamed on a later group"
                     % (ty.rsplit("::", 1)[-1], ("fields not compared: %s" % missing) if missing else "terms other than `self.f == other.f` joined by &&"))
    return r


def _names(p):
    return {q["name"] for q in hirq.walk_pats(p) if q.get("p") == "bind"}


# ---------------------------------------------------------------- FLW-10 end-of-word fallback


def flw10(ctx):
    """a match declared after the scan loop of input_match_at (the word ran out) must have tested how far the input was matched"""
    r = RuleResult("FLW-10", "input_match_at: a match reported after the word ran out is conditioned on `state_index` (only the trailing boundary may be unmatched); same for the insertion-point finders, whose end-of-word fallback is for boundaries only", floor=5)
    lib = ctx.lib
    b = ctx.fn(lib, "asca::subrule::SubRule::input_match_at")
    root = b.hir["body"]
    par = hirq.parent_map(root)
    loops = [n for n in hirq.walk(root) if n["e"] == "loop"]
    in_loop = set()
    for l in loops:
        in_loop |= {id(x) for x in hirq.walk(l)}
    n = 0
    for node in hirq.walk(root):
        if node["e"] != "call" or id(node) in in_loop or node.get("exp"):
            continue
        if not (hirq.strip(node["f"]).get("path") or "").endswith("Result::Ok"):
            continue
        a = hirq.strip(node["args"][0])
        if a.get("e") != "tup" or not a["items"]:
            continue
        first = hirq.strip(a["items"][0])
        if not (first.get("e") == "path" and "local" in first):
            continue            # `vec![]`: no match
        n += 1
        conds = []
        x = par.get(id(node))
        child = node
        while x is not None:
            if x.get("e") == "if" and any(y is child for y in hirq.walk(x["then"])) or (x.get("e") == "if" and x.get("else") is not None and any(y is child for y in hirq.walk(x["else"]))):
                conds.append(x["cond"])
            child = x
            x = par.get(id(x))
        # a condition may name a local that was computed from state_index (`let only_final_bound_left = .. && state_index == ..`)
        si_hids = {q.get("hid") for n_ in hirq.walk(root) if n_["e"] == "let" for q in hirq.walk_pats(n_["pat"]) if q.get("p") == "bind" and q.get("name") == "state_index"}
        derived = hirq.derived_hids(root, si_hids)
        tested = any(m["e"] == "path" and (m.get("local") == "state_index" or m.get("hid") in derived) for c in conds for m in hirq.walk(c))
        r.inst("after the scan loop a match is returned under %d conditions; `state_index` is %stested" % (len(conds), "" if tested else "not "), fn_loc(b, node["ln"]),
               "ok" if tested else "report")
        if not tested:
            r.report("FLW-10|input_match_at|fallback#%d" % (n - 1), fn_loc(b, node["ln"]), b.path,
                     "when the word runs out in the middle of an input match, a full match is reported without testing how many input elements were matched: unmatched elements before a trailing `$` are skipped and a rule that cannot match rewrites the word")
    if n == 0:
        raise AnchorMissing("input_match_at: no match returned after the scan loop (anchor for the end-of-word fallback)")
    # the insertion-point finders: `Some(end of word)` after the scan loop only for a context that is a single boundary
    for fname in ("insertion_after", "insertion_before"):
        fb = ctx.fn(lib, "asca::subrule::SubRule::" + fname)
        froot = fb.hir["body"]
        fpar = hirq.parent_map(froot)
        in_loop = set()
        for l in [x for x in hirq.walk(froot) if x["e"] == "loop"]:
            in_loop |= {id(x) for x in hirq.walk(l)}
        states_p = fb.param_names[1]
        seeds = {q.get("hid") for n_ in hirq.walk(froot) if n_["e"] == "let" for q in hirq.walk_pats(n_["pat"]) if q.get("p") == "bind" and q.get("name") == "state_index"}
        derived = hirq.derived_hids(froot, seeds)
        m = 0
        for node in hirq.walk(froot):
            if node["e"] != "call" or id(node) in in_loop or node.get("exp"):
                continue
            if not (hirq.strip(node["f"]).get("path") or "").endswith("Result::Ok"):
                continue
            a = hirq.strip(node["args"][0])
            if not (a.get("e") == "call" and (hirq.strip(a["f"]).get("path") or "").endswith("Option::Some")):
                continue
            # only fallbacks placed after the scan loop
            if not any(x["e"] == "loop" for x in hirq.walk(froot)) or node.get("ln", 0) < max(x["ln"] for x in hirq.walk(froot) if x["e"] == "loop"):
                continue
            m += 1
            conds = []
            negated = set()          # conditions of early exits: the fallback is reached where they are FALSE
            x, child = fpar.get(id(node)), node
            while x is not None:
                if x.get("e") == "if":
                    conds.append(x["cond"])
                if x.get("e") == "block":
                    # early exits before this point: `if <cond> { return .. }` as an earlier statement of an enclosing block
                    items = list(x.get("stmts", [])) + ([x["tail"]] if x.get("tail") is not None else [])
                    for st in items:
                        if st is child or any(y is child for y in hirq.walk(st)):
                            break
                        s0 = st.get("a") if st.get("e") == "semi" else st
                        s0 = hirq.strip(s0) if isinstance(s0, dict) else s0
                        if isinstance(s0, dict) and s0.get("e") == "if" and s0.get("else") is None and any(y["e"] == "ret" for y in hirq.walk(s0["then"])):
                            conds.append(s0["cond"])
                            negated.add(id(s0["cond"]))
                child = x
                x = fpar.get(id(x))
            def _mentions(c):
                return any((mm["e"] == "path" and (mm.get("local") == "state_index" or mm.get("hid") in derived)) or (
                    mm["e"] == "mcall" and mm["name"] == "len" and expr_name(mm["recv"]) == ("local", states_p)) for mm in hirq.walk(c))

            def _split(c, op):
                c = hirq.strip(c)
                if isinstance(c, dict) and c.get("e") == "binary" and c.get("op") == op:
                    return _split(c["a"], op) + _split(c["b"], op)
                return [c]
            lets = {}
            for lt in hirq.walk(froot):
                if lt["e"] == "let" and lt.get("init") is not None and lt["pat"].get("p") == "bind" and "hid" in lt["pat"]:
                    lets[lt["pat"]["hid"]] = lt["init"]

            def _norm(c, neg, depth=0):
                """look through `!` and through a named boolean (`let is_lone_boundary = ..; if !is_lone_boundary { return }`)"""
                c = hirq.strip(c)
                while isinstance(c, dict) and c.get("e") == "unary" and c.get("op") == "Not":
                    c, neg = hirq.strip(c["a"]), not neg
                if isinstance(c, dict) and c.get("e") == "path" and c.get("hid") in lets and depth < 3:
                    return _norm(lets[c["hid"]], neg, depth + 1)
                return c, neg
            # the test must hold on every way into the fallback: each alternative of an `||` has to make it; for an early
            # exit `if A && B { return }` the fallback is reached under `!A || !B`, so there each conjunct has to
            normed = [_norm(c, id(c) in negated) for c in conds]
            tested = any(all(_mentions(d) for d in _split(c, "And" if neg else "Or")) for c, neg in normed)
            r.inst("%s: the end-of-word insertion point is returned only under a test of how much of the context there is / was matched" % fname, fn_loc(fb, node["ln"]), "ok" if tested else "report")
            if not tested:
                r.report("FLW-10|%s|fallback#%d" % (fname, m - 1), fn_loc(fb, node["ln"]), fb.path,
                         "when nothing matched, the end of the word is returned as insertion point because the context ends (begins) with a boundary, whatever else the context requires: an insertion rule whose context needs an absent segment still fires")
            # ... and only for an element that the end of a word *is*: a boundary. A structure / syllable / segment needs segments.
            kinds = set()
            x, child = fpar.get(id(node)), node
            while x is not None:
                if x.get("e") == "if":
                    for lt in [y for y in hirq.walk(x["cond"]) if y["e"] in ("let", "letcond")]:
                        if any(y is child for y in hirq.walk(x["then"])):
                            kinds |= {(q.get("path") or "") for q in hirq.walk_pats(lt["pat"]) if (q.get("path") or "").startswith("asca::parser::ParseElement::")}
                if x.get("e") == "match" and (x.get("sty") or "").lstrip("&").endswith("asca::parser::ParseElement"):
                    for arm in x["arms"]:
                        if any(y is child for y in hirq.walk(arm["body"])):
                            kinds |= {(q.get("path") or "") for q in hirq.walk_pats(arm["pat"]) if (q.get("path") or "").startswith("asca::parser::ParseElement::")}
                child = x
                x = fpar.get(id(x))
            # `matches!(states.first().unwrap().kind, WordBound | SyllBound)` inside a (named) condition that must hold here
            for c, neg in normed:
                if not neg:
                    # a condition that holds here: every conjunct of it does
                    for d in _split(c, "And"):
                        for mt in hirq.walk(d):
                            if mt["e"] == "match" and (mt.get("sty") or "").lstrip("&").endswith("asca::parser::ParseElement"):
                                for arm in mt["arms"]:
                                    if hirq.strip(arm["body"]).get("lit") is True:
                                        kinds |= {(q.get("path") or "") for q in hirq.walk_pats(arm["pat"]) if (q.get("path") or "").startswith("asca::parser::ParseElement::")}
            extra = sorted(k.rsplit("::", 1)[-1] for k in kinds if k.rsplit("::", 1)[-1] not in ("WordBound", "SyllBound"))
            ok_k = bool(kinds) and not extra
            r.inst("%s: the end-of-word insertion point is returned only for a context element that is a boundary (%s)" % (fname, ", ".join(sorted(k.rsplit("::", 1)[-1] for k in kinds)) or "no kind test"),
                   fn_loc(fb, node["ln"]), "ok" if ok_k else "report")
            if not ok_k:
                r.report("FLW-10|%s|fallback#%d|kind:%s" % (fname, m - 1, "+".join(extra) or "untested"), fn_loc(fb, node["ln"]), fb.path,
                         "when nothing matched, the end of the word is returned as the insertion point for a context element of kind %s: the end of a word is a boundary, it is not a %s -- `* > e / _<q>` appends `e` to a word that has no syllable `<q>`"
                         % ("/".join(extra) or "(any)", "/".join(extra).lower() or "segment"))
        if m == 0:
            raise AnchorMissing("%s: end-of-word fallback not found" % fname)
    return r


# ---------------------------------------------------------------- FLW-11 one advance of the input state per matched element

UNKNOWN = "*"


class AdvanceCount:
    """How often `*state_index` is advanced on the paths of an input matcher that end in success (`Ok(true)` or the
    success of a tail call). Structural recursion over HIR; sets of counts; a loop that advances the index directly is
    'unknown' (the ellipsis matchers consume several states on purpose)."""

    def __init__(self, lib, var="state_index"):
        self.lib = lib
        self.memo = {}
        self.stack = []
        self.var = var          # name of the index variable in the function being analysed

    def summary(self, path, var="state_index"):
        if path in self.memo:
            return self.memo[path]
        if path in self.stack:
            return {UNKNOWN}
        b = self.lib.body(path)
        if b is None or not b.hir or var not in b.param_names:
            return {0}
        self.stack.append(path)
        saved = self.var
        self.var = var
        try:
            out = set(self.tail(b.hir["body"], {0}))
        finally:
            self.stack.pop()
            self.var = saved
        self.memo[path] = out or {0}
        return self.memo[path]

    @staticmethod
    def add(a, b):
        if UNKNOWN in a or UNKNOWN in b:
            return {UNKNOWN}
        return {x + y for x in a for y in b}

    def callee(self, n):
        d = n.get("def") if n["e"] == "mcall" else (hirq.strip(n["f"]).get("path") if hirq.strip(n["f"]).get("e") == "path" else None)
        if not d:
            return None
        cb = self.lib.body(d)
        if cb is None or "state_index" not in cb.param_names:
            return None
        args = ([n["recv"]] if n["e"] == "mcall" else []) + list(n["args"])
        idx = cb.param_names.index("state_index")
        if idx < len(args):
            a = hirq.strip(args[idx])
            while a.get("e") in ("addr", "unary"):
                a = hirq.strip(a["a"])
            # the index itself (or a reborrow of it) is handed over; `&mut state_index.clone()` is a copy the callee may advance freely
            if a.get("e") == "path" and a.get("local") == self.var:
                return d
        return None

    def is_inc(self, n):
        if n["e"] == "assignop" and n["op"] in ("AddAssign",):
            return any(m["e"] == "path" and m.get("local") == self.var for m in hirq.walk(n["lhs"]))
        return False

    def cond(self, c):
        """(counts added when the condition is true, counts when false)"""
        c = hirq.strip(c)
        while c.get("e") == "match" and str(c.get("src", "")).startswith("TryDesugar"):
            sc = hirq.strip(c["scrut"])
            c = hirq.strip(sc["args"][0]) if sc.get("e") == "call" and sc.get("args") else sc
        if c.get("e") == "unary" and c.get("op") == "Not":
            t, f = self.cond(c["a"])
            return f, t
        if c.get("e") == "binary" and c.get("op") == "And":
            ta, fa = self.cond(c["a"])
            tb, fb = self.cond(c["b"])
            return self.add(ta, tb), fa | self.add(ta, fb)
        if c.get("e") == "binary" and c.get("op") == "Or":
            ta, fa = self.cond(c["a"])
            tb, fb = self.cond(c["b"])
            return ta | self.add(fa, tb), self.add(fa, fb)
        if c.get("e") in ("mcall", "call"):
            d = self.callee(c)
            if d:
                return set(self.summary(d)), {0}
        return {0}, {0}

    def is_fail(self, e):
        """`Ok(false)`, `false`, `Err(..)`"""
        e = hirq.strip(e)
        if e.get("e") == "lit" and e.get("lit") is False:
            return True
        if e.get("e") == "call":
            p = hirq.strip(e["f"]).get("path") or ""
            if p.endswith("Result::Err"):
                return True
            if p.endswith("Result::Ok") and e["args"]:
                return self.is_fail(e["args"][0])
        return False

    def tail(self, e, run):
        """success counts contributed by the tail value of expression e, given the running counts"""
        e = hirq.strip(e)
        if not run:
            return set()
        k = e.get("e")
        if k == "block":
            r2, s2 = self.flow(e, run)
            return s2 | (self.tail(e["tail"], r2) if e.get("tail") is not None else set())
        if k == "if":
            t, f = self.cond(e["cond"])
            out = self.tail(e["then"], self.add(run, t))
            if e.get("else") is not None:
                out |= self.tail(e["else"], self.add(run, f))
            return out
        if k == "match":
            if str(e.get("src", "")).startswith("TryDesugar"):
                sc = hirq.strip(e["scrut"])
                return self.tail(sc["args"][0] if sc.get("e") == "call" and sc.get("args") else sc, run)
            out = set()
            for arm in e["arms"]:
                out |= self.tail(arm["body"], run)
            return out
        if self.is_fail(e):
            return set()
        if k in ("mcall", "call"):
            d = self.callee(e)
            if d:
                return self.add(run, self.summary(d))
            p = hirq.strip(e["f"]).get("path") if k == "call" else ""
            if p and p.endswith("Result::Ok") and e["args"]:
                return self.tail(e["args"][0], run)
            if (p or "").startswith("core::panicking::"):
                return set()
        return set(run)

    def flow(self, blk, run):
        """statements of a block: (running counts after them, success counts of the `return`s inside)"""
        blk = hirq.strip(blk) if blk.get("e") != "block" else blk
        succ = set()
        if blk.get("e") != "block":
            return run, succ
        for st in blk.get("stmts", []):
            run, s2 = self.stmt(st, run)
            succ |= s2
        return run, succ

    def stmt(self, st, run):
        st0 = st if st.get("e") in ("let", "block") else hirq.strip(st)
        k = st0.get("e")
        succ = set()
        if not run:
            return run, succ
        if k == "let":
            if st0.get("init") is not None:
                run, succ = self.expr_effect(st0["init"], run)
            return run, succ
        return self.expr_effect(st0, run)

    def expr_effect(self, e, run):
        """an expression evaluated for effect: (running counts afterwards, success counts of returns inside)"""
        e = hirq.strip(e)
        k = e.get("e")
        succ = set()
        if k == "block":
            r2, s2 = self.flow(e, run)
            if e.get("tail") is not None:
                r2, s3 = self.expr_effect(e["tail"], r2)
                s2 |= s3
            return r2, s2
        if k == "ret":
            a = e.get("a")
            if a is not None:
                succ |= self.tail(a, run)
            return set(), succ
        if k in ("break", "continue"):
            return set(), succ
        if k == "if":
            t, f = self.cond(e["cond"])
            r1, s1 = self.expr_effect(e["then"], self.add(run, t))
            if e.get("else") is not None:
                r2, s2 = self.expr_effect(e["else"], self.add(run, f))
            else:
                r2, s2 = self.add(run, f), set()
            return r1 | r2, s1 | s2
        if k == "match":
            if str(e.get("src", "")).startswith("TryDesugar"):
                sc = hirq.strip(e["scrut"])
                return self.expr_effect(sc["args"][0] if sc.get("e") == "call" and sc.get("args") else sc, run)
            rr, ss = set(), set()
            for arm in e["arms"]:
                r1, s1 = self.expr_effect(arm["body"], run)
                rr |= r1
                ss |= s1
            return rr, ss
        if k == "loop":
            body = e["body"]
            direct = any(self.is_inc(n) or (n["e"] == "assign" and any(m["e"] == "path" and m.get("local") == self.var for m in hirq.walk(n["lhs"]))) for n in hirq.walk(body))
            if direct:
                return {UNKNOWN}, {UNKNOWN}
            r1, s1 = self.expr_effect(body, run)       # the successful alternative is tried once
            return run | r1, s1
        if self.is_inc(e):
            return self.add(run, {1}), succ
        if k == "assign" and any(m["e"] == "path" and m.get("local") == self.var for m in hirq.walk(e["lhs"])):
            return {UNKNOWN}, succ
        if k in ("mcall", "call"):
            d = self.callee(e)
            if d:
                return self.add(run, self.summary(d)) | run, succ
            for a in ([e["recv"]] if k == "mcall" else []) + list(e["args"]):
                run, s1 = self.expr_effect(a, run)
                succ |= s1
            return run, succ
        if k in ("binary", "unary", "addr", "cast", "field", "index"):
            for key in ("a", "b", "i"):
                if isinstance(e.get(key), dict):
                    run, s1 = self.expr_effect(e[key], run)
                    succ |= s1
            return run, succ
        return run, succ


def flw11(ctx):
    r = RuleResult("FLW-11", "every matched input element advances the input state by exactly one (no element after it is skipped, none is matched twice)", floor=9)
    lib = ctx.lib
    b = ctx.fn(lib, "asca::subrule::SubRule::input_match_item")
    ac = AdvanceCount(lib)
    PEL = "asca::parser::ParseElement::"
    target = None
    for m in hirq.matches(b):
        if (m.get("sty") or "").lstrip("&").endswith("parser::ParseElement"):
            target = m
            break
    if target is None:
        raise AnchorMissing("input_match_item: match on the element kind not found")
    n = 0
    for arm in target["arms"]:
        kinds = [(p.get("path") or "")[len(PEL):] for p in hirq.flat_pats(arm["pat"]) if (p.get("path") or "").startswith(PEL)]
        if hirq.arm_is_pure_panic(arm["body"]):
            continue
        counts = ac.tail(arm["body"], {0})
        n += 1
        label = "/".join(kinds) or "?"
        if UNKNOWN in counts:
            r.inst("%s: advances the state inside a loop (several states consumed on purpose) — not counted" % label, fn_loc(b, arm["ln"]), "accepted:loop", nontrivial=False)
            continue
        bad = sorted(c for c in counts if c != 1)
        r.inst("%s: a match advances the input state by %s" % (label, sorted(counts)), fn_loc(b, arm["ln"]), "ok" if not bad else "report")
        for c in bad:
            r.report("FLW-11|input_match_item|%s|%d" % (label, c), fn_loc(b, arm["ln"]), b.path,
                     "a matched %s element can advance the input state by %d instead of 1: %s" % (
                         label, c, "the element after it is never tested — a rule whose input needs an absent segment there still fires" if c > 1 else "the same element is matched again"))
    if n < 6:
        raise AnchorMissing("input_match_item: only %d element arms analysed" % n)
    # the loop that matches the elements after an input ellipsis: each iteration that does not leave the loop advances the
    # index exactly once (through input_match_item only)
    eb = ctx.fn(lib, "asca::subrule::SubRule::input_match_ellipsis")
    item = b.path
    k = 0
    for lp in [x for x in hirq.walk(eb.hir["body"]) if x["e"] == "loop"]:
        body = lp["body"]
        calls = [x for x in hirq.walk(body) if x["e"] == "mcall" and (x.get("def") or "") == item]
        inner_loops = [x for x in hirq.walk(body) if x["e"] == "loop" and x is not lp]
        if not calls or any(any(c is y for y in hirq.walk(il)) for il in inner_loops for c in calls):
            continue          # the call sits in a nested loop: that loop is judged on its own
        # the loop body is `if <cond> { <body> } else { break }`
        inner = hirq.strip(body)
        blk = inner["then"] if inner.get("e") == "if" else body
        ac2 = AdvanceCount(lib)
        ac2.memo[item] = {1}          # established above (or reported)
        run, _ = ac2.expr_effect(blk, {0})
        per = set(run)
        ok = per == {1}
        r.inst("input_match_ellipsis: loop #%d advances the input state by %s per matched element" % (k, sorted(per, key=str)), fn_loc(eb, lp["ln"]), "ok" if ok else "report")
        if not ok:
            r.report("FLW-11|input_match_ellipsis|loop#%d" % k, fn_loc(eb, lp["ln"]), eb.path,
                     "after an input ellipsis each matched element advances the input state by %s instead of 1: of the elements following `...` some are never tested" % sorted(per, key=str))
        k += 1
    if k == 0:
        raise AnchorMissing("input_match_ellipsis: the loop over the elements after the ellipsis was not found")
    return r


def _consumes_all_helper(lib, cond, cm_path):
    """the condition is (the `?` of) a call of a local helper that returns true only after a
    `while *state_index < states.len() { if !context_match(..)? { return Ok(false) } *state_index += 1 }` loop"""
    c = hirq.strip(cond)
    while c.get("e") == "match" and str(c.get("src", "")).startswith("TryDesugar"):
        sc = hirq.strip(c["scrut"])
        c = hirq.strip(sc["args"][0]) if sc.get("e") == "call" and sc.get("args") else sc
    if c.get("e") != "mcall":
        return False
    hb = lib.body(c.get("def") or "")
    if hb is None or not hb.hir or "state_index" not in hb.param_names:
        return False
    root = hb.hir["body"]
    items = [hirq.strip(x) for x in root.get("stmts", [])] + ([hirq.strip(root["tail"])] if root.get("tail") is not None else [])
    if len(items) < 2:
        return False
    tail, prev = items[-1], items[-2]
    t_ok = tail.get("e") == "call" and (hirq.strip(tail["f"]).get("path") or "").endswith("Result::Ok") and hirq.strip(tail["args"][0]).get("lit") is True
    if not t_ok or prev.get("e") != "loop":
        return False
    pin = hirq.strip(prev["body"])
    driven = pin.get("e") == "if" and any(m["e"] == "path" and m.get("local") == "state_index" for m in hirq.walk(pin["cond"])) and any(
        m["e"] == "mcall" and m["name"] == "len" for m in hirq.walk(pin["cond"]))
    calls = any(m["e"] == "mcall" and (m.get("def") or "") == cm_path for m in hirq.walk(prev))
    # inside the loop a failed element leaves with `return Ok(false)` (never with a success)
    rets = [m for m in hirq.walk(prev) if m["e"] == "ret" and m.get("a") is not None and not m.get("exp")]
    fails = all(hirq.strip(hirq.strip(m["a"])["args"][0]).get("lit") is False for m in rets
                if hirq.strip(m["a"]).get("e") == "call" and (hirq.strip(hirq.strip(m["a"])["f"]).get("path") or "").endswith("Result::Ok"))
    others = [m for m in hirq.walk(root) if m["e"] == "ret" and not any(m is y for y in hirq.walk(prev)) and not m.get("exp")]
    return driven and calls and bool(rets) and fails and not others


def flw12(ctx):
    """context side of the state-index discipline"""
    r = RuleResult("FLW-12", "context matching: a matched context element advances the state by exactly one (context_match itself by none, the loop around it by one per element)", floor=21)
    lib = ctx.lib
    SR = "asca::subrule::SubRule::"
    cm = ctx.fn(lib, SR + "context_match")
    PEL = "asca::parser::ParseElement::"
    ac = AdvanceCount(lib)
    target = None
    for m in hirq.matches(cm):
        if (m.get("sty") or "").lstrip("&").endswith("parser::ParseElement"):
            target = m
            break
    if target is None:
        raise AnchorMissing("context_match: match on the element kind not found")
    for arm in target["arms"]:
        kinds = [(p.get("path") or "")[len(PEL):] for p in hirq.flat_pats(arm["pat"]) if (p.get("path") or "").startswith(PEL)]
        if hirq.arm_is_pure_panic(arm["body"]):
            continue
        counts = ac.tail(arm["body"], {0})
        label = "/".join(kinds) or "?"
        if UNKNOWN in counts:
            r.inst("context_match %s: consumes the remaining states itself (loop) — not counted" % label, fn_loc(cm, arm["ln"]), "accepted:loop", nontrivial=False)
            continue
        bad = sorted(c for c in counts if c != 0)
        r.inst("context_match %s: leaves the state index to its caller (advances by %s)" % (label, sorted(counts)), fn_loc(cm, arm["ln"]), "ok" if not bad else "report")
        for c in bad:
            r.report("FLW-12|context_match|%s|%d" % (label, c), fn_loc(cm, arm["ln"]), cm.path,
                     "a matched %s context element advances the state index by %d although every caller advances it once more: the next context element is skipped" % (label, c))
    # the loops around context_match
    n_loops = 0
    for b in lib.bodies:
        if b.in_test_mod() or not b.hir or not b.path.startswith(SR) or b.kind == "closure":
            continue
        k = 0
        for lp in [x for x in hirq.walk(b.hir["body"]) if x["e"] == "loop"]:
            body = lp["body"]
            inner_loops = [x for x in hirq.walk(body) if x["e"] == "loop" and x is not lp]
            calls = [x for x in hirq.walk(body) if x["e"] == "mcall" and (x.get("def") or "") == cm.path
                     and not any(any(x is y for y in hirq.walk(il)) for il in inner_loops)]
            if not calls:
                continue
            # the variable handed to context_match as its state index
            idx = cm.param_names.index("state_index") - 1
            a = hirq.strip(calls[0]["args"][idx])
            while a.get("e") in ("addr", "unary"):
                a = hirq.strip(a["a"])
            if a.get("e") != "path" or "local" not in a:
                continue
            var = a["local"]
            # only loops that are driven by that index (`while idx < states.len()`)
            inner = hirq.strip(body)
            if inner.get("e") != "if" or not any(m["e"] == "path" and m.get("local") == var for m in hirq.walk(inner["cond"])):
                continue
            ac2 = AdvanceCount(lib, var=var)
            ac2.memo[cm.path] = {0}
            run, _ = ac2.expr_effect(inner["then"], {0})
            per = set(run)
            n_loops += 1
            ok = per == {1}
            r.inst("%s: loop #%d over `%s` advances by %s per matched context element" % (b.path.rsplit("::", 1)[-1], k, var, sorted(per, key=str)), fn_loc(b, lp["ln"]), "ok" if ok else "report")
            if not ok:
                r.report("FLW-12|%s|loop#%d" % (b.path, k), fn_loc(b, lp["ln"]), b.path,
                         "each matched context element advances `%s` by %s instead of 1: context elements are skipped or matched twice" % (var, sorted(per, key=str)))
            k += 1
    if n_loops < 5:
        raise AnchorMissing("only %d index-driven loops around context_match found" % n_loops)
    # the two matchers that are exempt above consume *all* remaining states themselves: each of their success returns
    # comes right after a loop driven by `state_index < states.len()` (under its "all matched" flag), or sits under a test
    # that no state is left
    for fname in ("context_match_ellipsis", "context_match_option"):
        fb = ctx.fn(lib, SR + fname)
        root = fb.hir["body"]
        par = hirq.parent_map(root)
        k = 0
        for node in hirq.walk(root):
            is_true = False
            if node["e"] == "ret" and node.get("a") is not None and not node.get("exp"):
                a = hirq.strip(node["a"])
                is_true = a.get("e") == "call" and (hirq.strip(a["f"]).get("path") or "").endswith("Result::Ok") and hirq.strip(a["args"][0]).get("lit") is True
            if not is_true:
                continue
            # enclosing `if`
            x = par.get(id(node))
            iff = None
            while x is not None:
                if x.get("e") == "if":
                    iff = x
                    break
                x = par.get(id(x))
            ok = False
            why = "it is not conditional"
            if iff is not None:
                c = hirq.strip(iff["cond"])
                # (b) `if *state_index >= states.len()`
                if c.get("e") == "binary" and c.get("op") in ("Ge", "Gt", "Eq") and any(m["e"] == "path" and m.get("local") == "state_index" for m in hirq.walk(c)) and any(
                        m["e"] == "mcall" and m["name"] == "len" for m in hirq.walk(c)):
                    ok = True
                # (a) `if m` directly after `while *state_index < states.len() { if !context_match(..)? { m = false; break } .. }`
                elif c.get("e") == "path" and "local" in c:
                    flag = c["local"]
                    blk = par.get(id(iff))
                    while blk is not None and blk.get("e") != "block":
                        blk = par.get(id(blk))
                    items = [hirq.strip(s_) for s_ in (blk.get("stmts", []) if blk else [])] + ([hirq.strip(blk["tail"])] if blk and blk.get("tail") is not None else [])
                    pos_i = [i for i, s_ in enumerate(items) if s_ is iff or any(y is iff for y in hirq.walk(s_))]
                    prev = items[pos_i[0] - 1] if pos_i and pos_i[0] > 0 else None
                    if prev is not None and prev.get("e") == "loop":
                        pin = hirq.strip(prev["body"])
                        # the loop ends only when the states are used up (or by `break` under the cleared flag): its guard is
                        # the index test alone -- a further conjunct (`&& word.in_bounds(..)`) lets it stop with states left
                        pc = hirq.strip(pin["cond"]) if pin.get("e") == "if" else {}
                        driven = pin.get("e") == "if" and pc.get("e") == "binary" and pc.get("op") in ("Lt", "Le", "Gt", "Ge", "Ne") and any(
                            m["e"] == "path" and m.get("local") == "state_index" for m in hirq.walk(pc)) and any(m["e"] == "mcall" and m["name"] == "len" for m in hirq.walk(pc))
                        clears = any(n_["e"] == "assign" and expr_name(n_["lhs"]) == ("local", flag) and hirq.strip(n_["rhs"]).get("lit") is False for n_ in hirq.walk(prev))
                        ok = driven and clears
                        why = "the loop before it is not driven by `state_index < states.len()` alone or does not clear `%s` on a failed element" % flag
                    else:
                        why = "no loop over the remaining states precedes it"
                elif _consumes_all_helper(lib, c, cm.path):
                    ok = True
                else:
                    why = "its condition is neither `state_index >= states.len()` nor the all-matched flag of the loop over the remaining states"
            r.inst("%s: success return #%d follows the consumption of all remaining context states" % (fname, k), fn_loc(fb, node["ln"]), "ok" if ok else "report")
            if not ok:
                r.report("FLW-12|%s|success#%d" % (fname, k), fn_loc(fb, node["ln"]), fb.path,
                         "%s returns success although context states may be left unmatched (%s): its callers treat the index as consumed and skip them" % (fname, why))
            k += 1
        if k == 0:
            raise AnchorMissing("%s: no `return Ok(true)` found" % fname)
    return r
