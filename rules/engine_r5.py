"""Round-5 rules: word-text normalisation at every entry (NRM-1), lossy spelling confined to the `+` romaniser
branch (RT-3), the reader's normalisation leaves the renderer's alphabet alone (RT-4), the CLI writes the output file
on every successful path (CLI-6), RuleGroup::is_empty looks at every field (CLI-7)."""
import json
import os
import re

import hirq
from core import AnchorMissing, RuleResult, fn_loc
from facts import callee_path

NORMALISE = "asca::normalise"
WORD_NEW = "asca::word::Word::new"
PASS_M = {"to_owned", "to_string", "clone", "as_str", "as_ref", "borrow", "into", "trim", "trim_start", "trim_end", "split", "split_whitespace",
          "lines", "iter", "into_iter", "map", "filter", "copied", "cloned", "deref", "get", "unwrap", "expect", "as_deref", "first", "last", "nth",
          "rev", "enumerate", "skip", "take", "peekable", "unwrap_or_default", "collect", "join", "concat", "as_slice", "to_vec", "next"}
PASS_F = ("String::from", "ToOwned::to_owned", "ToString::to_string", "From::from", "Into::into", "Option::Some", "Result::Ok", "Try::branch", "Clone::clone")


def _has_normalise(e):
    for n in hirq.walk(e):
        if n["e"] == "call" and (hirq.strip(n["f"]).get("path") or "") == NORMALISE:
            return True
    return False


class Bindings:
    """where each binding (HirId) of an expanded HIR tree gets its value from"""

    def __init__(self, root, params):
        self.src = {}
        for p in params or []:
            for q in hirq.walk_pats(p):
                if q.get("p") == "bind" and "hid" in q:
                    self.src[q["hid"]] = ("param", q.get("name"))
        for n in hirq.walk(root):
            k = n["e"]
            if k == "let" and n.get("init") is not None:
                for q in hirq.walk_pats(n["pat"]):
                    if q.get("p") == "bind" and "hid" in q:
                        self.src[q["hid"]] = ("expr", n["init"])
            elif k == "letcond":
                for q in hirq.walk_pats(n["pat"]):
                    if q.get("p") == "bind" and "hid" in q:
                        self.src[q["hid"]] = ("expr", n["init"])
            elif k == "match":
                for a in n["arms"]:
                    for q in hirq.walk_pats(a["pat"]):
                        if q.get("p") == "bind" and "hid" in q:
                            self.src[q["hid"]] = ("expr", n["scrut"])
            elif k in ("mcall", "call"):
                args = ([n["recv"]] if k == "mcall" else []) + list(n["args"])
                for a in args[1:] if k == "mcall" else args:
                    c = hirq.strip(a)
                    if isinstance(c, dict) and c.get("e") == "closure":
                        for p in c.get("params") or []:
                            for q in hirq.walk_pats(p):
                                if q.get("p") == "bind" and "hid" in q:
                                    # the closure's argument comes out of the receiver / first argument of the adaptor
                                    self.src[q["hid"]] = ("expr", args[0]) if args and args[0] is not a else ("unknown", None)


def norm_status(e, binds, depth=0):
    """("yes", None) | ("param", name) | ("no", why)"""
    e = hirq.strip(e)
    if not isinstance(e, dict) or depth > 12:
        return ("no", "unrecognised expression")
    if _has_normalise(e):
        return ("yes", None)
    k = e.get("e")
    if k == "path" and "hid" in e:
        s = binds.src.get(e["hid"])
        if s is None:
            return ("no", "binding `%s` has no visible source" % e.get("local"))
        if s[0] == "param":
            return ("param", s[1])
        if s[0] == "expr":
            return norm_status(s[1], binds, depth + 1)
        return ("no", "binding `%s` comes from an unrecognised closure" % e.get("local"))
    if k == "mcall" and e["name"] in PASS_M:
        return norm_status(e["recv"], binds, depth + 1)
    if k == "call" and (hirq.strip(e["f"]).get("path") or "").endswith(PASS_F) and e["args"]:
        return norm_status(e["args"][0], binds, depth + 1)
    if k == "match" and "TryDesugar" in (e.get("src") or ""):
        return norm_status(e["scrut"], binds, depth + 1)
    if k in ("unary", "index", "field", "cast"):
        return norm_status(e.get("a"), binds, depth + 1)
    if k == "block" and e.get("tail") is not None:
        return norm_status(e["tail"], binds, depth + 1)
    if k == "lit":
        return ("yes", None)        # program text, not user text
    return ("no", "value computed by `%s`" % (e.get("name") or (hirq.strip(e.get("f") or {}).get("path") if k == "call" else k)))


def nrm1(ctx):
    """Every word the library builds from text is built from *normalised* text: run(), the tracer entries and the rule-side
    test helper all read the same language of spellings (C13's word respellings live in normalise; C16's trace must read
    the phrase as run does)."""
    r = RuleResult("NRM-1", "every Word::new in the library receives text that went through normalise() (directly, through a local helper, or because Word::new normalises itself): all entry points read the same word language", floor=5)
    lib = ctx.lib
    wn = ctx.fn(lib, WORD_NEW)
    ctx.fn(lib, NORMALISE)
    inside = any((callee_path(t) or "") == NORMALISE for _, t in wn.calls())
    n = 0
    judged_in_callers = set()
    open_fns = {}
    for b in lib.bodies:
        if b.in_test_mod() or not b.hir or b.kind == "closure" or b.exp:
            continue
        tree = hirq.inline_helpers(lib, b, keep={WORD_NEW, NORMALISE}, prefixes=("asca::",), max_depth=3,
                                   only_if=lambda cb: any(x["e"] == "call" and (hirq.strip(x["f"]).get("path") or "") == WORD_NEW for x in hirq.walk(cb.hir["body"])))
        calls = [x for x in hirq.walk(tree) if x["e"] == "call" and (hirq.strip(x["f"]).get("path") or "") == WORD_NEW]
        if not calls:
            continue
        binds = Bindings(tree, b.hir.get("params"))
        for k, c in enumerate(calls):
            st, why = ("yes", None) if inside else norm_status(c["args"][0], binds)
            loc = fn_loc(b, c.get("ln"))
            if st == "param" and not b.is_pub:
                open_fns.setdefault(b.path, []).append((k, why, loc))
                continue
            n += 1
            ok = st == "yes"
            r.inst("%s: Word::new #%d is given %s" % (b.path, k, "normalised text" if ok else ("the caller's raw `%s`" % why if st == "param" else "text that bypasses normalise (%s)" % why)), loc, "ok" if ok else "report")
            if not ok:
                r.report("NRM-1|%s|Word::new#%d" % (b.path, k), loc, b.path,
                         "a word is built from text that did not pass normalise() (%s): this entry reads a different word language from run() -- precomposed / look-alike spellings that run() accepts are rejected or read differently here"
                         % ("public parameter `%s`" % why if st == "param" else why))
    # private functions whose Word::new depends on a parameter must have been judged inside a caller (through inlining)
    cg = lib.callgraph
    for p, sites in sorted(open_fns.items()):
        callers = [q for q, outs in cg.items() if p in outs and q != p and lib.body(q) is not None and not lib.body(q).in_test_mod()]
        if not callers:
            continue
        r.inst("%s: %d Word::new site(s) depend on a parameter; judged inside its %d caller(s)" % (p, len(sites), len(callers)), sites[0][2], "ok", nontrivial=False)
    r.analysed = {"word_new_sites": n, "word_new_normalises_itself": inside}
    return r


# ---------------------------------------------------------------- RT-3: lossy spelling only where the user asked for it

NEAREST = "asca::seg::Segment::get_nearest_grapheme"
REPL = "asca::alias::parser::AliasParseElement::Replacement"


def _rt3_judge(root, only_inl=None):
    """[(site node, guarded)] for every get_nearest_grapheme call in `root` (only those expanded from helper `only_inl`)"""
    is_site = lambda x: (x["e"] == "mcall" and x.get("def") == NEAREST) or (x["e"] == "call" and (hirq.strip(x["f"]).get("path") or "") == NEAREST)
    sites = [x for x in hirq.walk(root) if is_site(x)]
    if not sites:
        return []
    par = hirq.parent_map(root)
    flags = set()
    for pt in hirq.walk_pats(root):
        if pt.get("p") == "ts" and pt.get("path") == REPL and len(pt.get("pats") or []) == 2:
            for q in hirq.walk_pats(pt["pats"][1]):
                if q.get("p") == "bind" and "hid" in q:
                    flags.add(q["hid"])
    flags = hirq.derived_hids(root, flags)
    out = []
    for s in sites:
        guarded, from_inl = False, False
        x, child = par.get(id(s)), s
        while x is not None:
            if x.get("e") == "if" and any(y is child for y in hirq.walk(x["then"])):
                for c in _conj(x["cond"]):
                    c0 = hirq.strip(c)
                    while isinstance(c0, dict) and c0.get("e") == "unary" and c0.get("op") == "Deref":
                        c0 = hirq.strip(c0["a"])
                    if isinstance(c0, dict) and c0.get("e") == "path" and c0.get("hid") in flags:
                        guarded = True
            if x.get("inl") == only_inl and only_inl is not None:
                from_inl = True
            child = x
            x = par.get(id(x))
        if only_inl is None or from_inl:
            out.append((s, guarded))
    return out


def rt3(ctx):
    """Segment::get_nearest_grapheme spells a segment as the *closest* base phone: by construction the text reads back as a
    different segment. The only place that may print it is the romaniser's `+` replacement (`a:[..] > +x`), where the user
    asked for the base letter to be kept. Everywhere else a segment without an exact spelling must stay visible ('\ufffd'),
    or a staged pipeline silently continues with another segment than the single run."""
    r = RuleResult("RT-3", "the lossy speller get_nearest_grapheme is called only under the romaniser's `+` flag (the second field of AliasParseElement::Replacement); every other rendering path spells exactly or not at all", floor=2)
    lib = ctx.lib
    ctx.fn(lib, NEAREST)
    n = 0
    MSG = ("a segment is spelled with get_nearest_grapheme outside the romaniser's `+` branch: a segment that has no exact spelling is printed as a *different*, perfectly readable phone instead of '\ufffd' -- "
           "the rendered word reads back as another word, and a staged run continues from it")
    for b in lib.bodies:
        if b.in_test_mod() or not b.hir or b.kind == "closure" or b.exp or b.path == NEAREST:
            continue
        res = _rt3_judge(b.hir["body"])
        for k, (s, guarded) in enumerate(res):
            loc = fn_loc(b, s.get("ln"))
            if not guarded and not b.is_pub:
                # a private helper may be called under the flag: judge it, expanded, inside each caller
                callers = [q for q, outs in lib.callgraph.items() if b.path in outs and q != b.path and lib.body(q) is not None and lib.body(q).hir
                           and not lib.body(q).in_test_mod() and lib.body(q).kind != "closure"]
                if callers:
                    for q in sorted(callers):
                        qb = lib.body(q)
                        tree = hirq.inline_helpers(lib, qb, keep={NEAREST}, prefixes=("asca::",), max_depth=2, only_if=lambda cb: cb.path == b.path)
                        sub = _rt3_judge(tree, only_inl=b.path)
                        if not sub:
                            sub = [(None, False)]
                        for k2, (s2, g2) in enumerate(sub):
                            n += 1
                            r.inst("%s (helper %s): get_nearest_grapheme #%d is %s the romaniser's `+` flag" % (q, b.path.rsplit("::", 1)[-1], k2, "under" if g2 else "NOT under"), fn_loc(qb), "ok" if g2 else "report")
                            if not g2:
                                r.report("RT-3|%s|via:%s|nearest#%d" % (q, b.path.rsplit("::", 1)[-1], k2), loc, q, MSG)
                    continue
            n += 1
            r.inst("%s: get_nearest_grapheme #%d is %s the romaniser's `+` flag" % (b.path, k, "under" if guarded else "NOT under"), loc, "ok" if guarded else "report")
            if not guarded:
                r.report("RT-3|%s|nearest#%d" % (b.path, k), loc, b.path, MSG)
    if n == 0:
        raise AnchorMissing("RT-3: no call of get_nearest_grapheme found (the romaniser's `+` replacement is the anchor)")
    r.analysed = {"call_sites": n}
    return r


def _conj(e):
    e = hirq.strip(e)
    if isinstance(e, dict) and e.get("e") == "binary" and e.get("op") == "And":
        return _conj(e["a"]) + _conj(e["b"])
    return [e]


# ---------------------------------------------------------------- CLI-6: `asca run -o` writes on every successful path

FILE_WRITE_PRIMS = ("std::fs::write", "std::fs::File::create", "std::fs::OpenOptions::open", "std::fs::File::create_new")


def cli6(ctx):
    """`asca run -o FILE` must leave the library's answer in FILE whenever the run succeeded. In the function that calls
    asca::run, every path from the `Ok(res)` arm to the function's return passes a call that (transitively) writes a file,
    or leaves through `?` with an error -- whatever other options (-c) are given."""
    r = RuleResult("CLI-6", "cli::run: every path from the Ok arm of asca::run to the return passes the output-file writer or leaves with an error (no option makes a successful run skip -o)", floor=1)
    bn = ctx.bin
    cg = bn.callgraph
    writers = {p for p, outs in cg.items() if any(o.startswith(FILE_WRITE_PRIMS) for o in outs)}
    changed = True
    while changed:
        changed = False
        for p, outs in cg.items():
            if p not in writers and outs & writers:
                writers.add(p)
                changed = True
    if not writers:
        raise AnchorMissing("CLI-6: no function of the binary reaches a file-writing primitive")
    n = 0
    for b in bn.bodies:
        if b.in_test_mod() or not b.blocks or not b.path.startswith("asca_bin::cli::run::"):
            continue
        runs = [(i, t) for i, t in b.calls() if (callee_path(t) or "") == "asca::run"]
        for i, t in runs:
            nxt = t.get("t")
            sw = b.blocks[nxt]["t"] if nxt is not None else {}
            if sw.get("k") != "switch":
                raise AnchorMissing("CLI-6: %s: the result of asca::run is not matched directly" % b.path)
            ok = dict((v, tg) for v, tg in sw["vals"]).get(0)
            if ok is None:
                raise AnchorMissing("CLI-6: %s: Ok arm of asca::run not found" % b.path)
            n += 1
            W = {bi for bi, tt in b.calls() if (callee_path(tt) or "") in writers}
            R = {bi for bi, tt in b.calls() if "from_residual" in (callee_path(tt) or "")}
            reach = b.cfg.reachable_from(ok, avoid=W | R)
            rets = [x for x in reach if b.blocks[x]["t"]["k"] == "return"]
            # which call leads there: the last user call on such a path (for the message)
            last = None
            for x in sorted(reach):
                tt = b.blocks[x]["t"]
                if tt["k"] == "call" and (callee_path(tt) or "").startswith("asca_bin::") and not tt.get("exp"):
                    last = (callee_path(tt), ":".join((tt.get("loc") or b.loc).split(":")[:2]))
            good = not rets and bool(W)
            r.inst("%s: after a successful asca::run every path to the return writes the output file (%d writer call(s)) or propagates an error" % (b.path, len(W)),
                   ":".join(t["loc"].split(":")[:2]), "ok" if good else "report")
            if not good:
                r.report("CLI-6|%s|ok-path-skips-output" % b.path, last[1] if last else fn_loc(b), b.path,
                         "a successful run can return without calling the output writer (%s): with that option combination `asca run -o FILE` prints but never writes FILE, exit status 0"
                         % ("path through %s" % last[0].rsplit("::", 1)[-1] if last else "no writer call at all"))
    if n == 0:
        raise AnchorMissing("CLI-6: no call of asca::run in asca_bin::cli::run")
    r.analysed = {"run_calls": n, "file_writing_functions": len(writers)}
    return r


# ---------------------------------------------------------------- CLI-7: RuleGroup::is_empty looks at every field

def cli7(ctx):
    """parse_rsca decides with `!group.is_empty()` whether the group collected so far is kept when the next `@name` line
    arrives. A RuleGroup is name + rules + description: `is_empty` must look at all three, or a group that only has the
    fields it ignores is silently dropped by `conv` (json -> rsca -> json loses it)."""
    r = RuleResult("CLI-7", "RuleGroup::is_empty reads every field of RuleGroup (a group with only a name / only a description is not 'empty' and survives conversion)", floor=3)
    lib = ctx.lib
    adt = lib.adts.get("asca::RuleGroup")
    if adt is None:
        raise AnchorMissing("CLI-7: asca::RuleGroup not found")
    fields = [f["name"] for v in adt.get("variants", []) for f in v.get("fields", [])]
    b = ctx.fn(lib, "asca::RuleGroup::is_empty")
    read = set()
    for n in hirq.walk(b.hir["body"]):
        if n["e"] == "field" and (n.get("of_ty") or "").lstrip("&").endswith("asca::RuleGroup"):
            read.add(n["name"])
    # the user of the predicate
    users = [bb.path for bb in ctx.bin.bodies if not bb.in_test_mod() and any((callee_path(t) or "") == "asca::RuleGroup::is_empty" for _, t in bb.calls())]
    for f in fields:
        ok = f in read
        r.inst("RuleGroup::is_empty reads `%s`" % f, fn_loc(b), "ok" if ok else "report")
        if not ok:
            r.report("CLI-7|is_empty|%s" % f, fn_loc(b), b.path,
                     "RuleGroup::is_empty ignores the field `%s`: a group that only has a %s counts as empty, and %s drops it when the next `@` header is read -- conv json -> asca -> json loses the group"
                     % (f, f, ", ".join(u.rsplit("::", 1)[-1] for u in users) or "the rsca reader"))
    r.analysed = {"fields": fields, "users": users}
    return r
