"""Round-5 rules: word-text normalisation at every entry (NRM-1), lossy spelling confined to the `+` romaniser
branch (RT-3), the reader's normalisation leaves the renderer's alphabet alone (RT-4), the CLI writes the output file
on every successful path (CLI-6), RuleGroup::is_empty looks at every field (CLI-7)."""
import json
import os
import re

import hirq
from core import AnchorMissing, RuleResult, fn_loc
from facts import callee_path

NORMALISE = "asca::normalise"
WORD_NEW = "asca::word::Word::new"
PASS_M = {"to_owned", "to_string", "clone", "as_str", "as_ref", "borrow", "into", "trim", "trim_start", "trim_end", "split", "split_whitespace",
          "lines", "iter", "into_iter", "map", "filter", "copied", "cloned", "deref", "get", "unwrap", "expect", "as_deref", "first", "last", "nth",
          "rev", "enumerate", "skip", "take", "peekable", "unwrap_or_default", "collect", "join", "concat", "as_slice", "to_vec", "next"}
PASS_F = ("String::from", "ToOwned::to_owned", "ToString::to_string", "From::from", "Into::into", "Option::Some", "Result::Ok", "Try::branch", "Clone::clone")


def _has_normalise(e):
    for n in hirq.walk(e):
        if n["e"] == "call" and (hirq.strip(n["f"]).get("path") or "") == NORMALISE:
            return True
    return False


class Bindings:
    """where each binding (HirId) of an expanded HIR tree gets its value from"""

    def __init__(self, root, params):
        self.src = {}
        for p in params or []:
            for q in hirq.walk_pats(p):
                if q.get("p") == "bind" and "hid" in q:
                    self.src[q["hid"]] = ("param", q.get("name"))
        for n in hirq.walk(root):
            k = n["e"]
            if k == "let" and n.get("init") is not None:
                for q in hirq.walk_pats(n["pat"]):
                    if q.get("p") == "bind" and "hid" in q:
                        self.src[q["hid"]] = ("expr", n["init"])
            elif k == "letcond":
                for q in hirq.walk_pats(n["pat"]):
                    if q.get("p") == "bind" and "hid" in q:
                        self.src[q["hid"]] = ("expr", n["init"])
            elif k == "match":
                for a in n["arms"]:
                    for q in hirq.walk_pats(a["pat"]):
                        if q.get("p") == "bind" and "hid" in q:
                            self.src[q["hid"]] = ("expr", n["scrut"])
            elif k in ("mcall", "call"):
                args = ([n["recv"]] if k == "mcall" else []) + list(n["args"])
                for a in args[1:] if k == "mcall" else args:
                    c = hirq.strip(a)
                    if isinstance(c, dict) and c.get("e") == "closure":
                        for p in c.get("params") or []:
                            for q in hirq.walk_pats(p):
                                if q.get("p") == "bind" and "hid" in q:
                                    # the closure's argument comes out of the receiver / first argument of the adaptor
                                    self.src[q["hid"]] = ("expr", args[0]) if args and args[0] is not a else ("unknown", None)


def norm_status(e, binds, depth=0):
    """("yes", None) | ("param", name) | ("no", why)"""
    e = hirq.strip(e)
    if not isinstance(e, dict) or depth > 12:
        return ("no", "unrecognised expression")
    if _has_normalise(e):
        return ("yes", None)
    k = e.get("e")
    if k == "path" and "hid" in e:
        s = binds.src.get(e["hid"])
        if s is None:
            return ("no", "binding `%s` has no visible source" % e.get("local"))
        if s[0] == "param":
            return ("param", s[1])
        if s[0] == "expr":
            return norm_status(s[1], binds, depth + 1)
        return ("no", "binding `%s` comes from an unrecognised closure" % e.get("local"))
    if k == "mcall" and e["name"] in PASS_M:
        return norm_status(e["recv"], binds, depth + 1)
    if k == "call" and (hirq.strip(e["f"]).get("path") or "").endswith(PASS_F) and e["args"]:
        return norm_status(e["args"][0], binds, depth + 1)
    if k == "match" and "TryDesugar" in (e.get("src") or ""):
        return norm_status(e["scrut"], binds, depth + 1)
    if k in ("unary", "index", "field", "cast"):
        return norm_status(e.get("a"), binds, depth + 1)
    if k == "block" and e.get("tail") is not None:
        return norm_status(e["tail"], binds, depth + 1)
    if k == "lit":
        return ("yes", None)        # program text, not user text
    return ("no", "value computed by `%s`" % (e.get("name") or (hirq.strip(e.get("f") or {}).get("path") if k == "call" else k)))


def nrm1(ctx):
    """Every word the library builds from text is built from *normalised* text: run(), the tracer entries and the rule-side
    test helper all read the same language of spellings (C13's word respellings live in normalise; C16's trace must read
    the phrase as run does)."""
    r = RuleResult("NRM-1", "every Word::new in the library receives text that went through normalise() (directly, through a local helper, or because Word::new normalises itself): all entry points read the same word language", floor=5)
    lib = ctx.lib
    wn = ctx.fn(lib, WORD_NEW)
    ctx.fn(lib, NORMALISE)
    inside = any((callee_path(t) or "") == NORMALISE for _, t in wn.calls())
    n = 0
    judged_in_callers = set()
    open_fns = {}
    for b in lib.bodies:
        if b.in_test_mod() or not b.hir or b.kind == "closure" or b.exp:
            continue
        tree = hirq.inline_helpers(lib, b, keep={WORD_NEW, NORMALISE}, prefixes=("asca::",), max_depth=3,
                                   only_if=lambda cb: any(x["e"] == "call" and (hirq.strip(x["f"]).get("path") or "") == WORD_NEW for x in hirq.walk(cb.hir["body"])))
        calls = [x for x in hirq.walk(tree) if x["e"] == "call" and (hirq.strip(x["f"]).get("path") or "") == WORD_NEW]
        if not calls:
            continue
        binds = Bindings(tree, b.hir.get("params"))
        for k, c in enumerate(calls):
            st, why = ("yes", None) if inside else norm_status(c["args"][0], binds)
            loc = fn_loc(b, c.get("ln"))
            if st == "param" and not b.is_pub:
                open_fns.setdefault(b.path, []).append((k, why, loc))
                continue
            n += 1
            ok = st == "yes"
            r.inst("%s: Word::new #%d is given %s" % (b.path, k, "normalised text" if ok else ("the caller's raw `%s`" % why if st == "param" else "text that bypasses normalise (%s)" % why)), loc, "ok" if ok else "report")
            if not ok:
                r.report("NRM-1|%s|Word::new#%d" % (b.path, k), loc, b.path,
                         "a word is built from text that did not pass normalise() (%s): this entry reads a different word language from run() -- precomposed / look-alike spellings that run() accepts are rejected or read differently here"
                         % ("public parameter `%s`" % why if st == "param" else why))
    # private functions whose Word::new depends on a parameter must have been judged inside a caller (through inlining)
    cg = lib.callgraph
    for p, sites in sorted(open_fns.items()):
        callers = [q for q, outs in cg.items() if p in outs and q != p and lib.body(q) is not None and not lib.body(q).in_test_mod()]
        if not callers:
            continue
        r.inst("%s: %d Word::new site(s) depend on a parameter; judged inside its %d caller(s)" % (p, len(sites), len(callers)), sites[0][2], "ok", nontrivial=False)
    r.analysed = {"word_new_sites": n, "word_new_normalises_itself": inside}
    return r


# ---------------------------------------------------------------- RT-3: lossy spelling only where the user asked for it

NEAREST = "asca::seg::Segment::get_nearest_grapheme"
REPL = "asca::alias::parser::AliasParseElement::Replacement"


def _rt3_judge(root, only_inl=None):
    """[(site node, guarded)] for every get_nearest_grapheme call in `root` (only those expanded from helper `only_inl`)"""
    is_site = lambda x: (x["e"] == "mcall" and x.get("def") == NEAREST) or (x["e"] == "call" and (hirq.strip(x["f"]).get("path") or "") == NEAREST)
    sites = [x for x in hirq.walk(root) if is_site(x)]
    if not sites:
        return []
    par = hirq.parent_map(root)
    flags = set()
    for pt in hirq.walk_pats(root):
        if pt.get("p") == "ts" and pt.get("path") == REPL and len(pt.get("pats") or []) == 2:
            for q in hirq.walk_pats(pt["pats"][1]):
                if q.get("p") == "bind" and "hid" in q:
                    flags.add(q["hid"])
    flags = hirq.derived_hids(root, flags)
    out = []
    for s in sites:
        guarded, from_inl = False, False
        x, child = par.get(id(s)), s
        while x is not None:
            if x.get("e") == "if" and any(y is child for y in hirq.walk(x["then"])):
                for c in _conj(x["cond"]):
                    c0 = hirq.strip(c)
                    while isinstance(c0, dict) and c0.get("e") == "unary" and c0.get("op") == "Deref":
                        c0 = hirq.strip(c0["a"])
                    if isinstance(c0, dict) and c0.get("e") == "path" and c0.get("hid") in flags:
                        guarded = True
            if x.get("inl") == only_inl and only_inl is not None:
                from_inl = True
            child = x
            x = par.get(id(x))
        if only_inl is None or from_inl:
            out.append((s, guarded))
    return out


def rt3(ctx):
    """Segment::get_nearest_grapheme spells a segment as the *closest* base phone: by construction the text reads back as a
    different segment. The only place that may print it is the romaniser's `+` replacement (`a:[..] > +x`), where the user
    asked for the base letter to be kept. Everywhere else a segment without an exact spelling must stay visible ('\ufffd'),
    or a staged pipeline silently continues with another segment than the single run."""
    r = RuleResult("RT-3", "the lossy speller get_nearest_grapheme is called only under the romaniser's `+` flag (the second field of AliasParseElement::Replacement); every other rendering path spells exactly or not at all", floor=1)
    lib = ctx.lib
    ctx.fn(lib, NEAREST)
    n = 0
    MSG = ("a segment is spelled with get_nearest_grapheme outside the romaniser's `+` branch: a segment that has no exact spelling is printed as a *different*, perfectly readable phone instead of '\ufffd' -- "
           "the rendered word reads back as another word, and a staged run continues from it")
    for b in lib.bodies:
        if b.in_test_mod() or not b.hir or b.kind == "closure" or b.exp or b.path == NEAREST:
            continue
        res = _rt3_judge(b.hir["body"])
        for k, (s, guarded) in enumerate(res):
            loc = fn_loc(b, s.get("ln"))
            if not guarded and not b.is_pub:
                # a private helper may be called under the flag: judge it, expanded, inside each caller
                callers = [q for q, outs in lib.callgraph.items() if b.path in outs and q != b.path and lib.body(q) is not None and lib.body(q).hir
                           and not lib.body(q).in_test_mod() and lib.body(q).kind != "closure"]
                if callers:
                    for q in sorted(callers):
                        qb = lib.body(q)
                        tree = hirq.inline_helpers(lib, qb, keep={NEAREST}, prefixes=("asca::",), max_depth=2, only_if=lambda cb: cb.path == b.path)
                        sub = _rt3_judge(tree, only_inl=b.path)
                        if not sub:
                            sub = [(None, False)]
                        for k2, (s2, g2) in enumerate(sub):
                            n += 1
                            r.inst("%s (helper %s): get_nearest_grapheme #%d is %s the romaniser's `+` flag" % (q, b.path.rsplit("::", 1)[-1], k2, "under" if g2 else "NOT under"), fn_loc(qb), "ok" if g2 else "report")
                            if not g2:
                                r.report("RT-3|%s|via:%s|nearest#%d" % (q, b.path.rsplit("::", 1)[-1], k2), loc, q, MSG)
                    continue
            n += 1
            r.inst("%s: get_nearest_grapheme #%d is %s the romaniser's `+` flag" % (b.path, k, "under" if guarded else "NOT under"), loc, "ok" if guarded else "report")
            if not guarded:
                r.report("RT-3|%s|nearest#%d" % (b.path, k), loc, b.path, MSG)
    if n == 0:
        raise AnchorMissing("RT-3: no call of get_nearest_grapheme found (the romaniser's `+` replacement is the anchor)")
    r.analysed = {"call_sites": n}
    return r


def _conj(e):
    e = hirq.strip(e)
    if isinstance(e, dict) and e.get("e") == "binary" and e.get("op") == "And":
        return _conj(e["a"]) + _conj(e["b"])
    return [e]


# ---------------------------------------------------------------- CLI-6: `asca run -o` writes on every successful path

FILE_WRITE_PRIMS = ("std::fs::write", "std::fs::File::create", "std::fs::OpenOptions::open", "std::fs::File::create_new")


def cli6(ctx):
    """`asca run -o FILE` must leave the library's answer in FILE whenever the run succeeded. In the function that calls
    asca::run, every path from the `Ok(res)` arm to the function's return passes a call that (transitively) writes a file,
    or leaves through `?` with an error -- whatever other options (-c) are given."""
    r = RuleResult("CLI-6", "cli::run: every path from the Ok arm of asca::run to the return passes the output-file writer or leaves with an error (no option makes a successful run skip -o)", floor=1)
    bn = ctx.bin
    cg = bn.callgraph
    writers = {p for p, outs in cg.items() if any(o.startswith(FILE_WRITE_PRIMS) for o in outs)}
    changed = True
    while changed:
        changed = False
        for p, outs in cg.items():
            if p not in writers and outs & writers:
                writers.add(p)
                changed = True
    if not writers:
        raise AnchorMissing("CLI-6: no function of the binary reaches a file-writing primitive")
    n = 0
    for b in bn.bodies:
        if b.in_test_mod() or not b.blocks or not b.path.startswith("asca_bin::cli::run::"):
            continue
        runs = [(i, t) for i, t in b.calls() if (callee_path(t) or "") == "asca::run"]
        for i, t in runs:
            nxt = t.get("t")
            sw = b.blocks[nxt]["t"] if nxt is not None else {}
            if sw.get("k") != "switch":
                raise AnchorMissing("CLI-6: %s: the result of asca::run is not matched directly" % b.path)
            ok = dict((v, tg) for v, tg in sw["vals"]).get(0)
            if ok is None:
                raise AnchorMissing("CLI-6: %s: Ok arm of asca::run not found" % b.path)
            n += 1
            W = {bi for bi, tt in b.calls() if (callee_path(tt) or "") in writers}
            R = {bi for bi, tt in b.calls() if "from_residual" in (callee_path(tt) or "")}
            reach = b.cfg.reachable_from(ok, avoid=W | R)
            rets = [x for x in reach if b.blocks[x]["t"]["k"] == "return"]
            # which call leads there: the last user call on such a path (for the message)
            last = None
            for x in sorted(reach):
                tt = b.blocks[x]["t"]
                if tt["k"] == "call" and (callee_path(tt) or "").startswith("asca_bin::") and not tt.get("exp"):
                    last = (callee_path(tt), ":".join((tt.get("loc") or b.loc).split(":")[:2]))
            good = not rets and bool(W)
            r.inst("%s: after a successful asca::run every path to the return writes the output file (%d writer call(s)) or propagates an error" % (b.path, len(W)),
                   ":".join(t["loc"].split(":")[:2]), "ok" if good else "report")
            if not good:
                r.report("CLI-6|%s|ok-path-skips-output" % b.path, last[1] if last else fn_loc(b), b.path,
                         "a successful run can return without calling the output writer (%s): with that option combination `asca run -o FILE` prints but never writes FILE, exit status 0"
                         % ("path through %s" % last[0].rsplit("::", 1)[-1] if last else "no writer call at all"))
    if n == 0:
        raise AnchorMissing("CLI-6: no call of asca::run in asca_bin::cli::run")
    r.analysed = {"run_calls": n, "file_writing_functions": len(writers)}
    return r


# ---------------------------------------------------------------- CLI-7: RuleGroup::is_empty looks at every field

def cli7(ctx):
    """parse_rsca decides with `!group.is_empty()` whether the group collected so far is kept when the next `@name` line
    arrives. A RuleGroup is name + rules + description: `is_empty` must look at all three, or a group that only has the
    fields it ignores is silently dropped by `conv` (json -> rsca -> json loses it)."""
    r = RuleResult("CLI-7", "RuleGroup::is_empty reads every field of RuleGroup (a group with only a name / only a description is not 'empty' and survives conversion)", floor=3)
    lib = ctx.lib
    adt = lib.adts.get("asca::RuleGroup")
    if adt is None:
        raise AnchorMissing("CLI-7: asca::RuleGroup not found")
    fields = [f["name"] for v in adt.get("variants", []) for f in v.get("fields", [])]
    b = ctx.fn(lib, "asca::RuleGroup::is_empty")
    read = set()
    for n in hirq.walk(b.hir["body"]):
        if n["e"] == "field" and (n.get("of_ty") or "").lstrip("&").endswith("asca::RuleGroup"):
            read.add(n["name"])
    # the user of the predicate
    users = [bb.path for bb in ctx.bin.bodies if not bb.in_test_mod() and any((callee_path(t) or "") == "asca::RuleGroup::is_empty" for _, t in bb.calls())]
    for f in fields:
        ok = f in read
        r.inst("RuleGroup::is_empty reads `%s`" % f, fn_loc(b), "ok" if ok else "report")
        if not ok:
            r.report("CLI-7|is_empty|%s" % f, fn_loc(b), b.path,
                     "RuleGroup::is_empty ignores the field `%s`: a group that only has a %s counts as empty, and %s drops it when the next `@` header is read -- conv json -> asca -> json loses the group"
                     % (f, f, ", ".join(u.rsplit("::", 1)[-1] for u in users) or "the rsca reader"))
    r.analysed = {"fields": fields, "users": users}
    return r


# ---------------------------------------------------------------- FLW-4g: the interpreter does not invent modifiers

SUPRA_T = "asca::parser::SupraSegs"
INTERP = ("asca::subrule::", "asca::syll::")
CTOR_PREFIX = ("asca::parser::ModKind::", "asca::parser::BinMod::")


def _absent(e):
    e = hirq.strip(e)
    if not isinstance(e, dict):
        return False
    if e.get("e") == "path" and (e.get("path") or "").endswith("Option::None"):
        return True
    if e.get("e") == "array":
        return all(_absent(x) for x in e.get("items", []))
    return False


def _copied(e, root_binds):
    """the expression is a binding of a pattern (the parsed rule's own data), possibly dereferenced / cloned / a field of it"""
    e = hirq.strip(e)
    while isinstance(e, dict):
        if e.get("e") == "unary" and e.get("op") == "Deref":
            e = hirq.strip(e["a"])
        elif e.get("e") == "mcall" and e["name"] in ("clone", "to_owned") and not e.get("args"):
            e = hirq.strip(e["recv"])
        elif e.get("e") in ("field", "index"):
            e = hirq.strip(e["a"])
        else:
            break
    return isinstance(e, dict) and e.get("e") == "path" and "local" in e


def flw4g(ctx):
    """Segment-only and prosody-only rules stay on their tier because the interpreter only ever *applies the modifiers the
    rule contains*: in asca::subrule and asca::syll a SupraSegs is assembled from the parsed element's own stress / tone
    (length absent) and no ModKind / BinMod value is constructed. A fabricated `Some(ModKind::Binary(..))` is a
    suprasegmental change that the rule text did not ask for."""
    r = RuleResult("FLW-4g", "the rule interpreter never fabricates a modifier: every SupraSegs built in asca::subrule / asca::syll copies stress and tone from the parsed element and leaves the rest absent; no ModKind/BinMod value is constructed there; no field of a SupraSegs is assigned", floor=6)
    lib = ctx.lib
    n_build = 0
    for b in lib.bodies:
        if b.in_test_mod() or not b.hir or b.kind == "closure" or b.exp or not b.path.startswith(INTERP):
            continue
        root = b.hir["body"]
        par = hirq.parent_map(root)
        k_c = 0
        for x in hirq.walk(root):
            # (1) SupraSegs literals and SupraSegs::from / ::new
            fields = None
            if x["e"] == "struct" and (x.get("path") or "") == SUPRA_T:
                fields = [(nm, ex) for nm, ex in x.get("fields", [])]
            elif x["e"] == "call" and (hirq.strip(x["f"]).get("path") or "") == SUPRA_T + "::from":
                fields = list(zip(("stress", "length", "tone"), x["args"]))
            if fields is not None:
                n_build += 1
                bad = [nm for nm, ex in fields if not (_absent(ex) or _copied(ex, None))]
                loc = fn_loc(b, x.get("ln"))
                r.inst("%s: SupraSegs built from %s" % (b.path, ", ".join("%s=%s" % (nm, "absent" if _absent(ex) else ("copied" if _copied(ex, None) else "COMPUTED")) for nm, ex in fields)), loc, "ok" if not bad else "report")
                if bad:
                    r.report("FLW-4g|%s|build|%s" % (b.path, "+".join(bad)), loc, b.path,
                             "a SupraSegs handed to the suprasegmental setters has a computed %s: the interpreter applies a stress / length / tone modifier that the rule text does not contain" % "/".join(bad))
            # (2) constructor expressions of ModKind / BinMod
            if x["e"] == "path" and (x.get("path") or "").startswith(CTOR_PREFIX) and "ctor" in (x.get("rk") or ""):
                p = par.get(id(x))
                while p is not None and p.get("e") in ("call",) and hirq.strip(p["f"]) is x:
                    p = par.get(id(p))
                if p is not None and p.get("e") == "binary" and p.get("op") in ("Eq", "Ne"):
                    continue            # compared, not built
                loc = fn_loc(b, x.get("ln"))
                r.inst("%s: constructs %s" % (b.path, x["path"].split("::", 2)[-1]), loc, "report")
                r.report("FLW-4g|%s|ctor|%s#%d" % (b.path, x["path"].rsplit("::", 2)[-2] + "::" + x["path"].rsplit("::", 1)[-1], k_c), loc, b.path,
                         "the interpreter constructs the modifier value %s: modifiers come from the parsed rule only -- a fabricated one changes a tier (length / stress / tone) the rule did not name"
                         % x["path"].split("::", 2)[-1])
                k_c += 1
            # (3) assignments into a SupraSegs
            if x["e"] in ("assign", "assignop"):
                l = hirq.strip(x["lhs"])
                hit = None
                y = l
                while isinstance(y, dict) and y.get("e") in ("field", "index", "unary"):
                    if y.get("e") == "field" and (y.get("of_ty") or "").lstrip("&").replace("mut ", "") == SUPRA_T:
                        hit = y["name"]
                    y = hirq.strip(y["a"])
                if hit:
                    loc = fn_loc(b, x.get("ln"))
                    r.inst("%s: assigns SupraSegs.%s" % (b.path, hit), loc, "report")
                    r.report("FLW-4g|%s|assign|%s" % (b.path, hit), loc, b.path,
                             "the interpreter edits the `%s` modifiers of a SupraSegs before applying it: the applied modifiers are no longer the rule's" % hit)
    if n_build < 4:
        raise AnchorMissing("FLW-4g: %d SupraSegs constructions in the interpreter (expected >= 4)" % n_build)
    r.analysed = {"suprasegs_built": n_build}
    return r


# ---------------------------------------------------------------- SHR-4: the deromaniser applies modifiers like a rule does

def _binary_arm(body, array_field):
    """the `ModKind::Binary(bm) => ..` arm of the match inside the loop over `<mods>.<array_field>`"""
    for n in hirq.walk(body.hir["body"]):
        if n["e"] == "match" and n.get("src") == "ForLoopDesugar" or (n["e"] == "loop" and n.get("src") == "ForLoop"):
            pass
    loops = [n for n in hirq.walk(body.hir["body"]) if n.get("src") == "ForLoopDesugar" or (n["e"] == "match" and "ForLoop" in str(n.get("src")))]
    for lp in loops:
        txt = json.dumps(lp.get("scrut") or lp)[:3000]
        # the iterated expression mentions the array (`mods.nodes` / `nodes`)
        if not any((x["e"] == "field" and x.get("name") == array_field) or (x["e"] == "path" and x.get("local") == array_field) for x in hirq.walk(lp.get("scrut") or {})):
            continue
        for m in hirq.walk(lp):
            if m["e"] == "match" and (m.get("sty") or "").lstrip("&").endswith("asca::parser::ModKind"):
                for a in m["arms"]:
                    if any((p.get("path") or "") == "asca::parser::ModKind::Binary" for p in hirq.flat_pats(a["pat"])):
                        return a, m
    return None, None


NODEKINDS = ("Root", "Manner", "Laryngeal", "Place", "Labial", "Coronal", "Dorsal", "Pharyngeal")
SIGNS = ("Positive", "Negative")


def _enum_val(pat_path):
    for pre in ("asca::parser::BinMod::", "asca::seg::NodeKind::"):
        if pat_path.startswith(pre):
            return pat_path[len(pre):]
    return None


def _pat_matches(pat, val):
    """does a pattern accept the concrete value `val` (an enum variant name, or a tuple of them)?  None = unknown"""
    k = pat.get("p")
    if k in ("wild", "bind"):
        return True
    if k == "ref":
        return _pat_matches(pat["sub"], val)
    if k == "or":
        rs = [_pat_matches(q, val) for q in pat["pats"]]
        return None if any(x is None for x in rs) and not any(x is True for x in rs) else any(x is True for x in rs)
    if k in ("path", "ts"):
        v = _enum_val(pat.get("path") or "")
        return None if v is None else v == val
    if k == "tup":
        if not isinstance(val, tuple) or len(val) != len(pat["pats"]):
            return None
        rs = [_pat_matches(q, x) for q, x in zip(pat["pats"], val)]
        return None if any(x is None for x in rs) else all(rs)
    return None


def _table(expr, hid_val, guard_val, canon_leaf):
    """evaluate nested matches over the tracked enum locals (sign, node kind) for one concrete assignment"""
    e = hirq.strip(expr)
    while True:
        if isinstance(e, dict) and e.get("e") == "block" and not e.get("stmts") and e.get("tail") is not None:
            e = hirq.strip(e["tail"])
            continue
        break
    if isinstance(e, dict) and e.get("e") == "match":
        sc = hirq.strip(e["scrut"])

        def val_of(x):
            x = hirq.strip(x)
            while isinstance(x, dict) and x.get("e") == "unary" and x.get("op") == "Deref":
                x = hirq.strip(x["a"])
            if x.get("e") == "path" and x.get("hid") in hid_val:
                return hid_val[x["hid"]]
            if x.get("e") == "tup":
                vs = tuple(val_of(y) for y in x["items"])
                return None if any(v is None for v in vs) else vs
            return None
        v = val_of(sc)
        if v is not None:
            for arm in e["arms"]:
                m = _pat_matches(arm["pat"], v)
                if m is None:
                    return "?unreadable pattern at line %s" % arm.get("ln")
                if not m:
                    continue
                if arm.get("guard") is not None:
                    g = canon_leaf(arm["guard"])
                    if not guard_val.setdefault(g, guard_val.get("*default*", True)):
                        continue
                return _table(arm["body"], hid_val, guard_val, canon_leaf)
            return "?no arm"
    if isinstance(e, dict) and e.get("e") == "if" and hirq.strip(e["cond"]).get("e") != "letcond":
        g = canon_leaf(e["cond"])
        if guard_val.setdefault(g, guard_val.get("*default*", True)):
            return _table(e["then"], hid_val, guard_val, canon_leaf)
        return _table(e["else"], hid_val, guard_val, canon_leaf) if e.get("else") is not None else "()"
    return canon_leaf(e)


def shr4(ctx):
    """A deromaniser output `x > f:[+labial, +round]` must build the segment that the rule `f > [+labial, +round]` builds:
    for every sign and every node kind, Word::alias_apply_mods does to the segment what Segment::apply_seg_mods does
    (which error, which setter with which arguments, under which guard) -- compared as decision tables, so the two
    functions may nest their matches differently."""
    from engine_pol import Canon
    r = RuleResult("SHR-4", "Word::alias_apply_mods applies binary node / feature modifiers like Segment::apply_seg_mods: for every sign x node kind (and guard outcome) the same action -- same error variant, same setter call, same arguments", floor=22)
    lib = ctx.lib
    A = ctx.fn(lib, "asca::word::Word::alias_apply_mods")
    S = ctx.fn(lib, "asca::seg::Segment::apply_seg_mods")

    def canon_leaf(e):
        c = Canon()
        t = json.dumps(c.expr(e), sort_keys=True, default=str)
        return re.sub(r"asca::error::runtime::(Alias|Rule)RuntimeError::", "ERR::", t)

    def tables(fb, arr):
        arm, m = _binary_arm(fb, arr)
        if arm is None:
            raise AnchorMissing("SHR-4: the ModKind::Binary arm of the loop over `%s` was not found in %s" % (arr, fb.path.rsplit("::", 1)[-1]))
        # the sign local bound by `ModKind::Binary(bm)`; the node-kind local(s): every local of type NodeKind in the function
        sign_h = {q["hid"] for q in hirq.walk_pats(arm["pat"]) if q.get("p") == "bind" and "hid" in q}
        node_h = {x["hid"] for x in hirq.walk(fb.hir["body"]) if x["e"] == "path" and "hid" in x and (x.get("ty") or "").lstrip("&") == "asca::seg::NodeKind"}
        out = {}
        for sg in SIGNS:
            kinds = NODEKINDS if arr == "nodes" else (None,)
            for nk in kinds:
                for gv in (True, False):
                    hv = {h: sg for h in sign_h}
                    hv.update({h: nk for h in node_h} if nk else {})
                    gmap = {"*default*": gv}
                    leaf = _table(arm["body"], hv, gmap, canon_leaf)
                    used_guard = len(gmap) > 1
                    if not used_guard and gv is False:
                        continue
                    out[(sg, nk, gv if used_guard else None)] = leaf
        return out, arm, m

    for arr in ("nodes", "feats"):
        ta, aa, am = tables(A, arr)
        ts, sa, sm = tables(S, arr)
        for key in sorted(set(ta) | set(ts), key=str):
            sg, nk, gv = key
            la, ls = ta.get(key), ts.get(key)
            what = "%s%s%s" % ("+" if sg == "Positive" else "-", nk or "feature", "" if gv is None else (" (node absent)" if gv else " (node present)"))
            unread = [x for x in (la, ls) if isinstance(x, str) and x.startswith("?")]
            ok = la == ls and not unread
            r.inst("binary %s modifier %s: same action on the alias side and the rule side" % (arr[:-1], what), fn_loc(A, am.get("ln")), "ok" if ok else "report")
            if not ok:
                r.report("SHR-4|%s|%s|%s%s" % (arr, sg, nk or "-", "" if gv is None else "|guard=%s" % gv), fn_loc(A, am.get("ln")), A.path,
                         "for %s the deromaniser (alias_apply_mods) and the rule interpreter (apply_seg_mods) do different things%s: text `s` aliased to `X:[mods]` no longer behaves as if the segment had been produced by a rule"
                         % (what, " (%s)" % unread[0] if unread else ""))
    return r


# ---------------------------------------------------------------- SYN-3: Greek and Latin alpha letters are tested together

def _is_greek_atom(e):
    if e.get("e") != "match":
        return False
    for a in e.get("arms", []):
        for p in hirq.walk_pats(a["pat"]):
            if p.get("p") == "range" and (p.get("lo") or {}).get("lit") == "α" and (p.get("hi") or {}).get("lit") == "ω":
                return True
    return False


def _is_latin_atom(e):
    return e.get("e") == "mcall" and e.get("name") == "is_ascii_uppercase"


def _subject(e):
    """printable subject of a class test (`self.curr_char()`, `c`)"""
    x = e["scrut"] if e.get("e") == "match" else e.get("recv")
    x = hirq.strip(x)
    out = []
    while isinstance(x, dict):
        if x.get("e") == "mcall":
            out.append(x["name"] + "()")
            x = hirq.strip(x["recv"])
        elif x.get("e") == "path":
            out.append(x.get("local") or x.get("path") or "?")
            break
        elif x.get("e") in ("unary", "field"):
            out.append(x.get("name") or "*")
            x = hirq.strip(x["a"])
        else:
            out.append(x.get("e"))
            break
    return ".".join(reversed(out))


def _groups(e, neg, out, top=True):
    """flatten a boolean expression into same-operator groups of (atom, negated) under De Morgan normalisation"""
    e = hirq.strip(e)
    if isinstance(e, dict) and e.get("e") == "unary" and e.get("op") == "Not":
        return _groups(e["a"], not neg, out, top)
    if isinstance(e, dict) and e.get("e") == "binary" and e.get("op") in ("And", "Or"):
        op = e["op"] if not neg else ("Or" if e["op"] == "And" else "And")
        members = []

        def collect(x, n):
            x = hirq.strip(x)
            if isinstance(x, dict) and x.get("e") == "unary" and x.get("op") == "Not":
                return collect(x["a"], not n)
            if isinstance(x, dict) and x.get("e") == "binary" and x.get("op") in ("And", "Or"):
                o2 = x["op"] if not n else ("Or" if x["op"] == "And" else "And")
                if o2 == op:
                    collect(x["a"], n)
                    collect(x["b"], n)
                    return
                sub = []
                _groups(x, n, out, False)
                members.append((x, n, "group"))
                return
            members.append((x, n, "atom"))
        collect(e["a"], neg)
        collect(e["b"], neg)
        out.append((op, members))
        return
    if top:
        out.append(("single", [(e, neg, "atom")]))


def syn3(ctx):
    """The manual allows Greek (α..ω) and Latin (A..Z) letters as alpha names interchangeably. Wherever the rule lexer asks
    'is this character a Greek alpha letter?' it must ask 'or a Latin capital?' in the same breath: as direct members of
    the same and/or chain with the same sign. An extra condition glued to only one of the two (`greek || latin && ..`)
    makes `[-Aplace]` and `[-αplace]` lex differently."""
    r = RuleResult("SYN-3", "in the rule lexer every test for a Greek alpha letter ('α'..='ω') has the Latin-capital test on the same subject as a direct sibling in the same and/or chain, with the same sign (Greek and Latin alpha names are interchangeable)", floor=1)
    lib = ctx.lib
    n = 0
    for b in lib.bodies:
        if b.in_test_mod() or not b.hir or b.kind == "closure" or not b.path.startswith("asca::lexer::"):
            continue
        root = b.hir["body"]
        greeks = [x for x in hirq.walk(root) if _is_greek_atom(x)]
        if not greeks:
            continue
        par = hirq.parent_map(root)
        for k, g in enumerate(greeks):
            n += 1
            # the maximal boolean expression around the atom
            top = g
            p = par.get(id(top))
            while p is not None and ((p.get("e") == "binary" and p.get("op") in ("And", "Or")) or (p.get("e") == "unary" and p.get("op") == "Not")):
                top = p
                p = par.get(id(p))
            groups = []
            _groups(top, False, groups)
            ok = False
            why = "no Latin-capital test next to it"
            for op, members in groups:
                gs = [(x, ng) for x, ng, kind in members if kind == "atom" and x is g]
                if not gs:
                    continue
                ng = gs[0][1]
                lat = [(x, nl) for x, nl, kind in members if kind == "atom" and _is_latin_atom(x) and _subject(x) == _subject(g)]
                if any(nl == ng for _x, nl in lat):
                    ok = True
                elif lat:
                    why = "the Latin-capital test has the opposite sign"
                else:
                    nested = [x for x, _n, kind in members if kind == "group" and any(_is_latin_atom(y) for y in hirq.walk(x))]
                    if nested:
                        why = "the Latin-capital test carries an extra condition that the Greek test does not (`greek %s (latin %s ..)`)" % ("||" if op == "Or" else "&&", "&&" if op == "Or" else "||")
            loc = fn_loc(b, g.get("ln"))
            r.inst("%s: Greek-alpha test #%d on `%s` has the Latin-capital test as a same-sign sibling" % (b.path, k, _subject(g)), loc, "ok" if ok else "report")
            if not ok:
                r.report("SYN-3|%s|greek#%d" % (b.path, k), loc, b.path,
                         "the test for a Greek alpha letter on `%s` is not paired with the Latin-capital test: %s -- `[-Aplace]` and `[-αplace]` are lexed differently although the manual makes Latin and Greek alpha names interchangeable" % (_subject(g), why))
    if n < 1:
        raise AnchorMissing("SYN-3: no Greek-alpha class test ('α'..='ω') in the rule lexer")
    r.analysed = {"greek_class_tests": n}
    return r


# ---------------------------------------------------------------- SUP-7: a tested long segment is stepped over whole

def sup7(ctx):
    """A long segment is stored as a run of identical copies; `seg_length_at` only counts forward. The two element matchers
    that test one segment against an IPA / matrix element step the cursor over the whole run afterwards -- on success *and*
    on failure. If the failure path forgets it, the scan continues inside the run, where the tail looks like a shorter
    segment: `a:[-long]` then matches the second half of /a:/."""
    r = RuleResult("SUP-7", "input_match_ipa / input_match_matrix: every non-error return passes the run-skip loop (seg_length_at .. while > 1 { pos.increment }) -- a failed test of a long segment does not leave the cursor inside its run", floor=2)
    lib = ctx.lib
    n = 0
    for name in ("input_match_ipa", "input_match_matrix"):
        b = ctx.fn(lib, "asca::subrule::SubRule::" + name)
        b2 = inline_mir_helpers(lib, b)
        cfg = b2.cfg
        loops = cfg.loops
        incs = {i for i, t in b2.calls() if (callee_path(t) or "").endswith("SegPos::increment")}
        reads = [i for i, t in b2.calls() if (callee_path(t) or "").endswith("Word::seg_length_at")]
        rets = {i for i, bl in enumerate(b2.blocks) if bl["t"]["k"] == "return" and not bl.get("cleanup")}
        errs = {i for i, t in b2.calls() if "from_residual" in (callee_path(t) or "")}
        skip_loops = [(h, body) for h, body in loops if incs & set(body)]
        S = set()
        for s in reads:
            reach = cfg.reachable_from(s, avoid=(set(reads) - {s}) | rets)
            if any(h in reach for h, _ in skip_loops):
                S.add(s)
        if not S:
            raise AnchorMissing("SUP-7: %s has no run-skip loop (seg_length_at followed by a loop over SegPos::increment)" % name)
        n += 1
        # a cursor past the end of the word has no run to step over: the out-of-bounds edge of a bounds test is a justified exit
        oob = set()
        for i, t in b2.calls():
            cp = callee_path(t) or ""
            nxt = t.get("t")
            sw = b2.blocks[nxt]["t"] if nxt is not None else {}
            if sw.get("k") != "switch":
                continue
            vals = dict((v, tg) for v, tg in sw["vals"])
            if cp.endswith("Word::out_of_bounds"):
                tgt = vals.get(1, sw.get("otherwise") if 0 in vals else None)
            elif cp.endswith("Word::in_bounds"):
                tgt = vals.get(0)
            elif cp.endswith("Word::get_seg_at"):
                tgt = vals.get(0, sw.get("otherwise") if 1 in vals else None)      # the `None` edge of the inspected Option
            else:
                continue
            if tgt is not None:
                oob.add(tgt)
        reach = cfg.reachable_from(0, avoid=S | errs | oob)
        bad = sorted(x for x in reach if x in rets)
        # name the statement that returns without the skip: the last source line on such a path before the return
        where = None
        if bad:
            cand = []
            for x in reach:
                bl = b2.blocks[x]
                for st in bl["s"]:
                    if st["k"] == "assign" and st["lhs"]["l"] == 0 and st.get("loc", "").startswith(b.file) and not st.get("exp"):
                        cand.append(st["loc"])
            where = ":".join(sorted(cand, key=lambda l: int(l.split(":")[1]))[0].split(":")[:2]) if cand else None
        r.inst("%s: all non-error returns pass one of the %d run-skip loops" % (name, len(S)), fn_loc(b), "ok" if not bad else "report")
        if bad:
            r.report("SUP-7|%s|return-without-skip" % name, where or fn_loc(b), b.path,
                     "%s can return (a verdict, not an error) without stepping the cursor over the rest of a long segment's run: the next attempt starts on the 2nd copy, where seg_length_at (which only looks forward) reports a shorter segment -- e.g. `a:[-long]` matches the tail of /a:/" % name)
    r.analysed = {"functions": n}
    return r


def inline_mir_helpers(lib, b):
    """look through private helpers that take the cursor (`&mut SegPos`): the skip loop may have been extracted"""
    import facts as F
    try:
        return F.inline_mir(lib, b, lambda cb: cb.path.startswith("asca::subrule::SubRule::") and any("SegPos" in (ty or "") and "&mut" in (ty or "") for ty in (cb.param_tys or []))
                            and not cb.path.endswith(("match_ipa_with_modifiers", "match_modifiers")))
    except (KeyError, IndexError):
        return b


# ---------------------------------------------------------------- RT-4: the reader's normalisation leaves the renderer's alphabet alone

def normalise_table(ctx):
    """char -> replacement string, from the arms of the `match ch` in asca::normalise (the default arm copies the char)"""
    b = ctx.fn(ctx.lib, NORMALISE)
    ms = [m for m in hirq.matches(b) if (m.get("sty") or "") == "char"]
    if len(ms) != 1:
        raise AnchorMissing("normalise: the `match ch` over the input characters was not found (%d candidates)" % len(ms))
    table = {}
    for arm in ms[0]["arms"]:
        pats = hirq.flat_pats(arm["pat"])
        if any(p.get("p") in ("wild", "bind") for p in pats):
            continue
        outs = [n for n in hirq.walk(arm["body"]) if n["e"] == "mcall" and n["name"] in ("push", "push_str")]
        if len(outs) != 1 or hirq.strip(outs[0]["args"][0]).get("e") != "lit":
            raise AnchorMissing("normalise: arm at line %s is not a single push of a literal" % arm.get("ln"))
        rep = hirq.strip(outs[0]["args"][0])["lit"]
        for p in pats:
            if p.get("p") == "lit" and isinstance(p.get("lit"), str):
                table[p["lit"]] = rep
            elif p.get("p") == "range":
                lo, hi = (p.get("lo") or {}).get("lit"), (p.get("hi") or {}).get("lit")
                if not (isinstance(lo, str) and isinstance(hi, str)):
                    raise AnchorMissing("normalise: range pattern at line %s" % arm.get("ln"))
                for c in range(ord(lo), ord(hi) + 1):
                    table[chr(c)] = rep
            else:
                raise AnchorMissing("normalise: pattern kind %s at line %s" % (p.get("p"), arm.get("ln")))
    return b, table


def rt4(ctx):
    """run() normalises every word it reads -- also the words an earlier stage printed. Whatever the renderer can print
    (a base phone of cardinals.json, a diacritic of diacritics.json) must therefore come through normalise() unchanged,
    or at least as another spelling of the very same segment; otherwise ASCA cannot read its own output, and a staged
    pipeline differs from the single run."""
    r = RuleResult("RT-4", "normalise() is the identity on the renderer's alphabet: every base-phone spelling of cardinals.json and every diacritic of diacritics.json is unchanged by it (or mapped to another table key of the same segment)", floor=380)
    b, table = normalise_table(ctx)
    cj = json.loads(ctx.read("src/cardinals.json"))
    dj = json.loads(ctx.read("src/diacritics.json"))
    norm = lambda s: "".join(table.get(ch, ch) for ch in s)
    n_bad = 0
    for k, v in cj.items():
        k2 = norm(k)
        ok = k2 == k or (k2 in cj and cj[k2] == v)
        r.inst("cardinal %r survives normalise()" % k, "src/cardinals.json", "ok" if ok else "report")
        if not ok:
            n_bad += 1
            hit = [ch for ch in k if ch in table]
            r.report("RT-4|cardinal|%s" % "+".join("U+%04X" % ord(c) for c in k), fn_loc(b), b.path,
                     "the renderer spells a base phone %r (%s), but normalise() rewrites %s to %r: the text ASCA prints is read back as %r, which is not that phone's spelling -- the word no longer round-trips and a second stage sees a different (or unreadable) word"
                     % (k, " ".join("U+%04X" % ord(c) for c in k), ", ".join("U+%04X" % ord(c) for c in hit), "".join(table[c] for c in hit), k2))
    for d in dj:
        c = d.get("diacrit")
        ok = isinstance(c, str) and norm(c) == c
        r.inst("diacritic %s (%s) survives normalise()" % (d.get("name"), "U+%04X" % ord(c) if isinstance(c, str) and len(c) == 1 else c), "src/diacritics.json", "ok" if ok else "report")
        if not ok:
            r.report("RT-4|diacritic|%s" % d.get("name"), fn_loc(b), b.path,
                     "the renderer prints the diacritic %r (%s) and normalise() rewrites it to %r: printed words are read back with another diacritic" % (c, d.get("name"), norm(c) if isinstance(c, str) else c))
    r.analysed = {"normalise_arms": len(table), "cardinals": len(cj), "diacritics": len(dj)}
    if len(table) < 8:
        raise AnchorMissing("RT-4: normalise() has %d rewriting arms (expected >= 8)" % len(table))
    return r


# ---------------------------------------------------------------- NRM-2: deromaniser strings live in the normalised word language

def nrm2(ctx):
    """Word text is normalised before Word::new reads it; a deromaniser `s > X` compares its string `s` with that text.
    The string must therefore be normalised as well -- where the alias parser builds the Replacement, or where
    Word::fill_segments compares it -- or an alias whose string contains a character that normalise() rewrites
    (precomposed ã, ɚ, ǝ, ...) can never match."""
    r = RuleResult("NRM-2", "a deromaniser's replacement string is normalised like the word text it is compared with (at AliasParseElement::Replacement construction for deromanisers, or at the comparison in Word::fill_segments)", floor=1)
    lib = ctx.lib
    ctx.fn(lib, NORMALISE)
    sites = []
    for b in lib.bodies:
        if b.in_test_mod() or not b.hir or b.kind == "closure" or not b.path.startswith("asca::alias::parser::"):
            continue
        binds = None
        for x in hirq.walk(b.hir["body"]):
            if x["e"] == "call" and (hirq.strip(x["f"]).get("path") or "") == REPL and x["args"]:
                binds = binds or Bindings(b.hir["body"], b.hir.get("params"))
                sites.append((b, x, norm_status(x["args"][0], binds)))
    if not sites:
        raise AnchorMissing("NRM-2: no construction of AliasParseElement::Replacement in the alias parser")
    at_parse = all(st[0] == "yes" for _b, _x, st in sites)
    # the comparison side
    fs = ctx.fn(lib, "asca::word::Word::fill_segments")
    flags = set()
    for pt in hirq.walk_pats(fs.hir["body"]):
        if pt.get("p") == "ts" and pt.get("path") == REPL and pt.get("pats"):
            for q in hirq.walk_pats(pt["pats"][0]):
                if q.get("p") == "bind" and "hid" in q:
                    flags.add(q["hid"])
    flags = hirq.derived_hids(fs.hir["body"], flags)
    cmp_sites = [x for x in hirq.walk(fs.hir["body"]) if x["e"] == "mcall" and x["name"] == "chars" and any(y["e"] == "path" and y.get("hid") in flags for y in hirq.walk(x["recv"]))]
    if not cmp_sites:
        raise AnchorMissing("NRM-2: Word::fill_segments does not iterate the characters of the replacement string")
    at_cmp = all(_has_normalise(x["recv"]) or any(_has_normalise(binit) for binit in _let_inits(fs, x["recv"])) for x in cmp_sites)
    ok = at_parse or at_cmp
    for b, x, st in sites:
        r.inst("%s: Replacement string is %s" % (b.path, "normalised when built" if st[0] == "yes" else "stored as typed"), fn_loc(b, x.get("ln")), "ok" if ok else "report")
    r.inst("Word::fill_segments compares %s" % ("the normalised string" if at_cmp else "the stored string"), fn_loc(fs, cmp_sites[0].get("ln")), "ok" if ok else "report", nontrivial=False)
    if not ok:
        b, x, st = [s for s in sites if s[2][0] != "yes"][0]
        r.report("NRM-2|deromaniser-string", fn_loc(b, x.get("ln")), b.path,
                 "a deromaniser's string is stored as typed and compared with *normalised* word text: an alias such as `ã > o`, `ɚ > X` or `ǝ > X` (any string containing a character normalise() rewrites) never matches, so the text does not behave as if X had been typed")
    # the other direction: a *romaniser's* string is output, printed as the user gave it -- a normalise() on the way into a
    # Replacement must be under a test of the alias kind
    for b, x, st in sites:
        par = hirq.parent_map(b.hir["body"])
        binds = Bindings(b.hir["body"], b.hir.get("params"))
        # every normalise call in the derivation of the string
        def derivation(e, depth=0, seen=None):
            seen = seen if seen is not None else set()
            out = [e]
            for y in hirq.walk(e):
                if y["e"] == "path" and y.get("hid") in binds.src and y["hid"] not in seen and depth < 6:
                    seen.add(y["hid"])
                    src = binds.src[y["hid"]]
                    if src[0] == "expr":
                        out += derivation(src[1], depth + 1, seen)
            return out
        norm_calls = [y for e in derivation(x["args"][0]) for y in hirq.walk(e) if y["e"] == "call" and (hirq.strip(y["f"]).get("path") or "") == NORMALISE]
        for k, nc in enumerate(norm_calls):
            guarded = False
            z, child = par.get(id(nc)), nc
            while z is not None and not guarded:
                if z.get("e") == "if":
                    mentions = [y for y in hirq.walk(z["cond"]) if y["e"] == "path" and (y.get("path") or "").startswith("asca::alias::AliasKind::")]
                    in_then = any(y is child for y in hirq.walk(z["then"]))
                    c0 = hirq.strip(z["cond"])
                    for mpath in mentions:
                        v = mpath["path"].rsplit("::", 1)[-1]
                        op = c0.get("op") if c0.get("e") == "binary" else None
                        derom_branch = (v == "Deromaniser" and ((op == "Eq" and in_then) or (op == "Ne" and not in_then))) or \
                                       (v == "Romaniser" and ((op == "Ne" and in_then) or (op == "Eq" and not in_then)))
                        if derom_branch:
                            guarded = True
                if z.get("e") == "match":
                    for arm in z.get("arms", []):
                        if any(y is child for y in hirq.walk(arm["body"])) and any((p_.get("path") or "").endswith("AliasKind::Deromaniser") for p_ in hirq.flat_pats(arm["pat"])):
                            guarded = True
                child = z
                z = par.get(id(z))
            r.inst("%s: normalise() on the way into a Replacement is applied to deromanisers only" % b.path, fn_loc(b, nc.get("ln")), "ok" if guarded else "report")
            if not guarded:
                r.report("NRM-2|romaniser-string-normalised|%s#%d" % (b.path.rsplit("::", 1)[-1], k), fn_loc(b, nc.get("ln")), b.path,
                         "the replacement string of every alias -- also of a romaniser, whose string is *printed* -- goes through normalise(): `ə > ǝ` prints ə again, `ħ > +ℏ` prints ħħ, precomposed letters come out decomposed")
    r.analysed = {"replacement_ctor_sites": len(sites), "normalised_at_parse": at_parse, "normalised_at_comparison": at_cmp}
    return r


def _let_inits(body, e):
    out = []
    hs = {y.get("hid") for y in hirq.walk(e) if y["e"] == "path" and "hid" in y}
    for n in hirq.walk(body.hir["body"]):
        if n["e"] == "let" and n.get("init") is not None and any(q.get("hid") in hs for q in hirq.walk_pats(n["pat"]) if q.get("p") == "bind"):
            out.append(n["init"])
    return out


# ---------------------------------------------------------------- FLW-13: a failed trial of the rest puts the cursor back

def flw13(ctx):
    """`(X,M:N)` is matched lazily: after the mandatory repetitions the rest of the environment is tried; if it fails one
    more X is consumed and the rest is tried again. A trial of the rest moves the cursor as far as it got. Before the
    next repetition of X the cursor must be put back to where the last repetition ended -- otherwise the next X is looked
    for behind a partially matched remainder and `_(C,0:2)ai` accepts `a|kakai`."""
    r = RuleResult("FLW-13", "context_match_option: every path from a trial of the remaining context (context_match) to the next repetition of the optional (match_opt_states) passes a write of the cursor `*pos` (the failed trial is undone)", floor=2)
    lib = ctx.lib
    b = ctx.fn(lib, "asca::subrule::SubRule::context_match_option")
    names = b.param_names or []
    if "pos" not in names:
        raise AnchorMissing("FLW-13: context_match_option has no parameter `pos`")
    pl = names.index("pos") + 1
    CM = "asca::subrule::SubRule::context_match"
    MO = "asca::subrule::SubRule::match_opt_states"
    wrappers = {p for p, outs in lib.callgraph.items() if p.startswith("asca::subrule::SubRule::") and CM in outs and p not in (b.path, CM, MO)
                and lib.body(p) is not None and any((ty or "") == "&mut " + SEGPOS for ty in (lib.body(p).param_tys or [])) and "states" in (lib.body(p).param_names or [])
                and not p.rsplit("::", 1)[-1].startswith(("context_match_", "match_before", "match_after", "insertion"))}
    T = [i for i, t in b.calls() if (callee_path(t) or "") == CM or (callee_path(t) or "") in wrappers]
    M = {i for i, t in b.calls() if (callee_path(t) or "") == "asca::subrule::SubRule::match_opt_states"}
    if not T or not M:
        raise AnchorMissing("FLW-13: context_match_option: %d trials of the rest, %d repetitions of the optional" % (len(T), len(M)))
    W = set()
    for bi, bl in enumerate(b.blocks):
        for s in bl["s"]:
            if s["k"] == "assign" and s["lhs"]["l"] == pl and s["lhs"]["p"] and s["lhs"]["p"][0] == "*":
                W.add(bi)
    rets = {i for i, bl in enumerate(b.blocks) if bl["t"]["k"] == "return"}
    for k, t in enumerate(T):
        nxt = b.blocks[t]["t"].get("t")
        reach = b.cfg.reachable_from(nxt, avoid=W | rets) if nxt is not None else set()
        hit = sorted(x for x in reach if x in M)
        loc = ":".join((b.blocks[t]["t"].get("loc") or b.loc).split(":")[:2])
        r.inst("context_match_option: trial #%d of the remaining context is undone (cursor written) before any further repetition of the optional" % k, loc, "ok" if not hit else "report")
        if hit:
            ml = ":".join((b.blocks[hit[0]]["t"].get("loc") or b.loc).split(":")[:2])
            r.report("FLW-13|context_match_option|trial#%d" % k, loc, b.path,
                     "after this trial of the rest of the environment the next repetition of the optional (%s) can be reached without `*pos` being put back: the repetition is looked for behind the partially matched remainder -- `a > e / _(C,0:2)ai` rewrites the first a of `akakai`, its expansion `:{_ai, _Cai, _CCai}:` does not" % ml)
    # ... and put back to where the *mandatory* repetitions ended, not to where the optional began: a restore that leads on
    # to further repetitions uses a snapshot taken after the first loop over match_opt_states
    from engine_flw2 import _single_def
    loops_m = sorted([(h, set(body)) for h, body in b.cfg.loops if M & set(body)], key=lambda x: x[0])
    if len(loops_m) >= 2:
        h1 = loops_m[0][0]
        after1 = b.cfg.reachable_from(h1)
        k = 0
        for bi in sorted(W):
            for s_ in b.blocks[bi]["s"]:
                if not (s_["k"] == "assign" and s_["lhs"]["l"] == pl and s_["lhs"]["p"] == ["*"] and s_["rv"].get("k") == "use" and s_["rv"]["op"].get("k") in ("copy", "move")):
                    continue
                nxt_reach = b.cfg.reachable_from(bi)
                if not (M & nxt_reach - {bi}):
                    continue            # a restore on the way out (mandatory part failed)
                src = s_["rv"]["op"]["pl"]["l"]
                for _ in range(6):
                    d0 = _single_def(b, src)
                    if d0 is not None and d0.get("k") == "use" and d0["op"].get("k") in ("copy", "move") and not d0["op"]["pl"]["p"] and not b.local_name(src):
                        src = d0["op"]["pl"]["l"]
                    else:
                        break
                defs = [bj for bj, bl2 in enumerate(b.blocks) for s2 in bl2["s"] if s2["k"] == "assign" and s2["lhs"]["l"] == src and not s2["lhs"]["p"]]
                fresh = bool(defs) and all(bj in after1 for bj in defs)
                loc = ":".join((s_.get("loc") or b.loc).split(":")[:2])
                r.inst("context_match_option: cursor restore #%d before further repetitions uses a snapshot (`%s`) taken after the mandatory repetitions" % (k, b.local_name(src) or "_%d" % src), loc, "ok" if fresh else "report")
                if not fresh:
                    r.report("FLW-13|context_match_option|stale-snapshot#%d" % k, loc, b.path,
                             "after a failed trial of the rest the cursor is reset to `%s`, a snapshot taken before the mandatory repetitions of the optional, and more repetitions follow: the repetition count no longer matches the text consumed -- `_(C,1:2)i` does not match `_CCi`" % (b.local_name(src) or "a temporary"))
                k += 1
    r.analysed = {"trials": len(T), "repetition_sites": len(M), "cursor_writes": len(W)}
    return r


# ---------------------------------------------------------------- ENV-5: nested element lists honour the direction

ENV5_EXCEPTIONS = {
    ("asca::subrule::SubRule::context_match_set", "set"): "a set lists alternatives, each matched alone at the same position: their order is a priority, not a direction",
}


def env5(ctx):
    """The part of an environment before the underline is matched right to left over the reversed word: the top-level
    element list is reversed by the caller. Every matcher that receives the direction (`forwards`) and scans a *nested*
    element list itself -- the items of a structure `<..>`, the elements of an optional `(..)` -- must reverse that list
    when it runs backwards, or `#(pt)_` looks for `tp`."""
    r = RuleResult("ENV-5", "every SubRule matcher that takes the direction `forwards` and scans a nested list of elements itself reverses that list when !forwards (structures, optionals); sets (alternatives) are the one named exception", floor=2)
    lib = ctx.lib
    n = 0
    for b in lib.bodies:
        if b.in_test_mod() or not b.hir or b.kind == "closure" or not b.path.startswith("asca::subrule::SubRule::"):
            continue
        names, tys = b.param_names or [], b.param_tys or []
        if "forwards" not in names:
            continue
        root = b.hir["body"]
        params = b.hir.get("params") or []
        hid_of = {}
        for p in params:
            for q in hirq.walk_pats(p):
                if q.get("p") == "bind" and "hid" in q:
                    hid_of[q.get("name")] = q["hid"]
        fw = hirq.derived_hids(root, {hid_of.get("forwards")})
        idx_params = {hid_of[nm] for nm, ty in zip(names, tys) if ty.replace(" ", "") == "&mutusize" and nm in hid_of}
        idx_derived = hirq.derived_hids(root, idx_params) if idx_params else set()
        fresh_locals = {q["hid"] for x in hirq.walk(root) if x["e"] == "let" for q in hirq.walk_pats(x["pat"]) if q.get("p") == "bind" and "hid" in q} - idx_derived
        for nm, ty in zip(names, tys):
            if "[asca::parser::Item]" not in ty and "Vec<asca::parser::Item>" not in ty:
                continue
            if nm not in hid_of:
                continue
            L = hirq.derived_hids(root, {hid_of[nm]})
            mentions = lambda e: any(y["e"] == "path" and y.get("hid") in L for y in hirq.walk(e))
            scans = False
            for x in hirq.walk(root):
                if x["e"] == "mcall" and (x.get("def") or "").endswith("SubRule::context_match") and len(x["args"]) >= 2 and mentions(x["args"][0]):
                    i0 = hirq.strip(x["args"][1])
                    while isinstance(i0, dict) and i0.get("e") in ("addr", "unary"):
                        i0 = hirq.strip(i0["a"])
                    if i0.get("e") == "path" and i0.get("hid") in fresh_locals:
                        scans = True
                if x["e"] == "match" and "ForLoop" in str(x.get("src")) and mentions(x.get("scrut") or {}):
                    scans = True
                if x["e"] == "index" and mentions(x["a"]) and not any(y["e"] == "path" and y.get("hid") in idx_derived for y in hirq.walk(x["i"])):
                    scans = True
            if not scans:
                continue
            n += 1
            # a reversal of the list under a test of the direction
            handled = False
            for x in hirq.walk(root):
                if x["e"] != "if" or not any(y["e"] == "path" and y.get("hid") in fw for y in hirq.walk(x["cond"])):
                    continue
                for y in hirq.walk(x):
                    if y["e"] == "mcall" and y["name"] in ("reverse", "rev") and mentions(y["recv"]):
                        handled = True
            exc = ENV5_EXCEPTIONS.get((b.path, nm))
            short = b.path.rsplit("::", 1)[-1]
            ok = handled or exc is not None
            r.inst("%s scans its list `%s` itself: %s" % (short, nm, "reversed when !forwards" if handled else ("exception: " + exc if exc else "never reversed")), fn_loc(b), "ok" if ok else "report")
            if exc and not handled:
                r.exceptions.append("ENV-5 %s(%s): %s" % (short, nm, exc))
            if not ok:
                r.report("ENV-5|%s|%s" % (short, nm), fn_loc(b), b.path,
                         "%s receives the matching direction and walks the nested element list `%s` front to back in both directions: in a before-context (matched right to left over the reversed word) the elements are tried in the wrong order -- `a > e / #(pt)_` fires on `tpa`, not on `pta`" % (short, nm))
    if n < 2:
        raise AnchorMissing("ENV-5: %d direction-taking matchers scan a nested list (expected >= 2: structure, optional)" % n)
    r.analysed = {"nested_list_scanners": n}
    return r


# ---------------------------------------------------------------- PAN-12: the scan cursor is tested before a segment is read through it

SEGPOS = "asca::word::SegPos"


def _pos_params(b):
    return [i + 1 for i, ty in enumerate(b.param_tys or []) if ty.replace("&mut ", "").replace("&", "").strip() == SEGPOS]


def _derives_from_param(b, l, params, depth=0):
    """the parameter local a value is a copy / reborrow / deref of (or None)"""
    from engine_flw2 import _single_def
    if l in params:
        return l
    if depth > 8:
        return None
    d = _single_def(b, l)
    if d is None:
        return None
    if d.get("k") == "use" and d["op"].get("k") in ("copy", "move"):
        return _derives_from_param(b, d["op"]["pl"]["l"], params, depth + 1)
    if d.get("k") == "ref":
        return _derives_from_param(b, d["pl"]["l"], params, depth + 1)
    return None


def _unwrapped_next(b, t):
    nxt = t.get("t")
    nt = b.blocks[nxt]["t"] if nxt is not None else {}
    return nt.get("k") == "call" and (nt["callee"].get("def") or "") in ("core::option::Option::unwrap", "core::option::Option::expect") \
        and nt["args"][0].get("pl", {}).get("l") == t["dest"]["l"]


def pan12(ctx):
    """The input matchers read the segment under the scan cursor with `word.get_seg_at(pos).unwrap()` (or a callee that
    does). The cursor is advanced after every matched element, so it can stand one past the last segment. A function that
    unwraps without testing `in_bounds(pos)` *requires* an in-bounds cursor of its caller (to a fixed point through calls
    that hand the cursor on); a caller that advances the cursor in a loop must test it on every path from the advance to
    the call. `a...bk > *` on `akb` panicked in input_match_ipa: the ellipsis loop matches item after item without a test."""
    r = RuleResult("PAN-12", "every read of the segment under the scan cursor (`get_seg_at(pos).unwrap()/expect()`, directly or in a callee) is preceded by a bounds test of that cursor: in the function itself, or in every caller on every path from the last advance", floor=4)
    lib = ctx.lib
    bodies = [b for b in lib.bodies if not b.in_test_mod() and b.blocks and b.path.startswith("asca::subrule::SubRule::") and "{closure" not in b.path]
    by_path = {b.path: b for b in bodies}
    CHECKS = ("asca::word::Word::in_bounds", "asca::word::Word::out_of_bounds")

    def check_blocks(b, p, params):
        out = set()
        for i, t in b.calls():
            cp = callee_path(t) or ""
            if cp in CHECKS:
                for a in t["args"]:
                    if a.get("k") in ("copy", "move") and (_derives_from_param(b, a["pl"]["l"], params) == p or (a["pl"]["l"] == p)):
                        out.add(i)
            # `let Some(seg) = word.get_seg_at(pos) else { return .. }` / `match word.get_seg_at(pos)`: the Option is inspected
            if cp == "asca::word::Word::get_seg_at" and len(t["args"]) >= 2 and t["args"][1].get("k") in ("copy", "move") \
                    and _derives_from_param(b, t["args"][1]["pl"]["l"], params) == p and not _unwrapped_next(b, t):
                out.add(i)
        return out

    def restore_blocks(b, root, loop_body):
        """blocks that put the cursor back to a snapshot taken outside the loop: `*pos = back_pos`"""
        out = set()
        for bi, bl in enumerate(b.blocks):
            if bi not in loop_body:
                continue
            for s_ in bl["s"]:
                if s_["k"] == "assign" and s_["lhs"]["l"] == root and (s_["lhs"]["p"] == ["*"] or not s_["lhs"]["p"]) and s_["rv"].get("k") == "use" \
                        and s_["rv"]["op"].get("k") in ("copy", "move") and not s_["rv"]["op"]["pl"]["p"]:
                    src = s_["rv"]["op"]["pl"]["l"]
                    from engine_flw2 import _single_def
                    for _ in range(6):          # `_t = copy back_pos; *pos = move _t`
                        d0 = _single_def(b, src)
                        if d0 is not None and d0.get("k") == "use" and d0["op"].get("k") in ("copy", "move") and not d0["op"]["pl"]["p"] and not b.local_name(src):
                            src = d0["op"]["pl"]["l"]
                        else:
                            break
                    defs = [bj for bj, bl2 in enumerate(b.blocks) for s2 in bl2["s"] if s2["k"] == "assign" and s2["lhs"]["l"] == src and not s2["lhs"]["p"]]
                    if defs and all(bj not in loop_body for bj in defs):
                        out.add(bi)
        return out

    # direct requirements: get_seg_at(word, <pos from param p>) whose Option is unwrapped, with no dominating bounds test
    requires = {}        # path -> {param local: (block, loc, why)}
    n_sites = 0
    for b in bodies:
        params = set(_pos_params(b))
        if not params:
            continue
        cfg = b.cfg
        for i, t in b.calls():
            if (callee_path(t) or "") != "asca::word::Word::get_seg_at" or len(t["args"]) < 2:
                continue
            a = t["args"][1]
            p = _derives_from_param(b, a["pl"]["l"], params) if a.get("k") in ("copy", "move") else None
            if p is None:
                continue
            nxt = t.get("t")
            nt = b.blocks[nxt]["t"] if nxt is not None else {}
            if not (nt.get("k") == "call" and (nt["callee"].get("def") or "") in ("core::option::Option::unwrap", "core::option::Option::expect") and nt["args"][0].get("pl", {}).get("l") == t["dest"]["l"]):
                continue
            n_sites += 1
            guarded = any(cfg.dominates(cb, i) for cb in check_blocks(b, p, params))
            loc = ":".join((t.get("loc") or b.loc).split(":")[:2])
            r.inst("%s: get_seg_at(pos).%s() is %s" % (b.path.rsplit("::", 1)[-1], nt["callee"]["def"].rsplit("::", 1)[-1], "behind a bounds test of the cursor" if guarded else "unguarded: the caller must pass an in-bounds cursor"), loc, "ok")
            if not guarded:
                requires.setdefault(b.path, {})[p] = (i, loc, "reads the segment at the cursor unconditionally")
    # propagate through calls that hand the cursor on
    changed = True
    while changed:
        changed = False
        for b in bodies:
            params = set(_pos_params(b))
            if not params:
                continue
            cfg = b.cfg
            for i, t in b.calls():
                cp = callee_path(t) or ""
                if cp not in requires or cp == b.path:
                    continue
                cb = by_path[cp]
                for k, a in enumerate(t["args"]):
                    if (k + 1) in requires[cp] and a.get("k") in ("copy", "move"):
                        p = _derives_from_param(b, a["pl"]["l"], params)
                        if p is None or p in requires.get(b.path, {}):
                            continue
                        if any(cfg.dominates(cbk, i) for cbk in check_blocks(b, p, params)):
                            continue
                        requires.setdefault(b.path, {})[p] = (i, ":".join((t.get("loc") or b.loc).split(":")[:2]), "hands the cursor to %s" % cp.rsplit("::", 1)[-1])
                        changed = True
    # loops: from an advance of the cursor (SegPos::increment, or a requiring/advancing callee) to a requiring call
    n_loops = 0
    for b in bodies:
        cfg = b.cfg
        params = set(_pos_params(b))
        locals_pos = params | {l for l in range(len(b.locals)) if (b.local_ty(l) or "").replace("&mut ", "").replace("&", "").strip() == SEGPOS and b.local_name(l)}
        if not locals_pos:
            continue
        for h, body in cfg.loops:
            for i, t in b.calls():
                cp = callee_path(t) or ""
                if i not in body or cp not in requires:
                    continue
                for k, a in enumerate(t["args"]):
                    if (k + 1) not in requires[cp] or a.get("k") not in ("copy", "move"):
                        continue
                    root = _derives_from_param(b, a["pl"]["l"], locals_pos)
                    if root is None:
                        continue
                    n_loops += 1
                    checks = check_blocks(b, root, locals_pos) | restore_blocks(b, root, set(body))
                    # advances inside the loop: increment on the same cursor, or any call that takes it mutably (may advance)
                    adv = set()
                    for j, t2 in b.calls():
                        if j not in body:
                            continue
                        c2 = callee_path(t2) or ""
                        takes = any(x.get("k") in ("copy", "move") and _derives_from_param(b, x["pl"]["l"], locals_pos) == root for x in t2["args"])
                        if takes and (c2.endswith("SegPos::increment") or (c2 in by_path and any("&mut " + SEGPOS == (ty or "") for ty in (by_path[c2].param_tys or [])))):
                            adv.add(j)
                    bad = None
                    for j in sorted(adv):
                        nxt = b.blocks[j]["t"].get("t")
                        if nxt is None:
                            continue
                        reach = cfg.reachable_from(nxt, avoid=checks)
                        if i in reach and i not in checks:
                            bad = j
                            break
                    loc = ":".join((t.get("loc") or b.loc).split(":")[:2])
                    short = b.path.rsplit("::", 1)[-1]
                    r.inst("%s: loop call of %s gets a cursor that was bounds-tested since its last advance" % (short, cp.rsplit("::", 1)[-1]), loc, "ok" if bad is None else "report")
                    if bad is not None:
                        bl = ":".join((b.blocks[bad]["t"].get("loc") or b.loc).split(":")[:2])
                        r.report("PAN-12|%s|%s" % (short, cp.rsplit("::", 1)[-1]), loc, b.path,
                                 "%s calls %s in a loop with a cursor that was advanced (%s) and not bounds-tested on the way: %s %s -- when the previous element matched at the last segment the cursor is past the end and the read panics (`a...bk > *` on `akb`)"
                                 % (short, cp.rsplit("::", 1)[-1], bl, cp.rsplit("::", 1)[-1], requires[cp][k + 1][2]))
    r.analysed = {"unwrap_sites": n_sites, "functions_requiring_in_bounds_cursor": len(requires), "loop_call_sites": n_loops}
    if n_sites < 3:
        raise AnchorMissing("PAN-12: %d reads of get_seg_at(cursor).unwrap() found (expected >= 3)" % n_sites)
    return r


# ---------------------------------------------------------------- PAN-13: the unbounded optional makes progress or gives up

def pan13(ctx):
    """`(X,M:)` / `(X,0)` has no upper bound: the lazy extension loop of context_match_option runs `while index < max`
    with max = usize::MAX. The body of an optional may match without consuming anything (`(#,0)`, `($,0)`): then every
    further repetition finds the same state, and the loop spins for 2^64 rounds. Every trip round that loop must pass a
    test that the repetition moved the cursor (a SegPos comparison one of whose outcomes leaves the loop)."""
    from engine_flw2 import _all_defs
    r = RuleResult("PAN-13", "context_match_option: every iteration of the extension loop whose bound may be usize::MAX passes a comparison of the cursor before / after the repetition (a zero-width optional body ends the loop instead of spinning)", floor=1)
    lib = ctx.lib
    b = ctx.fn(lib, "asca::subrule::SubRule::context_match_option")
    cfg = b.cfg
    M = {i for i, t in b.calls() if (callee_path(t) or "") == "asca::subrule::SubRule::match_opt_states"}
    EQ = {i for i, t in b.calls() if (t["callee"].get("def") or "") in ("core::cmp::PartialEq::eq", "core::cmp::PartialEq::ne") and SEGPOS in (t["callee"].get("inst") or "")}
    n = 0
    for h, body in cfg.loops:
        body = set(body)
        if not (M & body):
            continue
        # is the loop bounded by something that may be usize::MAX?
        unbounded = False
        hb = b.blocks[h]
        for s_ in hb["s"]:
            if s_["k"] == "assign" and s_["rv"].get("k") == "binop" and s_["rv"]["op"] in ("Lt", "Le", "Gt", "Ge"):
                for o in (s_["rv"]["a"], s_["rv"]["b"]):
                    if o.get("k") in ("copy", "move") and any(x.startswith("unwrap_or") for x in _all_defs(b, o["pl"]["l"])):
                        unbounded = True
        if not unbounded:
            continue
        n += 1
        # a trip from the head back to the head that avoids every cursor comparison
        succ_in = [x for x in cfg.succ[h] if x in body]
        spins = False
        for s0 in succ_in:
            reach = cfg.reachable_from(s0, avoid=(EQ & body) | (set(range(len(b.blocks))) - body))
            if any(h in cfg.succ[x] for x in reach if x in body) and s0 not in EQ:
                spins = True
        loc = ":".join((hb["t"].get("loc") or b.loc).split(":")[:2])
        r.inst("context_match_option: the extension loop bounded by `unwrap_or(usize::MAX)` compares the cursor before and after each repetition (%d comparison site(s))" % len(EQ & body), loc, "ok" if not spins else "report")
        if spins:
            r.report("PAN-13|context_match_option|no-progress-test", loc, b.path,
                     "the extension loop of an optional without upper bound can go round without testing that the repetition consumed anything: an optional whose body matches at zero width (`a > e / _(#,0)k`, `_($,0)k`, `_(,0)k`) repeats the same state up to usize::MAX times -- the call does not return")
        # the comparison is one of the cursor *before this repetition* with the cursor after it: one operand is a snapshot
        # taken inside the loop, on the way to the repetition (not a position saved before the loop was entered)
        from engine_pan import _single_def

        def resolve(l, hops=0):
            d = _single_def(b, l)
            if d is not None and hops < 5:
                if d.get("k") == "use" and d["op"].get("k") in ("copy", "move") and not d["op"]["pl"]["p"]:
                    return resolve(d["op"]["pl"]["l"], hops + 1)
                if d.get("k") == "ref" and not d["pl"]["p"]:
                    return d["pl"]["l"]
            return l

        def def_block(l):
            out = [bi for bi, bl in enumerate(b.blocks) for s_ in bl["s"] if s_["k"] == "assign" and s_["lhs"]["l"] == l and not s_["lhs"]["p"]]
            return out[0] if len(out) == 1 else None
        outside = set(range(len(b.blocks))) - body
        fresh = False
        for e in EQ & body:
            t = b.blocks[e]["t"]
            for a_ in t["args"]:
                if a_.get("k") not in ("copy", "move"):
                    continue
                db = def_block(resolve(a_["pl"]["l"]))
                if db is not None and db in body and any(m in cfg.reachable_from(db, avoid=outside | {h}) for m in M & body):
                    fresh = True
        r.inst("context_match_option: that comparison uses a snapshot of the cursor taken in the same round, before the repetition", loc, "ok" if fresh or spins else "report")
        if not fresh and not spins:
            r.report("PAN-13|context_match_option|stale-snapshot", loc, b.path,
                     "the progress test of the extension loop compares the cursor with a position saved before the loop, not with the cursor before *this* repetition: an optional whose body consumes once and then matches at zero width (`({t,$},0)`) is not recognised as stuck, and the loop runs up to usize::MAX rounds")
    if n == 0:
        raise AnchorMissing("PAN-13: context_match_option has no loop over match_opt_states bounded by unwrap_or(..)")
    r.analysed = {"unbounded_loops": n}
    return r


# ---------------------------------------------------------------- FLW-8c: a failed environment alternative leaves no bindings

def flw8c(ctx):
    """An environment set `:{ A, B }:` (and a list of exceptions) is tried alternative by alternative. What alternative A
    binds (an alpha, a variable) before it fails must not be seen by B -- B must match as if it stood alone -- nor by the
    output. In match_contexts_and_exceptions every path from a trial of an alternative back to the loop head (= the
    alternative failed) passes a write access to both binding tables (the restore of the snapshot)."""
    from engine_flw2 import _single_def
    r = RuleResult("FLW-8c", "match_contexts_and_exceptions: after an environment alternative (or exception) has failed, both binding tables (alphas, variables) are written (restored) before the next alternative is tried", floor=4)
    lib = ctx.lib
    b = ctx.fn(lib, "asca::subrule::SubRule::match_contexts_and_exceptions")
    cfg = b.cfg
    # a trial of one half of an alternative: match_before_env / match_after_env, or a local helper that wraps one of them
    base_trials = ("asca::subrule::SubRule::match_before_env", "asca::subrule::SubRule::match_after_env")
    wrappers = {p for p, outs in lib.callgraph.items() if p.startswith("asca::subrule::SubRule::") and p != b.path and any(o in base_trials for o in outs)
                and not p.endswith(("::insertion_match_exceptions", "::insertion_match", "::insertion_between", "::insertion_after", "::insertion_before"))}
    trials = {i for i, t in b.calls() if (callee_path(t) or "") in base_trials or (callee_path(t) or "") in wrappers}
    if len(trials) < 2:
        raise AnchorMissing("FLW-8c: match_contexts_and_exceptions: %d trials of an environment alternative (expected >= 2)" % len(trials))

    def cell_of(l, depth=0):
        d = _single_def(b, l)
        if d is None or depth > 4:
            return None
        if d.get("k") == "ref":
            for p in d["pl"]["p"]:
                if isinstance(p, dict) and p.get("n") in ("alphas", "variables"):
                    return p["n"]
            return cell_of(d["pl"]["l"], depth + 1)
        if d.get("k") == "use" and d["op"].get("k") in ("copy", "move"):
            return cell_of(d["op"]["pl"]["l"], depth + 1)
        return None
    W = {"alphas": set(), "variables": set()}
    for i, t in b.calls():
        if (t["callee"].get("def") or "").endswith("RefCell::borrow_mut") or (callee_path(t) or "").endswith("RefCell<T>::borrow_mut"):
            a = t["args"][0]
            c = cell_of(a["pl"]["l"]) if a.get("k") in ("copy", "move") else None
            if c in W:
                W[c].add(i)
    n = 0
    for h, body in cfg.loops:
        body = set(body)
        ts = sorted(trials & body)
        if not ts:
            continue
        kind = "exception" if any("false" in json.dumps(b.blocks[t_]["t"]["args"][-1]) for t_ in ts) else "context"
        for c in ("alphas", "variables"):
            n += 1
            bad = None
            for t_ in ts:
                nxt = b.blocks[t_]["t"].get("t")
                if nxt is None:
                    continue
                reach = cfg.reachable_from(nxt, avoid=(W[c] & body) | (set(range(len(b.blocks))) - body))
                if any(h in cfg.succ[x] for x in reach) or nxt == h:
                    bad = t_
                    break
            loc = ":".join((b.blocks[h]["t"].get("loc") or b.loc).split(":")[:2])
            r.inst("loop over the %s alternatives (%d trials): a failed alternative restores `%s` before the next one" % (kind, len(ts), c), loc, "ok" if bad is None else "report")
            if bad is not None:
                r.report("FLW-8c|%s|%s" % (kind, c), ":".join((b.blocks[bad]["t"].get("loc") or b.loc).split(":")[:2]), b.path,
                         "an alternative of the %s list can fail and the next one be tried without `%s` being restored: what the failed alternative bound is compared against (or reaches the output) -- `a > [αhigh] / :{ _[αhigh]k, [αhigh]_ }:` leaves `iaot` unchanged although its second alternative alone rewrites it" % (kind, c))
    if n < 4:
        raise AnchorMissing("FLW-8c: %d (loop, table) pairs examined (expected 4)" % n)
    return r


# ---------------------------------------------------------------- FLW-14: a romaniser strips the tone of the syllable it matched, and only then

def flw14(ctx):
    """A romaniser input such as `a:[tone:51]` consumes the tone of the syllable in which it matches: Word::render then
    leaves that syllable's tone digits out. The flag that suppresses the digits (a) belongs to one syllable -- it is
    declared (or reset) inside the per-syllable loop -- and (b) is set only where the alias as a whole has matched (the
    branch that writes the replacement), not while its terms are still being compared."""
    r = RuleResult("FLW-14", "Word::render: the flag that suppresses a syllable's tone digits is per syllable (declared or reset inside the loop over the syllables) and is set only in the branch where the alias has matched as a whole (where its replacement is written)", floor=2)
    lib = ctx.lib
    b = ctx.fn(lib, "asca::word::Word::render")
    root = hirq.inline_helpers(lib, b, prefixes=("asca::word::Word::",), max_depth=1,
                               only_if=lambda cb: not cb.is_pub and any(x["e"] == "assign" for x in hirq.walk(cb.hir["body"])) and "alias_match" not in cb.path)
    par = hirq.parent_map(root)
    # the tone output and its guard
    flags = {}
    for x in hirq.walk(root):
        if x["e"] != "if":
            continue
        pushes_tone = any(y["e"] == "mcall" and y["name"] in ("push_str", "push") and any(z["e"] == "field" and z.get("name") == "tone" for z in hirq.walk(y)) for y in hirq.walk(x["then"]))
        if not pushes_tone:
            continue
        for c in _conj(x["cond"]):
            c0 = hirq.strip(c)
            if c0.get("e") == "unary" and c0.get("op") == "Not":
                p0 = hirq.strip(c0["a"])
                if p0.get("e") == "path" and "hid" in p0 and p0.get("ty") == "bool":
                    flags[p0["hid"]] = (p0.get("local"), x)
    if not flags:
        raise AnchorMissing("FLW-14: Word::render: no `if !<flag> && syll.tone != 0 { push the tone }` found")
    # the per-syllable loop: the for loop whose iterator mentions `self.syllables`
    loops = [x for x in hirq.walk(root) if x["e"] == "match" and "ForLoop" in str(x.get("src")) and any(z["e"] == "field" and z.get("name") == "syllables" for z in hirq.walk(x.get("scrut") or {}))]
    if not loops:
        raise AnchorMissing("FLW-14: Word::render: loop over self.syllables not found")
    syl_loop = max(loops, key=lambda l: sum(1 for _ in hirq.walk(l)))
    in_loop = {id(y) for y in hirq.walk(syl_loop)}
    for hid, (name, guard_if) in sorted(flags.items(), key=lambda kv: str(kv[0])):
        lets = [x for x in hirq.walk(root) if x["e"] == "let" and any(q.get("hid") == hid for q in hirq.walk_pats(x["pat"]) if q.get("p") == "bind")]
        resets = [x for x in hirq.walk(syl_loop) if x["e"] == "assign" and hirq.path_hid(x["lhs"]) == hid and hirq.strip(x["rhs"]).get("lit") is False]
        per_syll = any(id(l) in in_loop for l in lets) or bool(resets)
        r.inst("render: tone-suppressing flag `%s` is per syllable" % name, fn_loc(b, (lets[0] if lets else guard_if).get("ln")), "ok" if per_syll else "report")
        if not per_syll:
            r.report("FLW-14|%s|carried-across-syllables" % name, fn_loc(b, (lets[0] if lets else guard_if).get("ln")), b.path,
                     "`%s` is declared outside the loop over the syllables and never reset: once a romaniser has matched a tone, the tone digits of every later syllable of the word are dropped too (`a:[tone:51] > x` prints `ka51.ta3` as `kx.ta`)" % name)
        # sets: through intermediate locals (`matched_tone`) the value must be committed only in the replacement branch
        sets = [x for x in hirq.walk(root) if x["e"] == "assign" and hirq.path_hid(x["lhs"]) == hid and hirq.strip(x["rhs"]).get("lit") is not False]
        bad = []
        for st in sets:
            ok = False
            x, child = par.get(id(st)), st
            while x is not None:
                if x.get("e") == "if" and hirq.strip(x["cond"]).get("e") != "letcond" and any(y is child for y in hirq.walk(x["then"])):
                    writes_repl = any(pt.get("p") == "ts" and pt.get("path") == REPL for pt in hirq.walk_pats(x["then"]))
                    if writes_repl:
                        ok = True
                        break
                if x.get("e") == "loop" or (x.get("e") == "match" and "ForLoop" in str(x.get("src"))):
                    break               # still inside the loop that compares the alias's terms
                child = x
                x = par.get(id(x))
            if not ok:
                bad.append(st)
        r.inst("render: `%s` is set only in the branch that writes the matched alias's replacement (%d assignment(s))" % (name, len(sets)), fn_loc(b, sets[0].get("ln")) if sets else fn_loc(b), "ok" if sets and not bad else "report")
        if bad or not sets:
            r.report("FLW-14|%s|set-before-full-match" % name, fn_loc(b, (bad[0] if bad else guard_if).get("ln")), b.path,
                     "`%s` is set while the terms of a romaniser are still being compared: an alias that matches a tone and then fails on a later term still drops the syllable's tone (`ha:[tone:51]x > Q` prints `han51` as `han`)" % name)
    return r


# ---------------------------------------------------------------- ENV-6: an element inside a set matches like the element alone

PE = "asca::parser::ParseElement::"


def env6(ctx):
    """`_{$,t}` must hold wherever `_$` or `_t` holds: SubRule::context_match_set dispatches on the kind of each
    alternative with its own copy of the arms of SubRule::context_match. For every kind the set handles, the copy does
    what the original does outside an insertion (`ins_match_before == false`): same test, same matcher, same arguments."""
    from engine_pol import Canon
    r = RuleResult("ENV-6", "every element kind that context_match_set handles is matched by the same code as in context_match (outside the insertion special case): same boundary test, same matcher call, same arguments", floor=5)
    lib = ctx.lib
    top = ctx.fn(lib, "asca::subrule::SubRule::context_match")
    st = ctx.fn(lib, "asca::subrule::SubRule::context_match_set")

    def canon_leaf(e):
        c = Canon()
        return json.dumps(c.expr(e), sort_keys=True, default=str)

    def arms_of(fb):
        ms = [m for m in hirq.matches(fb) if (m.get("sty") or "").lstrip("&").endswith("asca::parser::ParseElement")]
        if not ms:
            raise AnchorMissing("ENV-6: %s: match on the element kind not found" % fb.path)
        m = max(ms, key=lambda x: len(x["arms"]))
        out = {}
        for arm in m["arms"]:
            for p in hirq.flat_pats(arm["pat"]):
                v = (p.get("path") or "")
                if v.startswith(PE):
                    out[v[len(PE):]] = arm
        return out, m

    ins_hid = None
    for p in top.hir.get("params") or []:
        for q in hirq.walk_pats(p):
            if q.get("p") == "bind" and q.get("name") == "ins_match_before":
                ins_hid = q.get("hid")

    def known(c):
        """value of a condition when ins_match_before == false: True / False / None (unknown)"""
        c = hirq.strip(c)
        if c.get("e") == "path" and c.get("hid") == ins_hid and ins_hid is not None:
            return False
        if c.get("e") == "unary" and c.get("op") == "Not":
            v = known(c["a"])
            return None if v is None else (not v)
        if c.get("e") == "binary" and c.get("op") in ("And", "Or"):
            a_, b2 = known(c["a"]), known(c["b"])
            if c["op"] == "And":
                return False if (a_ is False or b2 is False) else (True if (a_ is True and b2 is True) else None)
            return True if (a_ is True or b2 is True) else (False if (a_ is False and b2 is False) else None)
        return None

    def specialise(e):
        """the arm body outside an insertion: `if ins_match_before [&& ..] { A } else { B }` -> B"""
        e = hirq.strip(e)
        if isinstance(e, dict) and e.get("e") == "if":
            v = known(e["cond"])
            if v is False and e.get("else") is not None:
                return specialise(e["else"])
            if v is True:
                return specialise(e["then"])
        return e

    ta, _ = arms_of(top)
    sa, sm = arms_of(st)
    n = 0
    for kind, arm in sorted(sa.items()):
        if hirq.arm_is_pure_panic(arm["body"]) or kind not in ta:
            continue
        n += 1
        a = canon_leaf(specialise(ta[kind]["body"]))
        b_ = canon_leaf(specialise(arm["body"]))
        ok = a == b_
        r.inst("set alternative of kind %s is matched like a lone %s" % (kind, kind), fn_loc(st, arm.get("ln") or sm.get("ln")), "ok" if ok else "report")
        if not ok:
            r.report("ENV-6|context_match_set|%s" % kind, fn_loc(st, arm.get("ln") or sm.get("ln")), st.path,
                     "inside a set, an element of kind %s is matched by different code than the same element standing alone in the environment: `_{%s,x}` does not hold everywhere `_%s` holds" % (kind, "$" if kind == "SyllBound" else kind, "$" if kind == "SyllBound" else kind))
    if n < 5:
        raise AnchorMissing("ENV-6: %d element kinds compared between context_match_set and context_match (expected >= 5)" % n)
    return r


# ---------------------------------------------------------------- SHR-5: a modifier overlay lets the overlaid value win, slot by slot

MODIFIERS_T = "asca::parser::Modifiers"
SUPR_SLOTS = ("suprs.stress[0]", "suprs.stress[1]", "suprs.length[0]", "suprs.length[1]", "suprs.tone")


class _Overlay:
    """tiny symbolic evaluator: every slot of the base (B) and of the overlay (O) is None or a tagged value"""

    class Cont(Exception):
        pass

    def __init__(self, fn, B, O, scen):
        self.fn, self.B, self.O = fn, B, O          # HirIds of the two Modifiers locals
        self.mem = dict(scen)                        # ("B"|"O", slot) -> None | tag
        self.env = {}                                # loop locals: hid -> ("val", v) | ("ref", key) | ("idx",)

    def key_of(self, e):
        """(owner, slot) for a place expression `chr.suprs.stress[0]`, `params.nodes[i]`, `*j`"""
        e = hirq.strip(e)
        parts = []
        while isinstance(e, dict):
            k = e.get("e")
            if k == "unary" and e.get("op") == "Deref":
                e = hirq.strip(e["a"])
            elif k == "index":
                i = hirq.strip(e["i"])
                parts.append("[%s]" % (i["lit"] if i.get("e") == "lit" else "*"))
                e = hirq.strip(e["a"])
            elif k == "field":
                parts.append("." + e["name"])
                e = hirq.strip(e["a"])
            else:
                break
        if not (isinstance(e, dict) and e.get("e") == "path" and "hid" in e):
            return None
        slot = "".join(reversed(parts)).lstrip(".")
        if e["hid"] == self.B:
            return ("B", slot)
        if e["hid"] == self.O:
            return ("O", slot)
        b = self.env.get(e["hid"])
        if b and b[0] == "ref" and not parts:
            return b[1]
        return None

    def read(self, key):
        owner, slot = key
        if slot in ("suprs",):
            return ("whole", owner)
        if slot in ("suprs.stress", "suprs.length"):
            return ("pair", owner, slot)
        return self.mem.get((owner, slot))

    def value(self, e):
        e = hirq.strip(e)
        k = e.get("e")
        if k == "path" and e.get("hid") in self.env and self.env[e["hid"]][0] == "val":
            return self.env[e["hid"]][1]
        if k == "path" and (e.get("path") or "").endswith("Option::None"):
            return None
        if k == "unary" and e.get("op") == "Deref":
            inner = hirq.strip(e["a"])
            if inner.get("e") == "path" and inner.get("hid") in self.env and self.env[inner["hid"]][0] == "val":
                return self.env[inner["hid"]][1]
        key = self.key_of(e)
        if key is not None:
            return self.read(key)
        if k == "if":
            return self.value(e["then"]) if self.cond(e["cond"]) else self.value(e["else"])
        if k == "mcall" and e["name"] in ("or",) and len(e["args"]) == 1:
            a = self.value(e["recv"])
            return a if a is not None else self.value(e["args"][0])
        if k == "mcall" and e["name"] in ("clone", "copied", "cloned") and not e["args"]:
            return self.value(e["recv"])
        if k == "block" and e.get("tail") is not None and not e.get("stmts"):
            return self.value(e["tail"])
        raise AnchorMissing("%s: overlay value of `%s` (line %s) not understood" % (self.fn, k if k != "mcall" else "." + e["name"] + "()", e.get("ln")))

    def cond(self, c):
        c = hirq.strip(c)
        if c.get("e") == "unary" and c.get("op") == "Not":
            return not self.cond(c["a"])
        if c.get("e") == "binary" and c.get("op") in ("And", "Or"):
            a, b = self.cond(c["a"]), self.cond(c["b"])
            return (a and b) if c["op"] == "And" else (a or b)
        if c.get("e") == "mcall" and c["name"] in ("is_none", "is_some") and not c["args"]:
            v = self.value(c["recv"])
            if isinstance(v, tuple) and v and v[0] in ("whole", "pair"):
                raise AnchorMissing("%s: presence test of a whole group of slots (line %s)" % (self.fn, c.get("ln")))
            return (v is None) == (c["name"] == "is_none")
        raise AnchorMissing("%s: overlay condition (line %s) not understood" % (self.fn, c.get("ln")))

    def assign(self, lhs, rhs):
        key = self.key_of(lhs)
        if key is None or key[0] != "B":
            return
        v = self.value(rhs)
        owner, slot = key
        if isinstance(v, tuple) and v and v[0] == "whole":
            for s_ in SUPR_SLOTS:
                self.mem[("B", s_)] = self.mem.get((v[1], s_))
        elif isinstance(v, tuple) and v and v[0] == "pair":
            for i in (0, 1):
                self.mem[("B", "%s[%d]" % (slot, i))] = self.mem.get((v[1], "%s[%d]" % (v[2], i)))
        else:
            self.mem[("B", slot)] = v

    def run(self, e):
        e = hirq.strip(e) if isinstance(e, dict) and e.get("e") == "block" and not e.get("stmts") else e
        if not isinstance(e, dict):
            return
        k = e.get("e")
        if k == "block":
            for s_ in e.get("stmts", []):
                self.run(s_)
            if e.get("tail") is not None:
                self.run(e["tail"])
        elif k == "semi":
            self.run(e["a"])
        elif k == "assign":
            self.assign(e["lhs"], e["rhs"])
        elif k == "if":
            if self.cond(e["cond"]):
                self.run(e["then"])
            elif e.get("else") is not None:
                self.run(e["else"])
        elif k == "continue":
            raise _Overlay.Cont()
        elif k == "match" and "ForLoop" in str(e.get("src")):
            self.loop(e)
        elif k in ("let", "call", "mcall", "path", "lit", "tup", "struct", "ret", "addr", "unary"):
            return
        elif k in ("loop", "match"):
            if any(self.key_of(y.get("lhs")) and self.key_of(y["lhs"])[0] == "B" for y in hirq.walk(e) if y["e"] == "assign"):
                raise AnchorMissing("%s: statement `%s` at line %s writes the base modifiers in a way the overlay reader does not follow" % (self.fn, k, e.get("ln")))

    def loop(self, e):
        """`for (i, p) in O.F.iter().enumerate()` / `for (j, n) in B.F.iter_mut().zip(O.F.iter())`: one symbolic element"""
        from engine_flw import for_loops
        ls = for_loops(e)
        if not ls:
            raise AnchorMissing("%s: for loop at line %s not understood" % (self.fn, e.get("ln")))
        pat, it, body, ln = ls[0]

        def elem(x):
            """(owner, field) whose elements an iterator expression yields, and whether mutably"""
            x = hirq.strip(x)
            names = []
            while isinstance(x, dict) and x.get("e") == "mcall":
                names.append(x["name"])
                if x["name"] == "zip":
                    return ("zip", elem(x["recv"]), elem(x["args"][0]))
                x = hirq.strip(x["recv"])
            key = self.key_of(x)
            if key is None:
                return None
            return ("it", key, "enumerate" in names, "iter_mut" in names)
        src = elem(it)
        if src is None:
            return                  # a loop over something else
        subs = pat.get("pats") if pat.get("p") == "tup" else [pat]

        def bind(p, what):
            p0 = p
            while p0.get("p") == "ref":
                p0 = p0["sub"]
            if p0.get("p") == "bind" and "hid" in p0:
                self.env[p0["hid"]] = what
        if src[0] == "it":
            _, key, enum, mut = src
            ekey = (key[0], key[1] + "[*]")
            targets = [("idx",)] if enum else []
            targets.append(("ref", ekey) if mut else ("val", self.read(ekey)))
            if enum and len(subs) == 2:
                bind(subs[0], ("idx",))
                bind(subs[1], targets[-1])
            elif not enum:
                bind(subs[0] if len(subs) == 1 else pat, targets[-1])
        elif src[0] == "zip" and len(subs) == 2 and src[1] and src[2]:
            for p, sx in zip(subs, (src[1], src[2])):
                ekey = (sx[1][0], sx[1][1] + "[*]")
                bind(p, ("ref", ekey) if sx[3] else ("val", self.read(ekey)))
        else:
            raise AnchorMissing("%s: iterator of the loop at line %s not understood" % (self.fn, ln))
        try:
            self.run(body)
        except _Overlay.Cont:
            pass


OVERLAY_SITES = [
    # (function, base local, overlay local, which supr behaviour is required)
    ("asca::parser::Parser::join_group_with_params", "chr", "params", "slotwise"),
    ("asca::alias::parser::AliasParser::join_group_with_params", "chr", "params", "slotwise"),
    ("asca::subrule::SubRule::match_ipa_with_modifiers", "joined_mods", "mods", "copy"),
    ("asca::word::Word::alias_match_ipa_with_mods", "joined_mods", "mods", "copy"),
]


def shr5(ctx):
    """`V:[+hi]`, `a:[+nasal]`: a matrix of modifiers is laid over a base (the group's matrix, the segment's own bundle).
    Slot by slot -- each node, each feature, stress, sec.stress, long, overlong, tone -- the overlaid value wins where it
    is given and the base value stays where it is not. Evaluated symbolically for every presence combination."""
    import itertools
    r = RuleResult("SHR-5", "modifier overlays (group:[params], ipa:[mods]) are slot-wise: for every node / feature / suprasegmental slot the result is the overlaid value if present, else the base value", floor=140)
    lib = ctx.lib
    for path, bname, oname, supr_mode in OVERLAY_SITES:
        fb = ctx.fn(lib, path)
        hids = {}
        for n in hirq.walk(fb.hir["body"]):
            if n["e"] == "let":
                for q in hirq.walk_pats(n["pat"]):
                    if q.get("p") == "bind" and "hid" in q:
                        hids.setdefault(q["name"], q["hid"])
        for p in fb.hir.get("params") or []:
            for q in hirq.walk_pats(p):
                if q.get("p") == "bind" and "hid" in q:
                    hids.setdefault(q["name"], q["hid"])
        # roles by type and use: the base is the Modifiers local that is assigned into
        mods_locals = {}
        for n in hirq.walk(fb.hir["body"]):
            if n["e"] == "path" and "hid" in n and (n.get("ty") or "").lstrip("&").replace("mut ", "") == MODIFIERS_T:
                mods_locals[n["hid"]] = n.get("local")
        written = {hirq.path_hid(_root_of(a["lhs"])) for a in hirq.walk(fb.hir["body"]) if a["e"] == "assign"}
        bases = [h for h in mods_locals if h in written]
        overs = [h for h in mods_locals if h not in written]
        if len(bases) != 1 or len(overs) != 1:
            raise AnchorMissing("SHR-5: %s: base / overlay Modifiers locals not identified (%s written, %s read-only)" % (path, [mods_locals[h] for h in bases], [mods_locals[h] for h in overs]))
        B, O = bases[0], overs[0]
        short = path.rsplit("::", 2)[-2] + "::" + path.rsplit("::", 1)[-1]
        # arrays: one symbolic element, four presence combinations
        for arr in ("nodes", "feats"):
            for bv, ov in itertools.product((None, "base"), (None, "over")):
                ev = _Overlay(path, B, O, {("B", arr + "[*]"): bv, ("O", arr + "[*]"): ov})
                ev.run(fb.hir["body"])
                got = ev.mem.get(("B", arr + "[*]"))
                want = ov if ov is not None else bv
                ok = got == want
                r.inst("%s: %s element with base=%s overlay=%s -> %s" % (short, arr, bv, ov, got), fn_loc(fb), "ok" if ok else "report")
                if not ok:
                    r.report("SHR-5|%s|%s|base=%s|over=%s" % (short, arr, bv, ov), fn_loc(fb), path,
                             "for a %s slot where the base has %s and the overlaid matrix has %s the result is %s (expected %s): %s" % (
                                 arr[:-1], bv or "nothing", ov or "nothing", got or "nothing", want or "nothing",
                                 "the base value wins over the explicitly given one (`S:[+syll]` stays -syll)" if (bv and ov and got == bv) else "a given modifier is dropped or a base value is lost"))
        # suprasegmentals: all 32 presence combinations of the overlay (the bases carry none)
        n_bad = 0
        for combo in itertools.product((None, "over"), repeat=len(SUPR_SLOTS)):
            scen = {("O", s_): v for s_, v in zip(SUPR_SLOTS, combo)}
            scen.update({("B", s_): None for s_ in SUPR_SLOTS})
            ev = _Overlay(path, B, O, scen)
            ev.run(fb.hir["body"])
            bad = [s_ for s_, v in zip(SUPR_SLOTS, combo) if ev.mem.get(("B", s_)) != v]
            given = [s_.replace("suprs.", "") for s_, v in zip(SUPR_SLOTS, combo) if v]
            r.inst("%s: suprasegmentals given {%s} arrive as given" % (short, ", ".join(given) or "none"), fn_loc(fb), "ok" if not bad else "report", nontrivial=bool(given))
            if bad and n_bad < 3:
                n_bad += 1
                r.report("SHR-5|%s|suprs|%s" % (short, "+".join(given) or "none"), fn_loc(fb), path,
                         "when the overlaid matrix gives {%s}, the slot(s) %s of the result differ from what was given: `V:[+sec.stress]` / `V:[+overlong]` lose the modifier unless its partner is given too"
                         % (", ".join(given) or "nothing", ", ".join(x.replace("suprs.", "") for x in bad)))
    return r


def _root_of(e):
    e = hirq.strip(e)
    while isinstance(e, dict) and e.get("e") in ("field", "index", "unary"):
        e = hirq.strip(e["a"])
    return e


# ---------------------------------------------------------------- ERR-6: token columns are cursor values

def _cursor_derived(e, binds, depth=0):
    """the expression is the lexer cursor `self.pos`, that plus/minus a literal, or a local initialised with such a value"""
    e = hirq.strip(e)
    if not isinstance(e, dict) or depth > 8:
        return False
    k = e.get("e")
    if k == "field" and e.get("name") == "pos" and hirq.strip(e["a"]).get("local") == "self":
        return True
    if k == "binary" and e.get("op") in ("Add", "Sub"):
        a, b = hirq.strip(e["a"]), hirq.strip(e["b"])
        if b.get("e") == "lit" and isinstance(b.get("lit"), int):
            return _cursor_derived(a, binds, depth + 1)
        if a.get("e") == "lit" and isinstance(a.get("lit"), int) and e["op"] == "Add":
            return _cursor_derived(b, binds, depth + 1)
        return False
    if k == "path" and "hid" in e:
        s = binds.src.get(e["hid"])
        if s and s[0] == "expr":
            return _cursor_derived(s[1], binds, depth + 1)
        return False
    return False


ERR6_EXCEPTIONS = {
    ("asca::lexer::Lexer::string_match", "Position", "end"):
        "`start + buffer.len()`: the buffer is what get_string chopped with `is_ascii_alphabetic`, one byte per character",
    ("asca::alias::lexer::AliasLexer::string_match", "AliasPosition", "end"):
        "`start + buffer.len()`: the buffer is what get_string chopped with `is_ascii_alphabetic`, one byte per character",
}


def err6(ctx):
    """The carets of a syntax error are drawn from token columns. A column is a *character* index into the line: in both
    lexers the start / end handed to Token::new, Position::new and AliasPosition::new are the cursor `self.pos` (read
    before and after the token was consumed), never something computed from string lengths (bytes)."""
    r = RuleResult("ERR-6", "in the lexers every token span (start, end) is a value of the cursor `self.pos` (possibly +/- a literal, possibly through a local), never a computed length", floor=40)
    lib = ctx.lib
    CT = {"asca::lexer::Token::new": (4, 5), "asca::lexer::Position::new": (2, 3), "asca::alias::AliasPosition::new": (2, 3)}
    n = 0
    for b in lib.bodies:
        if b.in_test_mod() or not b.hir or b.kind == "closure" or not b.path.startswith(("asca::lexer::Lexer", "asca::alias::lexer::AliasLexer")):
            continue
        binds = None
        k = 0
        for x in hirq.walk(b.hir["body"]):
            if x["e"] != "call":
                continue
            p = hirq.strip(x["f"]).get("path") or ""
            if p not in CT or len(x["args"]) <= CT[p][1]:
                continue
            binds = binds or Bindings(b.hir["body"], b.hir.get("params"))
            for which, idx in zip(("start", "end"), CT[p]):
                n += 1
                ok = _cursor_derived(x["args"][idx], binds)
                a0 = hirq.strip(x["args"][idx])
                if not ok and a0.get("e") == "path" and binds.src.get(a0.get("hid"), (None,))[0] == "param":
                    # a helper that is handed the span: every caller must hand it cursor values
                    pname = binds.src[a0["hid"]][1]
                    pi = (b.param_names or []).index(pname) if pname in (b.param_names or []) else None
                    sites = []
                    for cb in lib.bodies:
                        if cb.in_test_mod() or not cb.hir or cb.kind == "closure":
                            continue
                        cbinds = None
                        for y in hirq.walk(cb.hir["body"]):
                            if y["e"] == "mcall" and y.get("def") == b.path and pi is not None:
                                cbinds = cbinds or Bindings(cb.hir["body"], cb.hir.get("params"))
                                args = [y["recv"]] + list(y["args"])
                                sites.append(_cursor_derived(args[pi], cbinds) if pi < len(args) else False)
                    ok = bool(sites) and all(sites)
                loc = fn_loc(b, x.get("ln"))
                exc = ERR6_EXCEPTIONS.get((b.path, p.rsplit("::", 2)[-2], which))
                if not ok and exc and k == 0:
                    r.exceptions.append("ERR-6 %s %s: %s" % (b.path, which, exc))
                    r.inst("%s: %s #%d: `%s` — exception: %s" % (b.path.rsplit("::", 1)[-1], p.rsplit("::", 2)[-2] + "::new", k, which, exc), loc, "ok", nontrivial=False)
                    continue
                r.inst("%s: %s #%d: `%s` is a cursor value" % (b.path.rsplit("::", 1)[-1], p.rsplit("::", 2)[-2] + "::new", k, which), loc, "ok" if ok else "report")
                if not ok:
                    r.report("ERR-6|%s|%s#%d|%s" % (b.path, p.rsplit("::", 2)[-2], k, which), loc, b.path,
                             "the %s column of a token is not read from the lexer cursor `self.pos` but computed: columns are character indices, a length in bytes (`value.len()`) is too large for `∅`, `…`, `⋯` and every other non-ASCII token, and the formatter's caret arithmetic overflows the line" % which)
            k += 1
    if n < 40:
        raise AnchorMissing("ERR-6: %d span arguments examined in the two lexers (expected >= 40)" % n)
    r.analysed = {"span_arguments": n}
    return r


# ---------------------------------------------------------------- TAB-8: alpha and binary modifiers land in the same slot

def tab8(ctx):
    """`[αsec.stress]` and `[+sec.stress]` are the same modifier with different values: in get_param_args (rule parser and
    alias parser) the Alpha branch and the Binary branch of the suprasegmental arm assign the same slot for every
    SupraType, and the four kinds go to four different slots."""
    r = RuleResult("TAB-8", "get_param_args: for every SupraType the alpha-valued and the binary-valued modifier are stored in the same SupraSegs slot, and Long/Overlong/Stress/SecStress go to length[0]/length[1]/stress[0]/stress[1]", floor=8)
    lib = ctx.lib
    WANT = {"Long": "length[0]", "Overlong": "length[1]", "Stress": "stress[0]", "SecStress": "stress[1]"}
    n = 0
    for path in ("asca::parser::Parser::get_param_args", "asca::alias::parser::AliasParser::get_param_args"):
        b = ctx.fn(lib, path)
        tables = {}
        for m in hirq.matches(b):
            if not (m.get("sty") or "").lstrip("&").endswith("SupraType"):
                continue
            # which value kind does this match sit under: the nearest enclosing arm with a Mods::<X> pattern
            par = hirq.parent_map(b.hir["body"])
            kind = None
            for mm in hirq.matches(b):
                for arm in mm["arms"]:
                    if any(y is m for y in hirq.walk(arm["body"])):
                        for p in hirq.flat_pats(arm["pat"]):
                            if (p.get("path") or "").rsplit("::", 2)[-2:-1] == ["Mods"]:
                                kind = p["path"].rsplit("::", 1)[-1]
            if kind is None:
                continue
            tab = {}
            for arm in m["arms"]:
                for p in hirq.flat_pats(arm["pat"]):
                    v = (p.get("path") or "").rsplit("::", 1)[-1]
                    if v in WANT:
                        slots = []
                        for a in hirq.walk(arm["body"]):
                            if a["e"] == "assign":
                                l = hirq.strip(a["lhs"])
                                if l.get("e") == "index" and hirq.strip(l["a"]).get("e") == "field" and hirq.strip(l["i"]).get("e") == "lit":
                                    slots.append("%s[%s]" % (hirq.strip(l["a"])["name"], hirq.strip(l["i"])["lit"]))
                        tab[v] = (slots, arm.get("ln"))
            tables[kind] = tab
        if not tables:
            raise AnchorMissing("TAB-8: %s: no match on SupraType under a Mods arm" % path)
        short = path.rsplit("::", 2)[-2]
        for kind, tab in sorted(tables.items()):
            for v, want in WANT.items():
                if v not in tab:
                    continue
                n += 1
                slots, ln = tab[v]
                ok = slots == [want]
                r.inst("%s: %s-valued %s is stored in %s" % (short, kind.lower(), v, slots), fn_loc(b, ln), "ok" if ok else "report")
                if not ok:
                    r.report("TAB-8|%s|%s|%s" % (short, kind, v), fn_loc(b, ln), path,
                             "a %s-valued [%s] modifier is stored in %s instead of %s: `[%s%s]` is read as another modifier (a stress modifier lengthens, a length modifier stresses)"
                             % (kind.lower(), v, slots or "no slot", want, "α" if kind == "Alpha" else "+", {"Long": "long", "Overlong": "overlong", "Stress": "stress", "SecStress": "sec.stress"}[v]))
    if n < 8:
        raise AnchorMissing("TAB-8: %d (value kind, SupraType) rows read (expected >= 8)" % n)
    return r


# ---------------------------------------------------------------- CLI-8: `asca seq` runs every tag it iterates over

def cli8(ctx):
    """Without `-t`, `asca seq` runs every tag of the config in turn: every trip round the loop over the config entries
    passes handle_sequence (or leaves the function with an error). A `continue` in front of it -- e.g. for a tag that an
    earlier tag already pulled into the cache as its `%` parent -- means that tag's output is never printed or written."""
    r = RuleResult("CLI-8", "cli::seq::run: every iteration of the loop over the config entries passes handle_sequence (no tag is skipped)", floor=1)
    bn = ctx.bin
    b = ctx.fn(bn, "asca_bin::cli::seq::run")
    cfg = b.cfg
    H = {i for i, t in b.calls() if (callee_path(t) or "") == "asca_bin::cli::seq::handle_sequence"}
    if not H:
        raise AnchorMissing("CLI-8: seq::run does not call handle_sequence")
    n = 0
    for h, body in cfg.loops:
        t = b.blocks[h]["t"]
        if t["k"] != "call" or not (t["callee"].get("def") or "").endswith("Iterator::next") or "ASCAConfig" not in (t["callee"].get("inst") or ""):
            continue
        n += 1
        body = set(body)
        nxt = t.get("t")
        sw = b.blocks[nxt]["t"] if nxt is not None else {}
        some = dict((v, tg) for v, tg in sw.get("vals", [])).get(1) if sw.get("k") == "switch" else None
        if some is None:
            raise AnchorMissing("CLI-8: seq::run: `Some(seq)` edge of the loop over the config not found")
        reach = cfg.reachable_from(some, avoid=(H & body) | (set(range(len(b.blocks))) - body))
        spins = any(h in cfg.succ[x] for x in reach) and some not in H
        loc = ":".join((t.get("loc") or b.loc).split(":")[:2])
        r.inst("seq::run: the loop over the config entries calls handle_sequence on every iteration", loc, "ok" if not spins else "report")
        if spins:
            r.report("CLI-8|seq::run|tag-skipped", loc, b.path,
                     "an iteration of the loop over the config entries can go on to the next entry without calling handle_sequence: that tag is neither printed nor written (e.g. a tag already in the cache because a tag declared before it names it as its `%` parent)")
    if n == 0:
        raise AnchorMissing("CLI-8: seq::run: loop over the config entries not found")
    return r


# ---------------------------------------------------------------- PUR-6: the applied rules are the parsed rules

def pur6(ctx):
    """Each word is rewritten by *the rule list the user gave*. In the library's entry points the value handed to
    apply_rule_groups / apply_rules_trace is the result of parse_rule_groups and nothing else has been allowed to edit it
    in between (no `&mut` borrow of it, no reassignment): a pass that prunes or reorders rules after looking at the whole
    word list makes the result for one word depend on the other words."""
    from engine_flw2 import _single_def
    r = RuleResult("PUR-6", "in every library entry point the rules given to apply_rule_groups / apply_rules_trace are the unedited result of parse_rule_groups (never borrowed mutably, never reassigned in between)", floor=3)
    lib = ctx.lib
    APPLY = ("asca::apply_rule_groups", "asca::apply_rules_trace")
    n = 0
    for b in lib.bodies:
        if b.in_test_mod() or not b.blocks or b.kind == "closure":
            continue
        applies = [(i, t) for i, t in b.calls() if (callee_path(t) or "") in APPLY]
        if not applies:
            continue
        for i, t in applies:
            n += 1
            a = t["args"][0]
            # &rules -> (deref) -> rules local
            l = a["pl"]["l"] if a.get("k") in ("copy", "move") else None
            root = None
            for _ in range(8):
                if l is None:
                    break
                if b.local_name(l):
                    root = l
                    break
                d = _single_def(b, l)
                if d is None:
                    break
                if d.get("k") == "ref":
                    l = d["pl"]["l"]
                elif d.get("k") == "use" and d["op"].get("k") in ("copy", "move"):
                    l = d["op"]["pl"]["l"]
                elif d.get("k") == "call" and (d["t"]["callee"].get("def") or "").endswith(("Deref::deref", "AsRef::as_ref", "Vec::as_slice")):
                    l = d["t"]["args"][0]["pl"]["l"]
                else:
                    break
            loc = ":".join((t.get("loc") or b.loc).split(":")[:2])
            if root is None:
                if b.is_pub or b.path in ("asca::run",):
                    r.inst("%s: rules handed to %s could not be traced to a local" % (b.path, callee_path(t).rsplit("::", 1)[-1]), loc, "report")
                    r.report("PUR-6|%s|untraced" % b.path, loc, b.path, "the rule list handed to the applier is not a local that holds the parse result")
                continue
            # provenance: every definition of root comes (through `?`) from parse_rule_groups, or root is a parameter
            is_param = 1 <= root <= len(b.param_tys or [])
            muts = []
            for bi, bl in enumerate(b.blocks):
                if bl.get("cleanup"):
                    continue
                for s_ in bl["s"]:
                    if s_["k"] == "assign" and s_["rv"].get("k") == "ref" and s_["rv"].get("mut") and s_["rv"]["pl"]["l"] == root and not s_.get("exp"):
                        muts.append(s_.get("loc"))
            defs = [s_ for bl in b.blocks for s_ in bl["s"] if s_["k"] == "assign" and s_["lhs"]["l"] == root and not s_["lhs"]["p"]]
            from_parse = is_param or any((callee_path(tt) or "") == "asca::parse_rule_groups" for _, tt in b.calls())
            ok = not muts and len(defs) <= 1 and from_parse
            r.inst("%s: `%s` goes from parse_rule_groups to %s untouched" % (b.path, b.local_name(root), callee_path(t).rsplit("::", 1)[-1]), loc, "ok" if ok else "report")
            if not ok:
                r.report("PUR-6|%s|%s" % (b.path, "edited" if muts or len(defs) > 1 else "origin"), ":".join((muts[0] if muts else (t.get("loc") or b.loc)).split(":")[:2]), b.path,
                         "the parsed rule list `%s` is %s before it is applied: the rules a word is rewritten with are no longer the user's list -- and if the edit looks at the words, a word's result depends on the other lines" % (
                             b.local_name(root), "borrowed mutably / reassigned" if muts or len(defs) > 1 else "not the result of parse_rule_groups"))
    if n < 3:
        raise AnchorMissing("PUR-6: %d calls of apply_rule_groups / apply_rules_trace (expected >= 3)" % n)
    return r


# ---------------------------------------------------------------- VAR-3: a syllable variable is bound to the syllable that was matched

def var3(ctx):
    """`%=1`, `<..>=1`: when a matcher binds a syllable variable it clones `word.syllables[i]`. The matchers advance their
    cursor past the syllable once it has matched, so `i` must have been read from the cursor *before* any advance --
    a snapshot such as `cur_syll_index` -- or the next syllable is captured (and past the last one the index panics)."""
    from engine_flw2 import _single_def
    r = RuleResult("VAR-3", "in every matcher that binds a syllable variable, the index of the cloned syllable is read from the cursor before the cursor is advanced on any path", floor=3)
    lib = ctx.lib
    n = 0
    for b in lib.bodies:
        if b.in_test_mod() or not b.blocks or "{closure" in b.path or not b.path.startswith("asca::subrule::SubRule::") or "_match_" not in b.path:
            continue
        params = [i + 1 for i, ty in enumerate(b.param_tys or []) if ty == "&mut " + SEGPOS]
        if not params:
            continue
        p = params[0]
        cfg = b.cfg
        # advances of the cursor: writes through it, calls that take it by &mut
        adv = set()
        for bi, bl in enumerate(b.blocks):
            if bl.get("cleanup"):
                continue
            for s_ in bl["s"]:
                if s_["k"] == "assign" and s_["lhs"]["l"] == p and s_["lhs"]["p"] and s_["lhs"]["p"][0] == "*":
                    adv.add(bi)
            t = bl["t"]
            if t["k"] == "call":
                cp = callee_path(t) or ""
                for k_, a in enumerate(t["args"]):
                    if a.get("k") in ("copy", "move") and _derives_from_param(b, a["pl"]["l"], {p}) == p:
                        cb = lib.body(cp)
                        pty = (cb.param_tys[k_] if cb is not None and k_ < len(cb.param_tys or []) else "")
                        if cp.endswith("SegPos::increment") or pty == "&mut " + SEGPOS:
                            adv.add(bi)
        # bindings: VarKind::Syllable(..) aggregates whose payload is a clone of word.syllables[IDX]
        for bi, bl in enumerate(b.blocks):
            for s_ in bl["s"]:
                if not (s_["k"] == "assign" and s_["rv"].get("k") == "agg" and (s_["rv"].get("adt") or "").endswith("VarKind") and s_["rv"].get("variant") == "Syllable"):
                    continue
                op = s_["rv"]["ops"][0]
                if op.get("k") not in ("copy", "move"):
                    continue
                # clone(&<index result>) -> Index::index(&syllables, IDX)
                l = op["pl"]["l"]
                idx_local, idx_block = None, None
                for _ in range(8):
                    d = _single_def(b, l)
                    if d is None:
                        break
                    if d.get("k") == "call":
                        dt = d["t"]
                        dd = dt["callee"].get("def") or ""
                        if dd.endswith("Clone::clone") or dd.endswith("Deref::deref"):
                            l = dt["args"][0]["pl"]["l"]
                            continue
                        if dd.endswith("Index::index") and len(dt["args"]) == 2 and dt["args"][1].get("k") in ("copy", "move"):
                            idx_local = dt["args"][1]["pl"]["l"]
                        break
                    if d.get("k") == "ref":
                        l = d["pl"]["l"]
                        continue
                    if d.get("k") == "use" and d["op"].get("k") in ("copy", "move"):
                        l = d["op"]["pl"]["l"]
                        continue
                    break
                if idx_local is None:
                    continue        # e.g. a syllable assembled in a local (`syll`): its source index is judged where it is read
                # where is the index read from the cursor?
                reads = []
                stack, seen = [idx_local], set()
                while stack:
                    x = stack.pop()
                    if x in seen:
                        continue
                    seen.add(x)
                    for bj, bl2 in enumerate(b.blocks):
                        for s2 in bl2["s"]:
                            if s2["k"] == "assign" and s2["lhs"]["l"] == x and not s2["lhs"]["p"] and s2["rv"].get("k") == "use":
                                o = s2["rv"]["op"]
                                if o.get("k") in ("copy", "move"):
                                    if o["pl"]["l"] == p and o["pl"]["p"] and o["pl"]["p"][0] == "*":
                                        reads.append(bj)
                                    elif not o["pl"]["p"]:
                                        stack.append(o["pl"]["l"])
                if not reads:
                    continue
                n += 1
                after_adv = set()
                for a_ in adv:
                    for nx in cfg.succ[a_]:
                        after_adv |= cfg.reachable_from(nx)
                late = [bj for bj in reads if bj in after_adv]
                loc = ":".join((s_.get("loc") or b.loc).split(":")[:2])
                short = b.path.rsplit("::", 1)[-1]
                r.inst("%s: the syllable bound to the variable is indexed by a cursor value read before any advance" % short, loc, "ok" if not late else "report")
                if late:
                    r.report("VAR-3|%s|index-read-after-advance" % short, loc, b.path,
                             "%s binds the variable to `word.syllables[..]` at an index read from the cursor after the cursor has been advanced past the matched syllable: the *next* syllable is captured (`<..>=1 > 1` turns `ka.ta` into `ta.ta`), and when the match ends the word the index is out of bounds (`<ka>=1 > *` on `ta.ka` panics)" % short)
    if n < 3:
        raise AnchorMissing("VAR-3: %d syllable-variable bindings indexed from the cursor found (expected >= 3)" % n)
    r.analysed = {"bindings": n}
    return r


# ---------------------------------------------------------------- FLW-15: a structure matches only when every item was consumed

def flw15(ctx):
    """`<t a q>` matches a syllable only if t, a and q are all found in it. The two structure matchers walk the items of
    the structure; the walk may end early because the syllable ran out. A `for` over the items ends by exhaustion (all
    items seen) or by an explicit return / break; a `while` with a second reason to stop (`i < items.len() && same
    syllable`) must, before it reports a match, test that the item index reached the end."""
    from engine_flw2 import _all_defs
    r = RuleResult("FLW-15", "input_match_structure / context_match_structure: the walk over the structure's items ends by exhaustion of the item iterator, or the success return is preceded by a test that the item index reached items.len()", floor=2)
    lib = ctx.lib
    for name in ("input_match_structure", "context_match_structure"):
        b = ctx.fn(lib, "asca::subrule::SubRule::" + name)
        cfg = b.cfg
        walkers = {i for i, t in b.calls() if (callee_path(t) or "").endswith(("SubRule::context_match_ipa", "SubRule::context_match_matrix"))}
        loops = [(h, set(body)) for h, body in cfg.loops if walkers & set(body)]
        if not loops:
            raise AnchorMissing("FLW-15: %s: loop over the structure's items not found" % name)
        h, body = max(loops, key=lambda x: len(x[1]))
        ht = b.blocks[h]["t"]
        by_iter = ht["k"] == "call" and (ht["callee"].get("def") or "").endswith("Iterator::next") and "asca::parser::Item" in (ht["callee"].get("inst") or "")
        loc = ":".join((ht.get("loc") or b.loc).split(":")[:2])
        if by_iter:
            r.inst("%s: the items are walked by an iterator: the loop ends when every item was seen (or by return / break)" % name, loc, "ok")
            continue
        # a condition-driven loop: success returns after it must pass a comparison with items.len()
        len_cmp = set()
        for bi, bl in enumerate(b.blocks):
            if bi in body:
                continue
            for s_ in bl["s"]:
                if s_["k"] == "assign" and s_["rv"].get("k") == "binop" and s_["rv"]["op"] in ("Eq", "Ne", "Lt", "Le", "Gt", "Ge"):
                    for o in (s_["rv"]["a"], s_["rv"]["b"]):
                        if o.get("k") in ("copy", "move") and any(x == "len" for x in _all_defs(b, o["pl"]["l"])):
                            len_cmp.add(bi)
        exits = {x for y in body for x in cfg.succ[y] if x not in body}
        # success returns: blocks assigning _0 = Ok(true)
        succ_ret = set()
        for bi, bl in enumerate(b.blocks):
            for s_ in bl["s"]:
                if s_["k"] == "assign" and s_["lhs"]["l"] == 0 and not s_["lhs"]["p"] and s_["rv"].get("k") == "agg" and s_["rv"].get("variant") == "Ok":
                    o = s_["rv"]["ops"][0] if s_["rv"].get("ops") else {}
                    if o.get("k") == "const" and o.get("bool") is True:
                        succ_ret.add(bi)
        bad = False
        for e in exits:
            reach = cfg.reachable_from(e, avoid=len_cmp)
            if (reach & succ_ret) and e not in len_cmp:
                bad = True
        r.inst("%s: condition-driven walk over the items; a match is reported only after the index was compared with items.len()" % name, loc, "ok" if not bad else "report")
        if bad:
            r.report("FLW-15|%s|match-with-items-left" % name, loc, b.path,
                     "%s walks the items of a structure with a loop that can also stop because the syllable ran out, and then reports a match without testing that every item was consumed: `<t a q>` matches the syllable `ta` and the rule rewrites a word that has no `q`" % name)
    return r


# ---------------------------------------------------------------- FLW-3p: the trace prints every word of the recorded state

def flw3p(ctx):
    """Every line of get_trace_string shows the phrase as it was after a group: all words of `change.after`, rendered
    then and there. A printer that re-renders only some words (those that differ from some remembered state) shows a
    stale word whenever a later group changes a word back."""
    r = RuleResult("FLW-3p", "trace_to_string renders every word of `change.after` unconditionally for each recorded change", floor=1)
    lib = ctx.lib
    b = ctx.fn(lib, "asca::trace_to_string")
    root = _top_level_inlined_r5(lib, b)
    par = hirq.parent_map(root)
    loops = [x for x in hirq.walk(root) if x["e"] == "match" and "ForLoop" in str(x.get("src")) and any(y["e"] == "field" and y.get("name") == "after" for y in hirq.walk(x.get("scrut") or {}))]
    whole = [x for x in hirq.walk(b.hir["body"]) if x["e"] in ("call", "mcall") and any(hirq.strip(a).get("e") in ("field", "addr") and any(y["e"] == "field" and y.get("name") == "after" for y in hirq.walk(a)) for a in x.get("args", []))
             and not any(x is l or any(x is y for y in hirq.walk(l)) for l in loops)]
    n = 0
    for lp in loops:
        renders = [x for x in hirq.walk(lp) if x["e"] == "mcall" and x["name"] in ("render", "render_normal")]
        for k, rd in enumerate(renders):
            n += 1
            cond = None
            x = par.get(id(rd))
            while x is not None and x is not lp:
                if x.get("e") == "if" or (x.get("e") == "match" and "ForLoop" not in str(x.get("src")) and "TryDesugar" not in str(x.get("src"))):
                    cond = x
                    break
                x = par.get(id(x))
            loc = fn_loc(b, rd.get("ln"))
            r.inst("trace_to_string: render #%d of a word of `change.after` is unconditional" % k, loc, "ok" if cond is None else "report")
            if cond is not None:
                r.report("FLW-3p|trace_to_string|conditional-render#%d" % k, fn_loc(b, cond.get("ln")), b.path,
                         "a word of the recorded state is rendered only under a condition (line %s): when the condition compares with anything but the previously printed state, the printed line keeps a stale spelling -- a word that a later group changes back to its original form is never re-rendered" % cond.get("ln"))
    if n == 0 and not whole:
        raise AnchorMissing("FLW-3p: trace_to_string: no rendering of the words of `change.after` found")
    if n == 0:
        r.inst("trace_to_string hands `change.after` as a whole to its renderer", fn_loc(b), "ok")
    return r


def _top_level_inlined_r5(lib, fb):
    return hirq.inline_helpers(lib, fb, keep={"asca::normalise"}, prefixes=("asca::",), max_depth=2, only_if=lambda cb: re.match(r"^asca::\w+$", cb.path) is not None)


# ---------------------------------------------------------------- CLI-9: `conv json` writes the alias file when either section has content

def cli9(ctx):
    """`asca conv json` splits a project json into word, rule and alias files. The alias file holds two sections; it must be
    written when *either* of them has content: the call of util::to_alias is reachable on the path where only `into` is
    non-empty and on the path where only `from` is non-empty (evaluated on the CFG with the other emptiness test forced
    to 'empty')."""
    from engine_flw2 import _single_def
    r = RuleResult("CLI-9", "convert::from_json: the alias file is produced when only the `into` section or only the `from` section is non-empty", floor=2)
    bn = ctx.bin
    b = ctx.fn(bn, "asca_bin::cli::convert::from_json")
    cfg = b.cfg
    W = {i for i, t in b.calls() if (callee_path(t) or "").endswith("util::to_alias")}
    if not W:
        raise AnchorMissing("CLI-9: from_json does not call util::to_alias")
    # emptiness tests of json.into / json.from
    tests = {}
    for i, t in b.calls():
        if not (callee_path(t) or "").endswith("Vec::is_empty") or not t["args"] or t["args"][0].get("k") not in ("copy", "move"):
            continue
        d = _single_def(b, t["args"][0]["pl"]["l"])
        fld = None
        if d is not None and d.get("k") == "ref":
            for p in d["pl"]["p"]:
                if isinstance(p, dict) and p.get("n") in ("into", "from"):
                    fld = p["n"]
        nxt = t.get("t")
        sw = b.blocks[nxt]["t"] if nxt is not None else {}
        if fld and sw.get("k") == "switch":
            vals = dict((v, tg) for v, tg in sw["vals"])
            empty_edge = vals.get(1, sw.get("otherwise") if 0 in vals else None)
            nonempty_edge = vals.get(0, sw.get("otherwise") if 1 in vals else None)
            tests.setdefault(fld, []).append((nxt, empty_edge, nonempty_edge))
    if set(tests) != {"into", "from"}:
        raise AnchorMissing("CLI-9: from_json: emptiness tests of json.into and json.from not found (%s)" % sorted(tests))
    for only, other in (("into", "from"), ("from", "into")):
        # succ with the tests forced: `only` non-empty, `other` empty
        forced = {}
        for sw_blk, e_edge, ne_edge in tests[only]:
            forced[sw_blk] = ne_edge
        for sw_blk, e_edge, ne_edge in tests[other]:
            forced[sw_blk] = e_edge
        seen, st = {0}, [0]
        while st:
            x = st.pop()
            nxts = [forced[x]] if x in forced and forced[x] is not None else cfg.succ[x]
            for y in nxts:
                if y not in seen:
                    seen.add(y)
                    st.append(y)
        ok = bool(W & seen)
        r.inst("from_json: with only `%s` non-empty the alias file is still produced" % only, fn_loc(b), "ok" if ok else "report")
        if not ok:
            r.report("CLI-9|from_json|only-%s" % only, fn_loc(b), b.path,
                     "when a project has %s aliases but no %s aliases, from_json never reaches util::to_alias: `conv json` silently drops the alias section, and conv json -> conv asca is not the identity" % (only, other))
    return r


# ---------------------------------------------------------------- CLI-10: an output file is replaced, not overwritten in place

def cli10(ctx):
    """`-o out.wsca` leaves exactly the library's answer in the file, also when the file existed with longer content. Every
    function of the CLI that writes a file does so through a primitive that truncates (fs::write, File::create) or
    through an OpenOptions chain that says truncate(true) / create_new(true) / append is not used."""
    r = RuleResult("CLI-10", "every file the CLI writes is written through a truncating primitive (fs::write / File::create / OpenOptions with truncate(true) or create_new(true)): no stale tail of an older, longer file survives", floor=1)
    bn = ctx.bin
    n = 0
    for b in bn.bodies:
        if b.in_test_mod() or not b.hir or b.kind == "closure":
            continue
        for x in hirq.walk(b.hir["body"]):
            p = None
            if x["e"] == "call":
                p = hirq.strip(x["f"]).get("path") or ""
            elif x["e"] == "mcall":
                p = x.get("def") or ""
            if not p:
                continue
            loc = fn_loc(b, x.get("ln"))
            if p in ("std::fs::write", "std::fs::File::create", "std::fs::File::create_new"):
                n += 1
                r.inst("%s writes through %s" % (b.path, p.rsplit("::", 2)[-2] + "::" + p.rsplit("::", 1)[-1]), loc, "ok")
            elif p == "std::fs::OpenOptions::open":
                chain, y = [], x
                while isinstance(y, dict) and y.get("e") == "mcall":
                    flag = hirq.strip(y["args"][0]).get("lit") if y.get("args") else None
                    chain.append((y["name"], flag))
                    y = hirq.strip(y["recv"])
                opts = {nm: fl for nm, fl in chain}
                writes = opts.get("write") is True or opts.get("append") is True
                if not writes:
                    continue
                n += 1
                ok = opts.get("truncate") is True or opts.get("create_new") is True
                r.inst("%s opens a file for writing with %s" % (b.path, ", ".join("%s(%s)" % (a, f) for a, f in reversed(chain) if a != "open")), loc, "ok" if ok else "report")
                if not ok:
                    r.report("CLI-10|%s|open-without-truncate" % b.path, loc, b.path,
                             "a file is opened with write(true)%s and neither truncate(true) nor create_new(true): when the file exists and the new content is shorter, the tail of the old content stays -- `run -o` leaves stale words after the answer" % (", create(true)" if opts.get("create") else ""))
    if n < 1:
        raise AnchorMissing("CLI-10: no file-writing primitive call site found in the CLI")
    return r


# ---------------------------------------------------------------- PAN-14: a bounds guard and the indexing it protects read the same word

def pan14(ctx):
    """The interpreter keeps two words: the one being read (`word`) and the one being rewritten (`res_word`); syllables
    appear and disappear in the second. An index that is tested against the syllable count of one of them protects an
    access `X.syllables[i]` only if X is that same word."""
    import collections
    r = RuleResult("PAN-14", "an index that is compared with `<W>.syllables.len()` indexes the syllables of that same word W (never the guard on `word` and the access on `res_word`, or vice versa)", floor=3)
    lib = ctx.lib

    def root(e):
        e = hirq.strip(e)
        while isinstance(e, dict) and e.get("e") in ("field", "index", "unary", "addr", "mcall"):
            e = hirq.strip(e.get("a") if e.get("e") != "mcall" else e["recv"])
        return (e.get("hid"), e.get("local")) if isinstance(e, dict) and e.get("e") == "path" and "hid" in e else None
    n = 0
    for b in lib.bodies:
        if b.in_test_mod() or not b.hir or b.kind == "closure" or not b.path.startswith(("asca::subrule::", "asca::word::", "asca::syll::")):
            continue
        cmpd, idxd = collections.defaultdict(set), collections.defaultdict(list)
        for x in hirq.walk(b.hir["body"]):
            if x["e"] == "binary" and x["op"] in ("Lt", "Le", "Gt", "Ge"):
                for a, c in ((x["a"], x["b"]), (x["b"], x["a"])):
                    a0 = hirq.strip(a)
                    if a0.get("e") == "path" and "hid" in a0:
                        for y in hirq.walk(c):
                            if y["e"] == "mcall" and y["name"] == "len" and hirq.strip(y["recv"]).get("e") == "field" and hirq.strip(y["recv"]).get("name") == "syllables":
                                rt = root(y["recv"])
                                if rt:
                                    cmpd[(a0["hid"], a0["local"])].add(rt)
            if x["e"] == "index":
                base, i0 = hirq.strip(x["a"]), hirq.strip(x["i"])
                if base.get("e") == "field" and base.get("name") == "syllables" and i0.get("e") == "path" and "hid" in i0:
                    rt = root(base)
                    if rt:
                        idxd[(i0["hid"], i0["local"])].append((rt, x.get("ln")))
        for k, guards in sorted(cmpd.items(), key=lambda kv: str(kv[0])):
            if k not in idxd:
                continue
            n += 1
            bad = [(rt, ln) for rt, ln in idxd[k] if rt not in guards]
            gn = "/".join(sorted(g[1] for g in guards))
            r.inst("%s: index `%s` is compared with %s.syllables.len() and indexes %s" % (b.path.rsplit("::", 1)[-1], k[1], gn, "/".join(sorted({rt[1] for rt, _ in idxd[k]}))), fn_loc(b, idxd[k][0][1]), "ok" if not bad else "report")
            if bad:
                r.report("PAN-14|%s|%s|%s" % (b.path.rsplit("::", 1)[-1], k[1], "+".join(sorted({rt[1] for rt, _ in bad}))), fn_loc(b, bad[0][1]), b.path,
                         "`%s` is bounds-tested against %s.syllables.len() but then indexes %s.syllables: once a syllable has been removed from the rewritten word the two counts differ and the access is out of bounds (`a t $ k > e d` on `ka.pat.k`)" % (k[1], gn, bad[0][0][1]))
    if n < 3:
        raise AnchorMissing("PAN-14: %d guarded syllable indices found (expected >= 3)" % n)
    r.analysed = {"guarded_indices": n}
    return r


# ---------------------------------------------------------------- TAB-9: a literal with modifiers pins every node

def tab9(ctx):
    """`t:[-long]` is matched by expanding the literal into a full matrix (Segment::as_modifiers) and laying the modifiers
    over it. The expansion must say something about *every* node -- present or absent -- or the literal also matches
    segments that differ from it in the unmentioned node (t ~ tˤ, k ~ kʷ). All entries of the `nodes` array are `Some`."""
    r = RuleResult("TAB-9", "Segment::as_modifiers gives every node an explicit value: the `nodes` array it returns has NodeType::count() entries and each is `Some(..)` (an absent node is pinned as negative, not left open)", floor=8)
    lib = ctx.lib
    b = ctx.fn(lib, "asca::seg::Segment::as_modifiers")
    nk = lib.adts.get("asca::seg::NodeKind") or lib.adts.get("asca::lexer::NodeType")
    n_nodes = len(nk["variants"]) if nk else 8
    root = b.hir["body"]
    lets = [x for x in hirq.walk(root) if x["e"] == "let" and (x.get("pat") or {}).get("p") == "bind" and x["pat"].get("name") == "nodes" and x.get("init") is not None]
    if len(lets) != 1:
        raise AnchorMissing("TAB-9: as_modifiers: the `nodes` array is not built in one `let nodes = ..`")
    init = hirq.strip(lets[0]["init"])
    mutated = [x for x in hirq.walk(root) if x["e"] == "assign" and hirq.path_hid(_root_of(x["lhs"])) == lets[0]["pat"].get("hid")]

    def is_some(e):
        e = hirq.strip(e)
        return e.get("e") == "call" and (hirq.strip(e["f"]).get("path") or "").endswith("Option::Some")
    items = None
    if init.get("e") == "array":
        items = [("item", it) for it in init["items"]]
    elif init.get("e") == "mcall" and init["name"] == "map" and hirq.strip(init["recv"]).get("e") == "array":
        cl = hirq.strip(init["args"][0])
        body = hirq.strip(cl.get("body")) if cl.get("e") == "closure" else None
        items = [("mapped", body)] * len(hirq.strip(init["recv"])["items"]) if body is not None else None
    if items is None or mutated:
        r.inst("as_modifiers: the node array is built in a form the rule cannot read (%s)" % ("later assignments" if mutated else init.get("e")), fn_loc(b, lets[0].get("ln")), "report")
        r.report("TAB-9|as_modifiers|unreadable", fn_loc(b, lets[0].get("ln")), b.path,
                 "the `nodes` array of as_modifiers is not an array literal of `Some(..)` entries (it is filled in later or computed): an entry that can stay `None` leaves that node unconstrained, and a literal with modifiers matches segments that differ from it in that node (`t:[-long]` matches `tˤ`)")
        return r
    if len(items) != n_nodes:
        r.report("TAB-9|as_modifiers|count", fn_loc(b, lets[0].get("ln")), b.path, "the `nodes` array has %d entries, there are %d node kinds" % (len(items), n_nodes))
    names = [v["name"] for v in nk["variants"]] if nk else [str(i) for i in range(n_nodes)]
    for i, (_kind, it) in enumerate(items):
        ok = it is not None and is_some(it)
        nm = names[i] if i < len(names) else str(i)
        r.inst("as_modifiers: node %s is pinned (`Some(..)`)" % nm, fn_loc(b, (it or {}).get("ln") or lets[0].get("ln")), "ok" if ok else "report")
        if not ok:
            r.report("TAB-9|as_modifiers|%s" % nm, fn_loc(b, (it or {}).get("ln") or lets[0].get("ln")), b.path,
                     "the entry for node %s is not a plain `Some(..)`: when it evaluates to `None` the node is left unconstrained and an IPA literal with modifiers (`t:[-long]`, `k:[+stress]`) also matches segments that carry that node (tʲ, tˤ, kʷ)" % nm)
    return r


# ---------------------------------------------------------------- CLI-11: a piped tag still reads its own extra word files

def _is_from_place(b, pl, depth=0):
    """the place is `<config>.from`, directly or through a reference taken of it"""
    from engine_flw2 import _single_def
    if any(isinstance(p, dict) and p.get("n") == "from" and "ASCAConfig" in (p.get("of") or "") for p in pl.get("p") or []):
        return True
    if depth > 3:
        return False
    d = _single_def(b, pl.get("l"))
    if d is None:
        return False
    if d.get("k") == "ref":
        return _is_from_place(b, d["pl"], depth + 1)
    if d.get("k") == "use" and d["op"].get("k") in ("copy", "move"):
        return _is_from_place(b, d["op"]["pl"], depth + 1)
    return False


def cli11(ctx):
    """`@child %parent ["extra"]`: the stage input is the parent's final words *plus* the tag's own word files. In
    seq::get_words, when no `-w` file is given, the loop over `conf.words` is reached also for a tag that has a `%`
    reference: evaluated on the CFG (local helpers that take the config expanded) with every test of `conf.from` that
    follows the `words_path == None` edge forced to `Some`."""
    import facts as F
    r = RuleResult("CLI-11", "seq::get_words: without -w, the files named in `conf.words` are read whether or not the tag has a `%` reference (the iteration over conf.words does not sit behind a test of conf.from)", floor=1)
    bn = ctx.bin
    b0 = ctx.fn(bn, "asca_bin::cli::seq::get_words")
    try:
        b = F.inline_mir(bn, b0, lambda cb: cb.path.startswith("asca_bin::cli::seq::") and cb.path != b0.path and any("ASCAConfig" in (ty or "") for ty in (cb.param_tys or []))
                         and not cb.path.endswith(("run_sequence", "handle_sequence", "get_words")), max_blocks=120)
    except (KeyError, IndexError):
        b = b0
    cfg = b.cfg
    names = b0.param_names or []
    if "conf" not in names or "words_path" not in names:
        raise AnchorMissing("CLI-11: get_words: parameters `conf` / `words_path` not found")
    conf_l, wp_l = names.index("conf") + 1, names.index("words_path") + 1

    def through(pl, root, field=None):
        if pl.get("l") != root:
            return False
        return field is None or any(isinstance(p, dict) and p.get("n") == field for p in pl.get("p") or [])
    # the `words_path` test and its None edge
    none_edges = []
    for bi, bl in enumerate(b.blocks):
        for s_ in bl["s"]:
            if s_["k"] == "assign" and s_["rv"].get("k") == "discr" and through(s_["rv"]["pl"], wp_l):
                sw = bl["t"]
                if sw.get("k") == "switch":
                    vals = dict((v, tg) for v, tg in sw["vals"])
                    e = vals.get(0, sw.get("otherwise") if 1 in vals else None)
                    if e is not None:
                        none_edges.append(e)
    if not none_edges:
        raise AnchorMissing("CLI-11: get_words: test of `words_path` not found")
    # iteration over conf.words (also through the helper's own `conf` parameter after inlining: any ASCAConfig `.words`)
    iters = set()
    for i, t in b.calls():
        d = (t["callee"].get("def") or "")
        if d.endswith(("IntoIterator::into_iter", "slice::<impl [T]>::iter")) or (callee_path(t) or "").endswith("::iter"):
            a = t["args"][0] if t["args"] else {}
            l = a.get("pl", {}).get("l") if a.get("k") in ("copy", "move") else None
            from engine_flw2 import _single_def
            for _ in range(4):
                dd = _single_def(b, l) if l is not None else None
                if dd is None:
                    break
                if dd.get("k") == "ref" and any(isinstance(p, dict) and p.get("n") == "words" and "ASCAConfig" in (p.get("of") or "") for p in dd["pl"]["p"]):
                    iters.add(i)
                    break
                if dd.get("k") == "use" and dd["op"].get("k") in ("copy", "move"):
                    l = dd["op"]["pl"]["l"]
                    continue
                break
    if not iters:
        r.inst("get_words iterates over `conf.words`", fn_loc(b0), "report")
        r.report("CLI-11|get_words|no-iteration", fn_loc(b0), b0.path, "get_words (with its config helpers expanded) never iterates over `conf.words`: the tag's own word files are not read")
        return r
    # tests of `.from` of a config: force the Some edge
    forced = {}
    for bi, bl in enumerate(b.blocks):
        for s_ in bl["s"]:
            if s_["k"] == "assign" and s_["rv"].get("k") == "discr" and _is_from_place(b, s_["rv"]["pl"]):
                sw = bl["t"]
                if sw.get("k") == "switch":
                    vals = dict((v, tg) for v, tg in sw["vals"])
                    e = vals.get(1, sw.get("otherwise") if 0 in vals else None)
                    if e is not None:
                        forced[bi] = e
    ok = False
    for e in none_edges:
        seen, st = {e}, [e]
        while st:
            x = st.pop()
            for y in ([forced[x]] if x in forced else cfg.succ[x]):
                if y not in seen:
                    seen.add(y)
                    st.append(y)
        if iters & seen:
            ok = True
    r.inst("get_words: with no -w file and a tag reference the loop over `conf.words` is still reached (%d tests of `.from` after the `words_path` test forced to Some)" % len(forced), fn_loc(b0), "ok" if ok else "report")
    if not ok:
        r.report("CLI-11|get_words|extra-words-behind-from-test", fn_loc(b0), b0.path,
                 "for a tag with a parent reference the iteration over `conf.words` is unreachable: `@child <parent> [extra]` never reads extra.wsca -- the stage input is not 'final words of the parent plus the extra word files'")
    return r


# ---------------------------------------------------------------- SYN-4: whitespace inside a feature name is skipped

def syn4(ctx):
    """The manual: "Whitespace is not important, meaning `[+del.rel.]` is identical to `[ + d e l . r e l . ]`". In both
    lexers the characters of a feature name are collected by a loop that skips whitespace after every character (a call
    of trim_whitespace inside the loop), or by a scan whose predicate accepts whitespace."""
    r = RuleResult("SYN-4", "get_feature (rule and alias lexer): whitespace between the characters of a feature name is skipped (trim_whitespace inside the collecting loop, or a collecting predicate that accepts whitespace)", floor=2)
    lib = ctx.lib
    for path in ("asca::lexer::Lexer::get_feature", "asca::alias::lexer::AliasLexer::get_feature"):
        b = ctx.fn(lib, path)
        root = b.hir["body"]
        ok = False
        how = "no whitespace handling inside the name"
        # (a) a loop that pushes characters and trims inside
        for lp in [x for x in hirq.walk(root) if x["e"] == "loop"]:
            pushes = any(y["e"] == "mcall" and y["name"] in ("push", "push_str") for y in hirq.walk(lp))
            trims = any(y["e"] == "mcall" and y["name"] == "trim_whitespace" for y in hirq.walk(lp))
            if pushes and trims:
                ok, how = True, "the collecting loop calls trim_whitespace after every character"
        # (b) a scan whose predicate lets whitespace through
        for y in hirq.walk(root):
            if y["e"] == "mcall" and y["name"] in ("chop_while", "take_while", "skip_while"):
                cl = [hirq.strip(a) for a in y["args"] if hirq.strip(a).get("e") == "closure"]
                if cl and any(z["e"] == "mcall" and z["name"] in ("is_whitespace", "is_ascii_whitespace") for z in hirq.walk(cl[0]["body"])) \
                        and any(z["e"] == "mcall" and z["name"] in ("is_ascii_alphabetic", "is_alphabetic") for z in hirq.walk(cl[0]["body"])):
                    ok, how = True, "the name is scanned with a predicate that accepts whitespace"
        short = path.rsplit("::", 2)[-2]
        r.inst("%s::get_feature: %s" % (short, how), fn_loc(b), "ok" if ok else "report")
        if not ok:
            r.report("SYN-4|%s" % short, fn_loc(b), path,
                     "the feature name is collected without skipping whitespace between its characters: `[+del. rel.]`, `[+sec. stress]` and the manual's own `[ + d e l . r e l . ]` stop at the first space (UnknownFeature / ExpectedAlphabetic) while `[+del.rel.]` is accepted")
    return r


# ---------------------------------------------------------------- SUP-8: the suprasegmental pass of Syllable::apply_seg_mods

def sup8(ctx):
    """Syllable::apply_seg_mods applies the node / feature modifiers to every copy of a (long) segment and then hands the
    suprasegmental part -- length, stress *and tone* -- to apply_supras. (a) Every non-error return passes the call of
    apply_supras: an early exit that tests only some of the three (`length == [None, None] && stress == [None, None]`)
    drops the third. (b) The number of copies the segmental loop walks over is read from the syllable *after* any
    length change: no call of apply_supras lies between the read of the run length and that loop."""
    from engine_flw2 import _all_defs
    r = RuleResult("SUP-8", "Syllable::apply_seg_mods: every non-error return passes apply_supras (no partial early exit), and the run length that bounds the loop over the segment's copies is not read before a length change", floor=2)
    lib = ctx.lib
    b = ctx.fn(lib, "asca::syll::Syllable::apply_seg_mods")
    cfg = b.cfg
    S = {i for i, t in b.calls() if (callee_path(t) or "") == "asca::syll::Syllable::apply_supras"}
    if not S:
        raise AnchorMissing("SUP-8: Syllable::apply_seg_mods does not call apply_supras")
    rets = {i for i, bl in enumerate(b.blocks) if bl["t"]["k"] == "return" and not bl.get("cleanup")}
    errs = {i for i, t in b.calls() if "from_residual" in (callee_path(t) or "")}
    reach = cfg.reachable_from(0, avoid=S | errs)
    bad = sorted(x for x in reach if x in rets)
    if bad:
        # an early exit is fine when its guard establishes that there is no suprasegmental at all: it tests length, stress
        # and tone (or the SupraSegs value as a whole)
        guards = []
        for x in hirq.walk(b.hir["body"]):
            if x["e"] == "if" and any(y["e"] == "ret" and not y.get("exp") for y in hirq.walk(x["then"])) \
                    and not any(y["e"] == "mcall" and (y.get("def") or "").endswith("Syllable::apply_supras") for y in hirq.walk(x["then"])):
                flds = {y["name"] for y in hirq.walk(x["cond"]) if y["e"] == "field" and (y.get("of_ty") or "").lstrip("&").endswith("asca::parser::SupraSegs")}
                whole = any(y["e"] == "field" and y.get("name") == "suprs" and (y.get("ty") or "").endswith("SupraSegs") and not any(
                    z["e"] == "field" and hirq.strip(z["a"]) is y for z in hirq.walk(x["cond"])) for y in hirq.walk(x["cond"]))
                guards.append({"length", "stress", "tone"} <= flds or whole)
        if guards and all(guards):
            bad = []
    r.inst("apply_seg_mods: every non-error return passes the call of apply_supras (or sits behind a test of length, stress and tone together)", fn_loc(b), "ok" if not bad else "report")
    if bad:
        r.report("SUP-8|apply_seg_mods|return-without-supras", fn_loc(b), b.path,
                 "Syllable::apply_seg_mods can return without calling apply_supras: a matrix whose only suprasegmental is the one the early exit does not test (e.g. `[tone: 5]` when only length and stress are tested) is silently not applied to a segment -- `V > [tone:5]` does nothing")
    # (b)
    L = {i for i, t in b.calls() if (callee_path(t) or "") == "asca::seg::Segment::apply_seg_mods"}
    reads = [i for i, t in b.calls() if (callee_path(t) or "").endswith("Syllable::get_seg_length_at")]
    loops = [(h, set(body)) for h, body in cfg.loops if L & set(body)]
    if not loops or not reads:
        raise AnchorMissing("SUP-8: apply_seg_mods: the loop over the copies (Segment::apply_seg_mods) or the read of the run length was not found")
    h, body = loops[0]
    stale = False
    for rd in reads:
        if rd in body:
            continue
        # an apply_supras call strictly between this read and the loop head, with no later read before the loop
        for s_ in S:
            if s_ in cfg.reachable_from(rd) and h in cfg.reachable_from(s_) and s_ not in body:
                later = [r2 for r2 in reads if r2 != rd and r2 in cfg.reachable_from(s_) and h in cfg.reachable_from(r2) and r2 not in body]
                if not later:
                    stale = True
    r.inst("apply_seg_mods: the loop over the segment's copies is bounded by a run length read after any length change", fn_loc(b), "ok" if not stale else "report")
    if stale:
        r.report("SUP-8|apply_seg_mods|stale-run-length", fn_loc(b), b.path,
                 "the run length is read, then apply_supras changes the number of copies, then the node / feature modifiers are applied to the *old* number of copies: `a > [+long, +nasal]` nasalises only the first copy of the new long vowel (`kãa`), `[-long, +nasal]` also writes onto the following segment")
    return r


# ---------------------------------------------------------------- VAR-4: a variable is written back slot by slot

def var4(ctx):
    """Syllable::replace_segment first collapses the target run to one copy: right for a literal output segment (`a > e`
    on /aː/), wrong for writing a captured segment back over what it was captured from -- the tail of a long segment is
    dropped (`V=1 C=2 > 2 1` on `aːt`). It is called only from an arm that handles a literal IPA output element."""
    r = RuleResult("VAR-4", "Syllable::replace_segment (which discards the rest of a long run) is called only from the arm of a literal IPA output element, never to write a variable back", floor=1)
    lib = ctx.lib
    TARGET = "asca::syll::Syllable::replace_segment"
    ctx.fn(lib, TARGET)
    n = 0
    for b in lib.bodies:
        if b.in_test_mod() or not b.hir or b.kind == "closure" or b.path == TARGET:
            continue
        root = b.hir["body"]
        sites = [x for x in hirq.walk(root) if x["e"] == "mcall" and x.get("def") == TARGET]
        if not sites:
            continue
        par = hirq.parent_map(root)
        for k, st in enumerate(sites):
            n += 1
            arm_kind = None
            x, child = par.get(id(st)), st
            while x is not None and arm_kind is None:
                if x.get("e") == "match" and (x.get("sty") or "").lstrip("&").endswith("asca::parser::ParseElement"):
                    for arm in x["arms"]:
                        if any(y is child for y in hirq.walk(arm["body"])):
                            ks = [(p.get("path") or "").rsplit("::", 1)[-1] for p in hirq.flat_pats(arm["pat"]) if (p.get("path") or "").startswith(PE)]
                            arm_kind = "/".join(ks) or "?"
                child = x
                x = par.get(id(x))
            ok = arm_kind == "Ipa"
            r.inst("%s: replace_segment #%d is called for an output element of kind %s" % (b.path.rsplit("::", 1)[-1], k, arm_kind or "(not inside a match on the element kind)"), fn_loc(b, st.get("ln")), "ok" if ok else "report")
            if not ok:
                r.report("VAR-4|%s|replace_segment#%d|%s" % (b.path.rsplit("::", 1)[-1], k, arm_kind or "outside"), fn_loc(b, st.get("ln")), b.path,
                         "replace_segment collapses a long target to one copy before writing: used for a %s output it drops the tail of the long segment the value was captured from -- `[]=1 > 1` turns `kaːt` into `kat`, and `V=1 C=2 > 2 1` no longer equals `V C > &`" % (arm_kind or "non-literal"))
    if n == 0:
        raise AnchorMissing("VAR-4: no call of Syllable::replace_segment found")
    return r


# ---------------------------------------------------------------- ENV-7: the parser does not delete what the user wrote

def env7(ctx):
    """What stands in an environment is what is matched: the rule parser builds its element lists by appending, and never
    removes, merges or reorders parsed elements afterwards (`dedup`, `retain`, `remove`, `truncate`, `sort`, `swap`...).
    The one intended reordering -- the mirrored copy of `_,X` -- is a `rev()` into a new list."""
    r = RuleResult("ENV-7", "the rule parser's element lists (Vec<Item>) are append-only: no dedup / retain / remove / truncate / sort / swap / pop / clear / drain on them", floor=10)
    lib = ctx.lib
    DEL = {"dedup", "dedup_by", "dedup_by_key", "retain", "retain_mut", "remove", "swap_remove", "truncate", "sort", "sort_by", "sort_by_key", "sort_unstable", "swap", "pop", "clear", "drain", "split_off", "reverse"}
    ADD = {"push", "extend", "append", "insert"}
    n_add = 0
    for b in lib.bodies:
        if b.in_test_mod() or not b.hir or b.kind == "closure" or not b.path.startswith("asca::parser::Parser::"):
            continue
        k = 0
        for x in hirq.walk(b.hir["body"]):
            if x["e"] != "mcall":
                continue
            rty = (x.get("rty") or "").replace("&mut ", "").replace("&", "")
            if rty not in ("alloc::vec::Vec<asca::parser::Item>", "alloc::vec::Vec<alloc::vec::Vec<asca::parser::Item>>"):
                continue
            if x["name"] in ADD:
                n_add += 1
                r.inst("%s: `%s` onto an element list" % (b.path.rsplit("::", 1)[-1], x["name"]), fn_loc(b, x.get("ln")), "ok")
            elif x["name"] in DEL:
                r.inst("%s: `%s` on an element list" % (b.path.rsplit("::", 1)[-1], x["name"]), fn_loc(b, x.get("ln")), "report")
                r.report("ENV-7|%s|%s#%d" % (b.path.rsplit("::", 1)[-1], x["name"], k), fn_loc(b, x.get("ln")), b.path,
                         "the parser edits an element list after building it (`%s`): elements the user wrote are dropped, merged or moved before matching -- e.g. collapsing `$#` keeps the `$` and loses the word boundary, so `_$#` fires at every syllable end" % x["name"])
                k += 1
    if n_add < 10:
        raise AnchorMissing("ENV-7: %d appends onto parser element lists found (expected >= 10)" % n_add)
    return r


# ---------------------------------------------------------------- ERR-7: the caret line telescopes to one column

class _Lin:
    """a linear form over symbolic atoms"""

    def __init__(self, atoms=None, const=0):
        self.atoms = dict(atoms or {})
        self.const = const

    def add(self, o, sign=1):
        out = dict(self.atoms)
        for k, v in o.atoms.items():
            out[k] = out.get(k, 0) + sign * v
            if out[k] == 0:
                del out[k]
        return _Lin(out, self.const + sign * o.const)

    def scale(self, c):
        return _Lin({k: v * c for k, v in self.atoms.items() if v * c}, self.const * c)


class _CaretEval:
    POS_TY = ("asca::lexer::Position", "asca::alias::AliasPosition")
    PASS_STR = {"as_str", "to_string", "to_owned", "clone", "as_ref", "borrow", "into"}

    def __init__(self, lib):
        self.lib = lib
        self.cols = set()
        self.by_path = {b.path: b for b in lib.bodies if b.hir and b.kind != "closure"}

    def env_of(self, root, env=None):
        env = dict(env or {})
        for n in hirq.walk(root):
            if n["e"] == "let" and n.get("init") is not None and n["pat"].get("p") == "bind" and "hid" in n["pat"]:
                env[n["pat"]["hid"]] = ("expr", n["init"])
        return env

    def canon(self, e, env, depth=0):
        e = hirq.strip(e)
        if not isinstance(e, dict) or depth > 10:
            return "?"
        k = e.get("e")
        if k == "path":
            if "hid" in e and e["hid"] in env:
                v = env[e["hid"]]
                if v[0] == "expr":
                    return self.canon(v[1], env, depth + 1)
                if v[0] == "val" and isinstance(v[1], str):
                    return v[1]
            return "%s#%s" % (e.get("local") or e.get("path"), e.get("hid", ""))
        if k == "field":
            v = self.val(e["a"], env, depth + 1)
            if isinstance(v, list) and e["name"].isdigit() and int(e["name"]) < len(v):
                x = v[int(e["name"])]
                return x if isinstance(x, str) else "(%s)" % sorted(x.atoms.items()) if isinstance(x, _Lin) else "?"
            return "%s.%s" % (self.canon(e["a"], env, depth + 1), e["name"])
        if k == "unary":
            return self.canon(e["a"], env, depth + 1) if e.get("op") == "Deref" else "%s(%s)" % (e.get("op"), self.canon(e["a"], env, depth + 1))
        if k == "mcall":
            return "%s.%s(%s)" % (self.canon(e["recv"], env, depth + 1), e["name"], ",".join(self.canon(a, env, depth + 1) for a in e["args"]))
        if k == "call":
            return "%s(%s)" % (hirq.strip(e["f"]).get("path"), ",".join(self.canon(a, env, depth + 1) for a in e["args"]))
        if k == "index":
            return "%s[%s]" % (self.canon(e["a"], env, depth + 1), self.canon(e["i"], env, depth + 1))
        if k == "lit":
            return repr(e.get("lit"))
        if k == "cast":
            return self.canon(e["a"], env, depth + 1)
        return "<%s@%s>" % (k, e.get("ln"))

    def val(self, e, env, depth=0):
        """a tuple value (list), or None"""
        e = hirq.strip(e)
        if not isinstance(e, dict) or depth > 10:
            return None
        if e.get("e") == "tup":
            return [self.num(x, env, depth + 1) for x in e["items"]]
        if e.get("e") == "path" and e.get("hid") in env:
            v = env[e["hid"]]
            if v[0] == "expr":
                return self.val(v[1], env, depth + 1)
            if v[0] == "val" and isinstance(v[1], list):
                return v[1]
        return None

    def num(self, e, env, depth=0):
        e = hirq.strip(e)
        if not isinstance(e, dict) or depth > 14:
            return _Lin({"?": 1})
        k = e.get("e")
        if k == "lit" and e.get("lk") == "int":
            return _Lin(const=int(e["lit"]))
        if k == "binary" and e["op"] in ("Add", "Sub"):
            return self.num(e["a"], env, depth + 1).add(self.num(e["b"], env, depth + 1), 1 if e["op"] == "Add" else -1)
        if k == "binary" and e["op"] == "Mul":
            a, b = self.num(e["a"], env, depth + 1), self.num(e["b"], env, depth + 1)
            if not a.atoms:
                return b.scale(a.const)
            if not b.atoms:
                return a.scale(b.const)
        if k == "unary" and e.get("op") == "Deref" or k == "cast":
            return self.num(e["a"], env, depth + 1)
        if k == "mcall" and e["name"] in ("clone", "to_owned") and not e["args"]:
            return self.num(e["recv"], env, depth + 1)
        if k == "mcall" and e["name"] in ("saturating_sub", "wrapping_sub", "saturating_add", "wrapping_add") and len(e["args"]) == 1:
            # the clamped forms agree with the plain ones wherever the plain ones do not overflow
            return self.num(e["recv"], env, depth + 1).add(self.num(e["args"][0], env, depth + 1), -1 if "sub" in e["name"] else 1)
        if k == "path" and e.get("hid") in env:
            v = env[e["hid"]]
            if v[0] == "expr":
                return self.num(v[1], env, depth + 1)
            if v[0] == "val" and isinstance(v[1], _Lin):
                return v[1]
        if k == "field":
            v = self.val(e["a"], env, depth + 1)
            if isinstance(v, list) and e["name"].isdigit() and int(e["name"]) < len(v) and isinstance(v[int(e["name"])], _Lin):
                return v[int(e["name"])]
            key = self.canon(e, env)
            if e["name"] in ("start", "end") and (e.get("of_ty") or "").lstrip("&").replace("mut ", "") in self.POS_TY:
                self.cols.add(key)
            return _Lin({key: 1})
        return _Lin({self.canon(e, env): 1})

    def bind_params(self, pats, args, env):
        new = {}
        for p, a in zip(pats, args):
            if p.get("p") == "bind" and "hid" in p:
                v = self.val(a, env)
                if v is None:
                    # a number is passed as its linear form, anything else (a Position, a Token) by its canonical name,
                    # so that fields read from it inside the helper are the caller's atoms
                    aty = (hirq.strip(a).get("ty") or p.get("ty") or "").lstrip("&").replace("mut ", "")
                    v = self.num(a, env) if aty in ("usize", "u8", "u16", "u32", "u64", "i32", "i64", "isize") else self.canon(a, env)
                new[p["hid"]] = ("val", v)
            elif p.get("p") == "tuple" or p.get("p") == "tup":
                v = self.val(a, env)
                subs = p.get("pats") or p.get("items") or []
                for i, q in enumerate(subs):
                    if q.get("p") == "bind" and "hid" in q and isinstance(v, list) and i < len(v):
                        new[q["hid"]] = ("val", v[i])
        return new

    def width(self, e, env, depth=0):
        """the number of columns a string expression occupies, as a linear form; None when it is not a caret string"""
        e0 = e
        e = hirq.strip(e)
        if not isinstance(e, dict) or depth > 14:
            return None
        k = e.get("e")
        if k == "lit" and e.get("lk") == "str":
            return _Lin(const=len(str(e["lit"]).replace("\n", "")))
        if k == "binary" and e["op"] == "Add":
            a, b = self.width(e["a"], env, depth + 1), self.width(e["b"], env, depth + 1)
            return None if a is None or b is None else a.add(b)
        if k == "unary" and e.get("op") == "Deref":
            return self.width(e["a"], env, depth + 1)
        if k == "mcall" and e["name"] == "repeat" and (e.get("def") or "").endswith("str>::repeat"):
            rv = hirq.strip(e["recv"])
            if rv.get("e") != "lit":
                return None
            return self.num(e["args"][0], env, depth + 1).scale(len(str(rv["lit"]).replace("\n", "")))
        if k == "mcall" and e["name"] in self.PASS_STR and not e["args"]:
            return self.width(e["recv"], env, depth + 1)
        if k == "path" and e.get("hid") in env and env[e["hid"]][0] == "expr":
            return self.width(env[e["hid"]][1], env, depth + 1)
        if k == "block":
            inner = self.env_of({"e": "block", "stmts": e.get("stmts", []), "ln": 0}, env)
            return self.width(e["tail"], inner, depth + 1) if e.get("tail") is not None else None
        if k == "call":
            cb = self.by_path.get(hirq.strip(e["f"]).get("path") or "")
            if cb is not None and cb.path.startswith("asca::") and depth < 6:
                new = self.bind_params(cb.hir.get("params") or [], e["args"], env)
                return self.width(cb.hir["body"], self.env_of(cb.hir["body"], new), depth + 1)
        return None


def err7(ctx):
    """The caret line printed under the offending rule is a concatenation of `" ".repeat(x)` and `"^".repeat(y)` pieces. Its
    total width must telescope to (at most) ONE column of the line plus a constant: `start + (end-start)` = end,
    `a.start + (a.end-a.start) + (b.start-a.end) + (b.end-b.start)` = b.end. A width in which two columns survive (or one
    survives negated) draws carets past the end of the line."""
    r = RuleResult("ERR-7", "error formatters: the width of every caret string, as a linear form over token columns, cancels to at most one column (coefficient 1) plus a constant", floor=20)
    lib = ctx.lib
    ev = _CaretEval(lib)
    n = 0
    unresolved = 0

    def has_repeat(x, depth=0):
        for y in hirq.walk(x):
            if y["e"] == "mcall" and y["name"] == "repeat" and (y.get("def") or "").endswith("str>::repeat"):
                return True
            if y["e"] == "call" and depth < 3:
                cb = ev.by_path.get(hirq.strip(y["f"]).get("path") or "")
                if cb is not None and cb.path.startswith("asca::error::") and (cb.ret_ty or "").endswith("String") and has_repeat(cb.hir["body"], depth + 1):
                    return True
        return False

    def chain_node(x):
        k = x.get("e")
        return (k == "binary" and x["op"] == "Add") or k == "addr" or (k == "mcall" and (x["name"] in ev.PASS_STR or x["name"] == "repeat")) \
            or (k == "unary" and x.get("op") == "Deref")

    for b in lib.bodies:
        if b.in_test_mod() or not b.hir or b.kind == "closure" or not b.path.startswith(("asca::error::", "<asca::error::")):
            continue
        root = b.hir["body"]
        if not has_repeat(root):
            continue
        par = hirq.parent_map(root)
        env = ev.env_of(root)
        # variant names of the innermost arm each node sits in
        arm_of = {}
        for m in hirq.matches(b):
            for arm in m["arms"]:
                names = [(p.get("path") or "").rsplit("::", 1)[-1] for p in hirq.flat_pats(arm["pat"]) if p.get("path")]
                for y in hirq.walk(arm["body"]):
                    arm_of[id(y)] = names
        seen = {}
        for x in hirq.walk(root):
            k = x.get("e")
            is_rep = k == "mcall" and x["name"] == "repeat" and (x.get("def") or "").endswith("str>::repeat")
            is_helper = k == "call" and has_repeat({"e": "call", "f": x["f"], "args": []}) and not any(has_repeat(a) for a in x["args"])
            if not (is_rep or is_helper):
                continue
            # climb to the root of the chain
            top = x
            while True:
                p = par.get(id(top))
                if p is not None and chain_node(p) and not (p.get("e") == "mcall" and p["name"] == "repeat"):
                    top = p
                else:
                    break
            if id(top) in seen:
                continue
            seen[id(top)] = True
            names = arm_of.get(id(top)) or []
            label = "/".join(names[:3]) + ("/…" if len(names) > 3 else "") or "(no arm)"
            ev.cols = set()
            w = ev.width(top, env)
            n += 1
            short = b.path.replace("<asca::error::", "").replace(" as asca::error::ASCAError>", "").replace("asca::error::", "")
            if w is None:
                unresolved += 1
                r.inst("%s [%s]: caret string not resolved to a linear form" % (short, label), fn_loc(b, top.get("ln")), "ok", nontrivial=False)
                continue
            cols = {a: c for a, c in w.atoms.items() if a in ev.cols}
            bad = [a for a, c in w.atoms.items() if c < 0 or c > 1]
            ok = not bad and len(cols) <= 1
            form = " + ".join(("%s" % a if c == 1 else "%d*%s" % (c, a)) for a, c in sorted(w.atoms.items())) + (" + %d" % w.const if w.const else "")
            r.inst("%s [%s]: width = %s" % (short, label, form or "0"), fn_loc(b, top.get("ln")), "ok" if ok else "report")
            if not ok:
                r.report("ERR-7|%s|%s" % (short, names[0] if names else "-"), fn_loc(b, top.get("ln")), b.path,
                         "the caret line of this error is %s columns wide: %s, so the carets run past the end of the line the error points at (the second span must be padded by its distance from the end of the first, not by its absolute column)"
                         % (form, "two token columns survive the cancellation" if len(cols) > 1 else "a column survives with coefficient %s" % ",".join(str(w.atoms[a]) for a in bad)))
    if n < 20:
        raise AnchorMissing("ERR-7: %d caret strings found in the error formatters (expected >= 20)" % n)
    if unresolved > 2:
        raise AnchorMissing("ERR-7: %d of %d caret strings could not be resolved to a linear form" % (unresolved, n))
    r.analysed = {"caret_strings": n, "unresolved": unresolved}
    return r


# ---------------------------------------------------------------- CLI-12: -l / -w replace what the json holds, whole

def cli12(ctx):
    """`asca run -j proj.json -l x.alias` uses the aliases of x.alias and nothing of the json's; `-w` likewise replaces the
    json's words. In get_input the json's `into` / `from` are read only where `alias` is known to be None, and `words`
    only where `input` is None."""
    r = RuleResult("CLI-12", "run::get_input: AscaJson.into / .from are read only in the branch where the -l option is None, AscaJson.words only where -w is None", floor=3)
    b = ctx.fn(ctx.bin, "asca_bin::cli::run::get_input")
    root = b.hir["body"]
    par = hirq.parent_map(root)
    pid = {}
    for p in b.hir.get("params") or []:
        if p.get("p") == "bind":
            pid[p["name"]] = p["hid"]
    WANT = {"into": "alias", "from": "alias", "words": "input"}
    if not {"alias", "input"} <= set(pid):
        raise AnchorMissing("CLI-12: get_input has no parameters `alias` / `input`")

    def is_param(e, hid):
        e = hirq.strip(e)
        while isinstance(e, dict) and e.get("e") == "mcall" and e["name"] in ("as_ref", "as_deref", "as_mut", "clone", "take") and not e["args"]:
            e = hirq.strip(e["recv"])
        return isinstance(e, dict) and e.get("e") == "path" and e.get("hid") == hid

    def under_none(node, hid):
        child, x = node, par.get(id(node))
        while x is not None:
            k = x.get("e")
            if k == "if":
                c = hirq.strip(x["cond"])
                in_then = any(y is child for y in hirq.walk(x["then"])) or x["then"] is child
                in_else = x.get("else") is not None and (any(y is child for y in hirq.walk(x["else"])) or x["else"] is child)
                if c.get("e") == "letcond" and is_param(c["init"], hid):
                    pk = [q.get("path") for q in hirq.flat_pats(c["pat"])]
                    if in_else and pk == ["core::option::Option::Some"]:
                        return True
                    if in_then and pk == ["core::option::Option::None"]:
                        return True
                if c.get("e") == "mcall" and is_param(c["recv"], hid):
                    if (c["name"] == "is_none" and in_then) or (c["name"] == "is_some" and in_else):
                        return True
                if c.get("e") == "unary" and c.get("op") == "Not":
                    d = hirq.strip(c["a"])
                    if d.get("e") == "mcall" and is_param(d["recv"], hid) and ((d["name"] == "is_some" and in_then) or (d["name"] == "is_none" and in_else)):
                        return True
            if k == "match" and is_param(x["scrut"], hid):
                for arm in x["arms"]:
                    if arm["body"] is child or any(y is child for y in hirq.walk(arm["body"])):
                        pk = [q.get("path") for q in hirq.flat_pats(arm["pat"])]
                        if pk == ["core::option::Option::None"]:
                            return True
            child, x = x, par.get(id(x))
        return False

    n = 0
    reads = []
    for x in hirq.walk(root):
        if x["e"] == "field" and x["name"] in WANT and (x.get("of_ty") or "").lstrip("&").replace("mut ", "").endswith("cli::AscaJson"):
            reads.append((x["name"], x))
        if x["e"] in ("let", "letcond") or x["e"] == "match":
            pats = [x["pat"]] if x["e"] != "match" else [a["pat"] for a in x["arms"]]
            for pt in pats:
                for q in hirq.walk_pats(pt):
                    if q.get("p") == "struct" and (q.get("path") or "").endswith("cli::AscaJson"):
                        for f in q.get("fields") or []:
                            fname, fp = (f[0], f[1]) if isinstance(f, list) else (f.get("name"), f.get("pat"))
                            if fname in WANT and isinstance(fp, dict):
                                hids = {z["hid"] for z in hirq.walk_pats(fp) if z.get("p") == "bind" and "hid" in z}
                                for y in hirq.walk(root):
                                    if y["e"] == "path" and y.get("hid") in hids:
                                        reads.append((fname, y))
    for fname, x in reads:
        n += 1
        ok = under_none(x, pid[WANT[fname]])
        r.inst("get_input: the json's `%s` is read where `%s` is None" % (fname, WANT[fname]), fn_loc(b, x.get("ln")), "ok" if ok else "report")
        if not ok:
            r.report("CLI-12|get_input|%s" % fname, fn_loc(b, x.get("ln")), b.path,
                     "the json's `%s` is used on a path where the `%s` option may be given: `asca run -j p.json %s f` must take %s from the file alone, but here what the json stores can still reach the run (e.g. an alias file with an empty @from section falls back to the json's deromanisers)"
                     % (fname, WANT[fname], "-l" if WANT[fname] == "alias" else "-w", "the aliases" if WANT[fname] == "alias" else "the words"))
    if n < 3:
        raise AnchorMissing("CLI-12: %d reads of AscaJson.into/.from/.words in get_input (expected 3)" % n)
    return r


# ---------------------------------------------------------------- CLI-13: a filter starts from the whole rule file

_SRC_PASS = {"clone", "cloned", "unwrap", "expect", "to_vec", "to_owned", "unwrap_or_default", "as_ref", "as_slice", "iter", "into_iter", "collect", "copied", "get",
             "get_mut", "borrow", "as_deref", "unwrap_or_else", "unwrap_or", "ok", "map", "and_then", "into"}


_SRC_THROUGH = set()      # call paths whose first argument is passed through (set by the rule that needs it)


def _value_sources(e, binds, depth=0):
    """terminal producers a value is built from: ("call", path) | ("self", field) | ("param", name) | ("other", what)"""
    e = hirq.strip(e)
    if not isinstance(e, dict) or depth > 16:
        return {("other", "?")}
    k = e.get("e")
    if k == "path":
        if "hid" in e:
            s = binds.src.get(e["hid"])
            if s is None:
                return {("other", "binding `%s`" % e.get("local"))}
            if s[0] == "param":
                return {("param", s[1])}
            if s[0] == "expr":
                return _value_sources(s[1], binds, depth + 1)
            return {("other", "closure argument `%s`" % e.get("local"))}
        return {("other", e.get("path") or "?")}
    if k == "mcall":
        out = set()
        if e["name"] in _SRC_PASS:
            out |= _value_sources(e["recv"], binds, depth + 1)
            for a in e["args"]:
                c = hirq.strip(a)
                if isinstance(c, dict) and c.get("e") == "closure":
                    out |= _value_sources(c["body"], binds, depth + 1)
                elif e["name"] in ("unwrap_or", "unwrap_or_else"):
                    out |= _value_sources(a, binds, depth + 1)
            return out
        return {("call", e.get("def") or e["name"])}
    if k == "call":
        f = hirq.strip(e["f"])
        p = f.get("path") or ""
        if (p in ("core::option::Option::Some", "core::result::Result::Ok") or p.endswith(("Try::branch", "IntoIterator::into_iter", "From::from", "Into::into")) or p in _SRC_THROUGH) and e["args"]:
            return _value_sources(e["args"][0], binds, depth + 1)
        return {("call", p)}
    if k == "match":
        if "TryDesugar" in (e.get("src") or ""):
            return _value_sources(e["scrut"], binds, depth + 1)
        out = set()
        for arm in e["arms"]:
            out |= _value_sources(arm["body"], binds, depth + 1)
        return out
    if k == "if":
        out = _value_sources(e["then"], binds, depth + 1)
        if e.get("else") is not None:
            out |= _value_sources(e["else"], binds, depth + 1)
        return out
    if k == "block":
        return _value_sources(e["tail"], binds, depth + 1) if e.get("tail") is not None else {("other", "()")}
    if k == "field":
        a = hirq.strip(e["a"])
        if a.get("e") == "path" and a.get("local") == "self":
            return {("self", e["name"])}
        return _value_sources(a, binds, depth + 1)
    if k in ("unary", "cast", "index"):
        return _value_sources(e["a"], binds, depth + 1)
    if k in ("ret", "break", "continue"):
        return set()
    if k == "tup":
        out = set()
        for it in e.get("items", []):
            out |= _value_sources(it, binds, depth + 1)
        return out
    if k == "macro" or k == "other":
        return {("other", (e.get("src") or e.get("text") or "expression")[:40])}
    return {("other", k)}


def cli13(ctx):
    """A `!` / `~` filter selects from the rule groups *of the file*: in the config parser's get_entry the list handed to
    parse_entry / Entry::from is what parse_rsca returned for that file -- or a copy kept in a parser field whose every
    insert stores such an unfiltered list. It is never a list that already went through a filter (an Entry's rules)."""
    r = RuleResult("CLI-13", "config::Parser::get_entry: the rule list given to parse_entry / Entry::from comes from parse_rsca (or from a parser field that is only ever filled from parse_rsca), never from an already filtered Entry", floor=2)
    bn = ctx.bin
    b = ctx.fn(bn, "asca_bin::cli::config::parser::Parser::get_entry")
    PARSE = "asca_bin::cli::parse::parse_rsca"
    binds = Bindings(b.hir["body"], b.hir.get("params"))

    def local_ok(path, depth=0):
        """a crate-local function all of whose results come from parse_rsca"""
        cb = next((x for x in bn.bodies if x.path == path and x.hir and x.kind != "closure"), None)
        if cb is None or depth > 2:
            return False
        cbinds = Bindings(cb.hir["body"], cb.hir.get("params"))
        vals = [cb.hir["body"]] + [y["a"] for y in hirq.walk(cb.hir["body"]) if y["e"] == "ret" and y.get("a") is not None and not y.get("exp")]
        srcs = set()
        for v in vals:
            srcs |= _value_sources(v, cbinds)
        return bool(srcs) and all(s == ("call", PARSE) or (s[0] == "call" and s[1].startswith("asca_bin::") and local_ok(s[1], depth + 1)) for s in srcs)

    # the parser fields that cache rule lists, and what is put into them
    field_ok = {}
    for fb in bn.bodies:
        if fb.in_test_mod() or not fb.hir or fb.kind == "closure" or not fb.path.startswith("asca_bin::cli::config::parser::Parser::"):
            continue
        fbinds = None
        for x in hirq.walk(fb.hir["body"]):
            if x["e"] == "mcall" and x["name"] in ("insert", "push", "or_insert", "or_insert_with", "extend") and x["args"]:
                rv = hirq.strip(x["recv"])
                # self.F.insert(k, v) / self.F.entry(k).or_insert(v)
                while rv.get("e") == "mcall" and rv["name"] in ("entry", "get_mut", "unwrap"):
                    rv = hirq.strip(rv["recv"])
                if rv.get("e") == "field" and hirq.strip(rv["a"]).get("local") == "self":
                    fbinds = fbinds or Bindings(fb.hir["body"], fb.hir.get("params"))
                    field_ok.setdefault(rv["name"], []).append((fb, x, _value_sources(x["args"][-1], fbinds)))

    def judge(srcs, seen=()):
        bad = []
        for s in srcs:
            if s == ("call", PARSE):
                continue
            if s[0] == "call" and s[1].startswith("asca_bin::") and local_ok(s[1]):
                continue
            if s[0] == "self" and s[1] in field_ok and s[1] not in seen:
                for fb, x, vs in field_ok[s[1]]:
                    bad += ["%s (stored into self.%s at %s)" % (w, s[1], fn_loc(fb, x.get("ln"))) for w in judge(vs - {("self", s[1])}, seen + (s[1],))]
                continue
            bad.append("%s %s" % s)
        return bad

    n = 0
    for x in hirq.walk(b.hir["body"]):
        arg = None
        if x["e"] == "mcall" and (x.get("def") or "").endswith("Parser::parse_entry") and x["args"]:
            arg, what = x["args"][0], "parse_entry"
        elif x["e"] == "call" and (hirq.strip(x["f"]).get("path") or "").endswith("Entry::from") and len(x["args"]) >= 2:
            arg, what = x["args"][1], "Entry::from"
        if arg is None:
            continue
        n += 1
        bad = judge(_value_sources(arg, binds))
        r.inst("get_entry: the rule list given to %s is the file as parse_rsca read it" % what, fn_loc(b, x.get("ln")), "ok" if not bad else "report")
        if bad:
            r.report("CLI-13|get_entry|%s" % what, fn_loc(b, x.get("ln")), b.path,
                     "the rule list given to %s is not (only) what parse_rsca returned for the file: it is built from %s -- a later reference to the same rule file starts from a list an earlier reference's `!`/`~` filter already reduced, so an unfiltered reference runs only part of the file"
                     % (what, "; ".join(sorted(set(bad)))[:300]))
    if n < 2:
        raise AnchorMissing("CLI-13: %d hand-overs of a rule list in get_entry (expected 2: parse_entry, Entry::from)" % n)
    return r


# ---------------------------------------------------------------- PAN-15: a rejected insertion point still moves the scan on

def pan15(ctx):
    """The insertion scan of SubRule::transform: `while in_bounds(pos) { match insertion_match(word, pos) { Some(ins) => { if
    insertion_match_exceptions(..) { pos.increment(); continue } insert .. } } }`. On the way from a rejected insertion point
    (the exception holds) back to the next insertion_match nothing is inserted, so the only thing that ends the scan is the
    cursor: on every such path `pos` is stepped by SegPos::increment, and it is not assigned anything else (the insertion
    point `ins` may lie at or before `pos` -- `(s-1, len)` for a boundary -- and stepping from it finds the same point again)."""
    from engine_pan import _single_def
    r = RuleResult("PAN-15", "SubRule::transform, insertion scan: between a rejected insertion point and the next trial the cursor is stepped by SegPos::increment and is assigned nothing else", floor=2)
    lib = ctx.lib
    b = ctx.fn(lib, "asca::subrule::SubRule::transform")
    cfg = b.cfg
    calls = list(b.calls())
    M = [i for i, t in calls if (callee_path(t) or "") == "asca::subrule::SubRule::insertion_match"]
    X = [i for i, t in calls if (callee_path(t) or "") == "asca::subrule::SubRule::insertion_match_exceptions"]
    I = {i for i, t in calls if (callee_path(t) or "") == "asca::subrule::SubRule::insert"}
    if len(M) != 1 or not X or not I:
        raise AnchorMissing("PAN-15: transform: insertion_match (%d), insertion_match_exceptions (%d), insert (%d) call sites" % (len(M), len(X), len(I)))
    m = M[0]

    def resolve(l, hops=0):
        d = _single_def(b, l)
        if d is not None and hops < 5:
            if d.get("k") == "use" and d["op"].get("k") in ("copy", "move") and not d["op"]["pl"]["p"]:
                return resolve(d["op"]["pl"]["l"], hops + 1)
            if d.get("k") == "ref" and not d["pl"]["p"]:
                return d["pl"]["l"]
        return l
    t = b.blocks[m]["t"]
    if len(t["args"]) < 3 or t["args"][2].get("k") not in ("copy", "move"):
        raise AnchorMissing("PAN-15: insertion_match is not handed the cursor as a plain local")
    P = resolve(t["args"][2]["pl"]["l"])
    incs = {i for i, tt in calls if (callee_path(tt) or "") == "asca::word::SegPos::increment" and tt["args"] and tt["args"][0].get("k") in ("copy", "move")
            and resolve(tt["args"][0]["pl"]["l"]) == P}
    for x in X:
        start = b.blocks[x]["t"].get("t")
        if start is None:
            continue
        fwd = cfg.reachable_from(start, avoid=I | {m})
        # blocks on a path start -> m that avoids `insert`
        on_path = {y for y in fwd if m in cfg.reachable_from(y, avoid=I)}
        if not on_path:
            r.inst("transform: no way back from insertion_match_exceptions to the next trial without an insertion", fn_loc(b, None), "ok", nontrivial=False)
            continue
        # (a) must pass an increment of the cursor
        skip = cfg.reachable_from(start, avoid=I | incs | {m})
        no_step = any(m in cfg.succ[y] for y in skip if y not in incs)
        if start == m:
            no_step = True
        r.inst("transform: every path from a rejected insertion point to the next insertion_match steps the cursor (SegPos::increment)", fn_loc(b, None), "report" if no_step else "ok")
        if no_step:
            r.report("PAN-15|transform|no-step", fn_loc(b), b.path,
                     "after insertion_match_exceptions answered true the scan can reach the next insertion_match without SegPos::increment on the cursor: the same insertion point is found and rejected again, forever")
        # (b) no other assignment of the cursor
        bad = []
        for y in sorted(on_path):
            for s in b.blocks[y]["s"]:
                if s["k"] == "assign" and s["lhs"]["l"] == P and not s["lhs"]["p"]:
                    bad.append(s.get("loc"))
        r.inst("transform: on that path the cursor is assigned nothing (only stepped)", fn_loc(b, None), "report" if bad else "ok")
        if bad:
            r.report("PAN-15|transform|cursor-assigned", "%s" % (bad[0] or fn_loc(b)).rsplit(":", 1)[0], b.path,
                     "between a rejected insertion point and the next trial the scan cursor is overwritten (not just stepped): resuming from the insertion point -- which for a `$`/`%` context is the end of the previous syllable, at or before the cursor -- finds the very same point again and the scan never ends (`* > e / _$ | _$`)")
    return r


# ---------------------------------------------------------------- TAB-10: two base phones are two different segments

def tab10(ctx):
    """The grapheme table (src/cardinals.json, read into CARDINALS_MAP) gives every base phone its own feature bundle. Two
    graphemes with the same bundle are one segment to the interpreter: a rule about the one rewrites words that only
    contain the other (`ᵐb̪ > x` on `ᵐp̪a`), and the word is printed with the other spelling."""
    r = RuleResult("TAB-10", "src/cardinals.json is injective: no two base phones share one feature bundle (root, manner, laryngeal, place)", floor=300)
    cj = json.loads(ctx.read("src/cardinals.json"))
    # the table must be the one the library reads
    lib = ctx.lib
    src = ctx.read("src/lib.rs") + ctx.read("src/seg.rs") + ctx.read("src/word.rs")
    if "cardinals.json" not in src:
        raise AnchorMissing("TAB-10: src/cardinals.json is not included by the library any more")
    by = {}
    for k, v in cj.items():
        key = (v.get("root"), v.get("manner"), v.get("laryngeal"), v.get("place"))
        by.setdefault(key, []).append(k)
    for k, v in cj.items():
        key = (v.get("root"), v.get("manner"), v.get("laryngeal"), v.get("place"))
        twins = [x for x in by[key] if x != k]
        first = by[key][0] == k
        r.inst("%s has a feature bundle of its own" % k, "src/cardinals.json", "ok" if not twins else "report")
        if twins and first:
            r.report("TAB-10|%s" % "=".join(by[key]), "src/cardinals.json", "CARDINALS_MAP",
                     "the base phones %s have the same feature bundle %s: to the interpreter they are one segment, so a rule about one of them rewrites a word that only contains the other, and the word is printed with the first spelling" % (" and ".join(by[key]), dict(zip(("root", "manner", "laryngeal", "place"), key))))
    if len(cj) < 300:
        raise AnchorMissing("TAB-10: cardinals.json has %d entries (expected >= 300)" % len(cj))
    return r


# ---------------------------------------------------------------- SYN-5: the literal that leaves get_ipa carries its diacritics

def syn5(ctx):
    """`kʷ:[-long]`: get_ipa reads the base phone, applies the diacritics that follow to it, then reads an optional
    parameter list. `Segment` is `Copy`, so a second binding of the bare phone compiles anywhere the decorated one is
    meant. The segment put into every `ParseElement::Ipa(..)` / returned tuple of get_ipa (rule and alias parser) is the
    binding the diacritics were applied to: the receiver of check_and_apply_diacritic, or the result of a local function
    that applies them."""
    r = RuleResult("SYN-5", "get_ipa (rule and alias parser): the Segment handed out is the binding check_and_apply_diacritic was applied to (or the result of a helper that applies it), on the plain path and on the `:[params]` path", floor=4)
    lib = ctx.lib
    n = 0

    def applies(path, depth=0):
        cb = next((x for x in lib.bodies if x.path == path and x.hir and x.kind != "closure"), None)
        if cb is None or depth > 2:
            return False
        for y in hirq.walk(cb.hir["body"]):
            if y["e"] == "mcall" and y["name"] == "check_and_apply_diacritic":
                return True
            if y["e"] == "mcall" and (y.get("def") or "").startswith("asca::") and applies(y["def"], depth + 1):
                return True
        return False

    for path in ("asca::parser::Parser::get_ipa", "asca::alias::parser::AliasParser::get_ipa"):
        b = ctx.fn(lib, path)
        root = b.hir["body"]
        binds = Bindings(root, b.hir.get("params"))
        good = set()
        for y in hirq.walk(root):
            if y["e"] == "mcall" and y["name"] == "check_and_apply_diacritic":
                rv = hirq.strip(y["recv"])
                if rv.get("e") == "path" and "hid" in rv:
                    good.add(rv["hid"])
            if y["e"] == "let" and y.get("init") is not None and y["pat"].get("p") == "bind" and "hid" in y["pat"]:
                for s in _value_sources(y["init"], binds):
                    if s[0] == "call" and s[1].startswith("asca::") and applies(s[1]):
                        good.add(y["pat"]["hid"])
            # `self.apply_diacritics(&mut ipa, pos)?`: a helper that applies them to a segment lent by `&mut`
            if y["e"] in ("mcall", "call"):
                cal = y.get("def") if y["e"] == "mcall" else hirq.strip(y["f"]).get("path")
                if cal and cal.startswith("asca::") and applies(cal):
                    for a_ in y["args"]:
                        a0 = a_
                        if isinstance(a0, dict) and a0.get("e") == "addr" and a0.get("mut"):
                            tgt = hirq.strip(a0["a"])
                            if tgt.get("e") == "path" and "hid" in tgt:
                                good.add(tgt["hid"])
        if not good:
            raise AnchorMissing("SYN-5: %s applies no diacritics (no check_and_apply_diacritic, no helper that does)" % path)

        def hid_of(e, depth=0):
            e = hirq.strip(e)
            if isinstance(e, dict) and e.get("e") == "path" and "hid" in e:
                if e["hid"] in good or depth > 4:
                    return e["hid"]
                s = binds.src.get(e["hid"])
                if s and s[0] == "expr":
                    inner = hirq.strip(s[1])
                    if isinstance(inner, dict) and inner.get("e") == "path" and "hid" in inner:
                        return hid_of(inner, depth + 1)
                return e["hid"]
            return None
        sites = []
        for y in hirq.walk(root):
            if y["e"] == "call" and (hirq.strip(y["f"]).get("path") or "").endswith("ParseElement::Ipa") and y["args"]:
                sites.append((y["args"][0], "ParseElement::Ipa(..)", y.get("ln")))
            if y["e"] == "call" and (hirq.strip(y["f"]).get("path") or "") == "core::result::Result::Ok" and y["args"]:
                t = hirq.strip(y["args"][0])
                if t.get("e") == "tup" and t["items"]:
                    it = hirq.strip(t["items"][0])
                    if (it.get("ty") or "").endswith("seg::Segment"):
                        sites.append((t["items"][0], "Ok((segment, ..))", y.get("ln")))
        for k, (e, what, ln) in enumerate(sites):
            n += 1
            h = hid_of(e)
            ok = h in good
            fn = path.rsplit("::", 2)[-2] + "::get_ipa"
            r.inst("%s: %s #%d hands out the decorated segment" % (fn, what, k), fn_loc(b, ln), "ok" if ok else "report")
            if not ok:
                r.report("SYN-5|%s|#%d" % (fn, k), fn_loc(b, ln), b.path,
                         "the segment put into %s is not the binding the diacritics were applied to (a `Copy` of the bare base phone): `kʷ:[-long]` is parsed as plain `k:[-long]`, so a rule about kʷ rewrites words that only contain k" % what)
    if n < 4:
        raise AnchorMissing("SYN-5: %d hand-overs of a segment in the two get_ipa (expected 4)" % n)
    return r


# ---------------------------------------------------------------- RT-5: diacritics are written in an order that reads back

def rt5(ctx):
    """Segment::get_as_grapheme writes the diacritics of a segment in the order of src/diacritics.json; the word reader
    applies them left to right and checks each diacritic's prerequisites on the segment built so far. So a diacritic D
    that requires `f = v` must come after every diacritic E that can *establish* `f = v` (E's payload sets it and E does
    not itself require it): otherwise a segment that needs E for D's prerequisite is spelled D E, which ASCA rejects."""
    r = RuleResult("RT-5", "src/diacritics.json is ordered so that a diacritic that can establish another's prerequisite is written before it (the renderer writes in table order, the reader checks prerequisites left to right)", floor=15)
    lib = ctx.lib
    dj = json.loads(ctx.read("src/diacritics.json"))
    ctx.fn(lib, "asca::seg::Segment::get_as_grapheme")
    loops, rev = [], []
    for g in lib.bodies:
        # the search may live in a helper of get_as_grapheme: any Segment method that walks the table
        if g.in_test_mod() or not g.hir or not g.path.startswith("asca::seg::"):
            continue
        loops += [x for x in hirq.walk(g.hir["body"]) if x["e"] == "mcall" and x["name"] in ("iter", "into_iter") and "DIACRITS" in json.dumps(x["recv"])[:400]]
        rev += [x for x in hirq.walk(g.hir["body"]) if x["e"] == "mcall" and x["name"] in ("rev", "sort", "sort_by", "sort_by_key") and "DIACRITS" in json.dumps(x)[:2000]]
    if not loops:
        raise AnchorMissing("RT-5: no function of asca::seg iterates DIACRITS any more")
    if rev:
        raise AnchorMissing("RT-5: get_as_grapheme iterates DIACRITS in another order than the table's (%s): the order rule no longer describes it" % rev[0]["name"])
    n = 0
    for j, D in enumerate(dj):
        for f, v in (D.get("prereqs") or {}).items():
            for i, E in enumerate(dj):
                if i == j or (E.get("payload") or {}).get(f) != v or (E.get("prereqs") or {}).get(f) == v:
                    continue
                n += 1
                ok = i < j
                r.inst("`%s` (can establish %s=%s) is written before `%s` (requires it)" % (E["name"], f, v, D["name"]), "src/diacritics.json", "ok" if ok else "report")
                if not ok:
                    r.report("RT-5|%s<%s|%s" % (E["name"], D["name"], f), "src/diacritics.json", "DIACRITS",
                             "`%s` (entry %d) requires %s=%s, which `%s` (entry %d) can establish, but comes first in the table: a segment that needs both is printed base+%s+%s, and ASCA rejects that spelling when it reads it back (the prerequisite is not met yet)"
                             % (D["name"], j, f, str(v).lower(), E["name"], i, D["diacrit"], E["diacrit"]))
    if n < 15:
        raise AnchorMissing("RT-5: %d (provider, dependent) pairs in diacritics.json (expected >= 15)" % n)
    r.analysed = {"pairs": n, "diacritics": len(dj)}
    return r



# ---------------------------------------------------------------- RT-6: a diacritic is offered only if the reader will accept it

def rt6(ctx):
    """The renderer's diacritic search: `for (cand_seg, ..) in candidates { let mut buf_seg = cand_seg; for d in DIACRITS { if
    self.match_modifiers(&d.prereqs) .. { buf_seg.apply_diacritic_payload(..) .. } } }`. The reader checks a diacritic's
    prerequisites on the segment built so far, which ends as `self`. The search therefore tests them on the target
    (`self`) or on the running segment (`buf_seg`, the binding the payloads are applied to) -- never on the loop-invariant
    base candidate, whose voicing / syllabicity an earlier diacritic of the same spelling may already have changed."""
    r = RuleResult("RT-6", "renderer's diacritic search: prerequisites are tested on the target segment or on the running segment, not on the unmodified base candidate", floor=1)
    lib = ctx.lib
    n = 0
    for g in lib.bodies:
        if g.in_test_mod() or not g.hir or g.kind == "closure" or not g.path.startswith("asca::seg::"):
            continue
        running = set()
        for x in hirq.walk(g.hir["body"]):
            if x["e"] == "mcall" and x["name"] in ("apply_diacritic_payload", "check_and_apply_diacritic"):
                rv = hirq.strip(x["recv"])
                if rv.get("e") == "path" and "hid" in rv:
                    running.add(rv["hid"])
        k = 0
        for x in hirq.walk(g.hir["body"]):
            if x["e"] == "mcall" and x["name"] == "match_modifiers" and x["args"] and any(y["e"] == "field" and y["name"] == "prereqs" for y in hirq.walk(x["args"][0])):
                if not running:
                    continue
                n += 1
                rv = hirq.strip(x["recv"])
                while isinstance(rv, dict) and rv.get("e") == "unary" and rv.get("op") == "Deref":
                    rv = hirq.strip(rv["a"])
                ok = rv.get("e") == "path" and (rv.get("local") == "self" or rv.get("hid") in running)
                r.inst("%s: prerequisites #%d are tested on `%s`" % (g.path.rsplit("::", 1)[-1], k, rv.get("local") or rv.get("e")), fn_loc(g, x.get("ln")), "ok" if ok else "report")
                if not ok:
                    r.report("RT-6|%s|#%d" % (g.path.rsplit("::", 1)[-1], k), fn_loc(g, x.get("ln")), g.path,
                             "the diacritic search tests a diacritic's prerequisites on `%s`, which is neither the segment being spelled nor the running segment the payloads are applied to: when an earlier diacritic of the spelling changes voicing or syllabicity, the member of a conditioned pair (ᵡ/ʶ, ˢ/ᶻ) that fits the *base* is written, and the reader rejects it (`n̥ᵡ` comes out as `n̥ʶ`)" % (rv.get("local") or "an expression"))
                k += 1
    if n < 1:
        raise AnchorMissing("RT-6: no prerequisite test found in the renderer's diacritic search")
    return r


# ---------------------------------------------------------------- PUR-7: the words go through the pipeline as one list, unedited

def pur7(ctx):
    """asca::run is `parse_phrases(words) -> apply_rule_groups -> phrases_to_string`, and what it returns IS the list
    phrases_to_string made. The list given to parse_phrases is the caller's word list itself, the applier gets what the
    parser returned, the renderer gets what the applier returned: no stage in between filters, pads or re-aligns lines
    (a filter on one side and a merge on the other never agree on every line -- `" "` vs `""`)."""
    r = RuleResult("PUR-7", "asca::run: parse_phrases gets the caller's word list itself, apply_rule_groups what parse_phrases returned, phrases_to_string what apply_rule_groups returned, and run returns that list itself", floor=4)
    lib = ctx.lib
    b = ctx.fn(lib, "asca::run")
    root = b.hir["body"]
    binds = Bindings(root, b.hir.get("params"))
    pnames = b.param_names or []
    n = 0

    def site(path):
        xs = [x for x in hirq.walk(root) if x["e"] == "call" and (hirq.strip(x["f"]).get("path") or "") == path]
        if len(xs) != 1:
            raise AnchorMissing("PUR-7: asca::run calls %s %d times (expected once)" % (path, len(xs)))
        return xs[0]

    def judge(what, expr, want, ln):
        nonlocal n
        n += 1
        srcs = _value_sources(expr, binds)
        ok = srcs == {want}
        r.inst("run: %s comes from %s only" % (what, want[1]), fn_loc(b, ln), "ok" if ok else "report")
        if not ok:
            extra = sorted("%s %s" % s for s in srcs if s != want)
            r.report("PUR-7|run|%s" % what.split(" ")[0], fn_loc(b, ln), b.path,
                     "%s is not simply %s: it is built from %s -- lines are dropped, padded or re-aligned between the stages, so entry i of the result is no longer the result of line i (a blank-line filter before parsing and a merge after rendering disagree on a line of spaces)"
                     % (what, want[1], ", ".join(extra)[:300] or "nothing traceable"))
    pp = site("asca::parse_phrases")
    ap = site("asca::apply_rule_groups")
    ps = site("asca::phrases_to_string")
    words_param = pnames[1] if len(pnames) > 1 else None
    judge("parse_phrases' word list", pp["args"][0], ("param", words_param), pp.get("ln"))
    judge("apply_rule_groups' phrases", ap["args"][1], ("call", "asca::parse_phrases"), ap.get("ln"))
    judge("phrases_to_string's phrases", ps["args"][0], ("call", "asca::apply_rule_groups"), ps.get("ln"))
    # the returned list
    rets = [root] + [y["a"] for y in hirq.walk(root) if y["e"] == "ret" and y.get("a") is not None and not y.get("exp")]
    n += 1
    srcs = set()
    for v in rets:
        srcs |= _value_sources(v, binds)
    ok = srcs == {("call", "asca::phrases_to_string")}
    r.inst("run: the returned list is the one phrases_to_string made", fn_loc(b), "ok" if ok else "report")
    if not ok:
        extra = sorted("%s %s" % s for s in srcs if s != ("call", "asca::phrases_to_string"))
        r.report("PUR-7|run|returned", fn_loc(b), b.path,
                 "asca::run does not return the list phrases_to_string made but one built from %s: entry i of the result is no longer tied to line i of the input (re-inserting skipped blank lines by a second, different blank test shifts every later word)" % (", ".join(extra)[:300] or "nothing traceable"))
    return r


# ---------------------------------------------------------------- SUP-9: every length change is booked, whatever its sign

def sup9(ctx):
    """SubRule::substitution edits several segments of one syllable in turn and keeps `total_len_change[syll]` so that the
    index of a later target accounts for copies inserted or removed by an earlier output element. Every call that returns
    a length change (`apply_seg_mods`, `replace_segment`, `insert_segment`) has its result added to that table
    unconditionally -- as the next thing in the same block, not under a test of its sign: a shortening that is not
    booked leaves every later index of the syllable one too far."""
    r = RuleResult("SUP-9", "SubRule::substitution: the length change returned by apply_seg_mods / replace_segment / insert_segment is added to total_len_change unconditionally (a direct statement of the same block)", floor=6)
    lib = ctx.lib
    b = ctx.fn(lib, "asca::subrule::SubRule::substitution")
    root = b.hir["body"]
    par = hirq.parent_map(root)
    LC = ("::apply_seg_mods", "::replace_segment", "::insert_segment")
    # the table: a local Vec<i8> indexed and add-assigned
    tables = {hirq.strip(x["lhs"]["a"]).get("local") for x in hirq.walk(root)
              if x["e"] == "assignop" and x.get("op") in ("Add", "AddAssign") and hirq.strip(x["lhs"]).get("e") == "index" and (hirq.strip(x["lhs"]).get("of_ty") or "").endswith("Vec<i8>")}
    tables.discard(None)
    if not tables:
        raise AnchorMissing("SUP-9: substitution keeps no Vec<i8> table of length changes any more")

    def is_book(st, name=None, call=None):
        st = hirq.strip(st)
        if st.get("e") != "assignop" or st.get("op") not in ("Add", "AddAssign"):
            return False
        lhs = hirq.strip(st["lhs"])
        if lhs.get("e") != "index" or hirq.strip(lhs["a"]).get("local") not in tables:
            return False
        if call is not None:
            return any(y is call for y in hirq.walk(st["rhs"]))
        rhs = hirq.strip(st["rhs"])
        return rhs.get("e") == "path" and rhs.get("local") == name
    n = 0
    k = 0
    for x in hirq.walk(root):
        if x["e"] != "mcall" or not (x.get("def") or "").endswith(LC) or not (x.get("ty") or "").startswith("core::result::Result<i8"):
            continue
        # only where a later target of the same match still reads the table: inside a loop that indexes it for reading
        lp = par.get(id(x))
        while lp is not None and lp.get("e") != "loop":
            lp = par.get(id(lp))
        if lp is None:
            continue
        lhs_ids = {id(hirq.strip(y["lhs"])) for y in hirq.walk(lp) if y["e"] in ("assignop", "assign")}
        reads = any(y["e"] == "index" and hirq.strip(y["a"]).get("local") in tables and id(y) not in lhs_ids for y in hirq.walk(lp))
        # ... or hands it to a helper that does (`Self::adjust_for_len_change(&mut sp, &total_len_change)`)
        reads = reads or any(y["e"] in ("call", "mcall") and any(hirq.strip(a_).get("e") == "path" and hirq.strip(a_).get("local") in tables for a_ in y["args"]) for y in hirq.walk(lp))
        if not reads:
            continue
        n += 1
        # climb out of the `?`
        cur = x
        p = par.get(id(cur))
        while p is not None and (p.get("e") == "match" and "TryDesugar" in str(p.get("src")) or p.get("e") == "call" and "Try::branch" in (hirq.strip(p["f"]).get("path") or "")):
            cur, p = p, par.get(id(p))
        ok = False
        why = "its result is neither bound nor added to the table"
        if p is not None and p.get("e") == "assignop" and is_book(p, call=x):
            ok = True
        elif p is not None and p.get("e") == "let" and p["pat"].get("p") == "bind":
            name = p["pat"]["name"]
            blk = par.get(id(p))
            if blk is not None and blk.get("e") == "block":
                after = hirq.stmts_after(blk, p)
                ok = any(is_book(st, name=name) for st in after)
                if not ok:
                    nested = any(is_book(y, name=name) for st in after for y in hirq.walk(st))
                    why = "`%s` is added to the table only under a condition" % name if nested else "`%s` is never added to the table" % name
        callee = (x.get("def") or "").rsplit("::", 1)[-1]
        r.inst("substitution: length change of %s #%d is booked unconditionally" % (callee, k), fn_loc(b, x.get("ln")), "ok" if ok else "report")
        if not ok:
            r.report("SUP-9|substitution|%s#%d" % (callee, k), fn_loc(b, x.get("ln")), b.path,
                     "the length change returned by %s is not booked on every path (%s): after a shortening (`V:[+long] C > [-long] [+long]` on `taːks`) the next output element of the same syllable is applied one segment too far" % (callee, why))
        k += 1
    if n < 6:
        raise AnchorMissing("SUP-9: %d length-changing calls found in substitution (expected >= 6)" % n)
    return r


# ---------------------------------------------------------------- ENV-8: the mirrored word is the word

def env8(ctx):
    """Before-contexts are matched on `Word::reverse()`, a mirror image of the word. Whatever a context element can test
    or capture (`%=1 _`, `%:[tone: 51] _`) it tests on the mirror, so the mirror carries every field of every syllable:
    it is made from a clone of the word / of each syllable, or every field of `Syllable` is filled from the source."""
    r = RuleResult("ENV-8", "Word::reverse mirrors the whole word: it starts from a clone (of the word or of each syllable) or fills every field of Syllable (segments, stress, tone) and of Word from the source", floor=1)
    lib = ctx.lib
    b = ctx.fn(lib, "asca::word::Word::reverse")
    root = b.hir["body"]
    sy = lib.adts.get("asca::syll::Syllable")
    wd = lib.adts.get("asca::word::Word")
    if not sy or not wd:
        raise AnchorMissing("ENV-8: Syllable / Word type not found")
    syll_fields = {f["name"] for f in sy["variants"][0]["fields"]}
    word_fields = {f["name"] for f in wd["variants"][0]["fields"]}
    clones_word = any(x["e"] == "mcall" and x["name"] == "clone" and (x.get("rty") or "").lstrip("&").endswith("word::Word") for x in hirq.walk(root))
    clones_syll = any(x["e"] == "mcall" and x["name"] in ("clone", "cloned", "to_vec", "to_owned") and "syll::Syllable" in (x.get("rty") or "") + (x.get("ty") or "") for x in hirq.walk(root))
    problems = []
    if not clones_word:
        # a Word literal must name every field (or have a base)
        lits = [x for x in hirq.walk(root) if x["e"] == "struct" and (x.get("path") or "").endswith(("word::Word", "Self"))]
        for x in lits:
            given = {f[0] for f in x.get("fields", [])}
            if x.get("base") is None and not word_fields <= given:
                problems.append("the Word literal leaves out %s" % sorted(word_fields - given))
        if not clones_syll:
            given = set()
            for x in hirq.walk(root):
                if x["e"] == "assign":
                    l = hirq.strip(x["lhs"])
                    if l.get("e") == "field" and (l.get("of_ty") or "").lstrip("&").replace("mut ", "").endswith("syll::Syllable"):
                        given.add(l["name"])
                if x["e"] == "struct" and (x.get("path") or "").endswith("syll::Syllable"):
                    given |= syll_fields if x.get("base") is not None else {f[0] for f in x.get("fields", [])}
            if not syll_fields <= given:
                problems.append("a mirrored syllable is built without its %s" % ", ".join("`%s`" % f for f in sorted(syll_fields - given)))
    # no field of the mirror is reset afterwards
    for x in hirq.walk(root):
        if x["e"] == "assign":
            l = hirq.strip(x["lhs"])
            rhs = hirq.strip(x["rhs"])
            if l.get("e") == "field" and l["name"] in ("stress", "tone") and rhs.get("e") in ("lit", "path") and not rhs.get("local"):
                problems.append("`.%s` of the mirror is overwritten with a constant" % l["name"])
    ok = not problems
    r.inst("Word::reverse: %s" % ("clones the word" if clones_word else "clones each syllable" if clones_syll else "fills every field of the mirrored syllables"), fn_loc(b), "ok" if ok else "report")
    if not ok:
        r.report("ENV-8|Word::reverse", fn_loc(b), b.path,
                 "the mirrored word that before-contexts are matched on is not a full mirror: %s -- a syllable variable bound in a before-context (`%%=1 _`) captures a syllable without that field, and a context test of it (`%%:[tone: 51] _`) fails on every word" % "; ".join(problems))
    return r


# ---------------------------------------------------------------- TAB-11: [-place] removes the whole place

def tab11(ctx):
    """`[-place]` (debuccalisation) leaves a segment with no place node. In Segment::apply_seg_mods and in the deromaniser's
    twin the arm for `NodeKind::Place` of the Negative branch assigns `None` to the whole place, or clears every one of
    the four sub-nodes."""
    r = RuleResult("TAB-11", "[-place] clears the whole place: the NodeKind::Place arm of the negative branch assigns None to the place (or clears all four sub-nodes)", floor=2)
    lib = ctx.lib
    SUBS = {"Labial", "Coronal", "Dorsal", "Pharyngeal"}
    NK = "asca::seg::NodeKind::"
    n = 0
    for path in ("asca::seg::Segment::apply_seg_mods", "asca::word::Word::alias_apply_mods"):
        b = ctx.fn(lib, path)
        for m in hirq.matches(b):
            if not (m.get("sty") or "").lstrip("&").endswith("seg::NodeKind"):
                continue
            arms = [a for a in m["arms"] if any((p.get("path") or "") == NK + "Place" for p in hirq.flat_pats(a["pat"]))]
            for arm in arms:
                body = arm["body"]
                if any(y["e"] == "ret" for y in hirq.walk(body)) or hirq.is_panic_expr(hirq.strip(body)):
                    continue          # the [+place] arm: an error
                n += 1
                whole = False
                for y in hirq.walk(body):
                    if y["e"] == "assign":
                        l = hirq.strip(y["lhs"])
                        while isinstance(l, dict) and l.get("e") == "unary" and l.get("op") == "Deref":
                            l = hirq.strip(l["a"])
                        rhs = hirq.strip(y["rhs"])
                        if l.get("e") == "field" and l["name"] == "place" and ((rhs.get("path") or "").endswith("Option::None") or (rhs.get("e") == "call" and (hirq.strip(rhs["f"]).get("path") or "").endswith(("Place::default", "Default::default")))):
                            whole = True
                named = {(y.get("path") or "")[len(NK):] for y in hirq.walk(body) if y["e"] == "path" and (y.get("path") or "").startswith(NK)}
                ok = whole or SUBS <= named
                fn = path.rsplit("::", 1)[-1]
                r.inst("%s: the [-place] arm %s" % (fn, "assigns None to the place" if whole else "clears the sub-nodes %s" % sorted(named & SUBS)), fn_loc(b, arm.get("ln")), "ok" if ok else "report")
                if not ok:
                    r.report("TAB-11|%s" % fn, fn_loc(b, arm.get("ln")), path,
                             "[-place] does not remove the whole place: the arm clears %s only, so the %s sub-node (and its features) survives debuccalisation -- `C > [-place]` leaves ħ, ʕ, tˤ with a place, still matching [+phr] / [+rtr] and not [-place]"
                             % (sorted(named & SUBS) or "nothing", ", ".join(sorted(SUBS - named))))
    if n < 2:
        raise AnchorMissing("TAB-11: %d [-place] arms found (expected 2: Segment::apply_seg_mods, Word::alias_apply_mods)" % n)
    return r


# ---------------------------------------------------------------- ENV-9: every member of an environment set is tried

def env9(ctx):
    """`/ :{ _, a_ }:` -- a rule fires where ANY member of its environment set holds, and is blocked where any member of
    its exception set holds. SubRule::get_contexts / get_exceptions hand every member of the parsed set to the matcher,
    in order: their iterator chains only map (no filter / skip / take / dedup / rev), and the two are the same code."""
    from engine_pur import ORDER_BREAKING
    r = RuleResult("ENV-9", "SubRule::get_contexts / get_exceptions return every member of the environment set, in order (count- and order-preserving adaptors only; the two siblings use the same chain)", floor=2)
    lib = ctx.lib
    chains = {}
    for nm in ("get_contexts", "get_exceptions"):
        b = ctx.fn(lib, "asca::subrule::SubRule::" + nm)
        names = [x["name"] for x in hirq.walk(b.hir["body"]) if x["e"] == "mcall"]
        chains[nm] = names
        bad = sorted(set(n for n in names if n in ORDER_BREAKING or n in ("retain", "truncate", "pop", "remove", "drain", "find", "position", "nth", "last", "first", "next")))
        loops = [x for x in hirq.walk(b.hir["body"]) if x["e"] == "loop"]
        exits = [x for x in hirq.walk(b.hir["body"]) if x["e"] in ("continue", "break")] if loops else []
        ok = not bad and not exits
        r.inst("%s: every member is returned (%s)" % (nm, "/".join(names) or "no adaptor"), fn_loc(b), "ok" if ok else "report")
        if not ok:
            r.report("ENV-9|%s" % nm, fn_loc(b), b.path,
                     "%s does not hand every member of the environment set to the matcher (%s): a member that is dropped -- e.g. the bare `_` of `:{ _, a_ }:`, the always-true alternative -- silently narrows where the rule applies" % (nm, ", ".join(bad) or "a loop with continue/break"))
    same = chains["get_contexts"] == chains["get_exceptions"]
    r.inst("get_contexts and get_exceptions build their lists the same way", fn_loc(ctx.fn(lib, "asca::subrule::SubRule::get_contexts")), "ok" if same else "report")
    if not same:
        r.report("ENV-9|siblings", fn_loc(ctx.fn(lib, "asca::subrule::SubRule::get_contexts")), "asca::subrule::SubRule::get_contexts",
                 "get_contexts builds its list with %s, get_exceptions with %s: a context set and an exception set written the same way are read differently" % ("/".join(chains["get_contexts"]), "/".join(chains["get_exceptions"])))
    return r


# ---------------------------------------------------------------- VAR-5: the direction-adjusted copy is the one compared

def var5(ctx):
    """Before-contexts are matched on the mirrored word, so a matcher that compares captured material with the word first
    makes a direction-adjusted copy: `let segs = if forwards { x.segments.clone() } else { reversed clone }`. Having made
    it, every comparison in that function uses the copy; comparing the raw `x.segments` again is right only when matching
    forwards (a contradiction in the function's own beliefs)."""
    r = RuleResult("VAR-5", "a matcher that builds a direction-adjusted copy (`if forwards { x.clone() } else { reversed }`) compares that copy, never the raw value again", floor=1)
    lib = ctx.lib
    n = 0

    def canon(e):
        e = hirq.strip(e)
        while isinstance(e, dict) and (e.get("e") == "mcall" and e["name"] in ("clone", "to_owned", "iter", "as_ref") and not e["args"] or e.get("e") == "unary" and e.get("op") == "Deref"):
            e = hirq.strip(e["recv"] if e.get("e") == "mcall" else e["a"])
        if not isinstance(e, dict):
            return None
        if e.get("e") == "path" and "local" in e:
            return e["local"]
        if e.get("e") == "field":
            c = canon(e["a"])
            return None if c is None else c + "." + e["name"]
        return None

    for b in lib.bodies:
        if b.in_test_mod() or not b.hir or b.kind == "closure" or not b.path.startswith("asca::subrule::SubRule::") or "forwards" not in (b.param_names or []):
            continue
        root = b.hir["body"]
        for x in hirq.walk(root):
            if x["e"] != "let" or x.get("init") is None or x["pat"].get("p") != "bind":
                continue
            init = hirq.strip(x["init"])
            if init.get("e") != "if" or init.get("else") is None:
                continue
            if not any(y["e"] == "path" and y.get("local") == "forwards" for y in hirq.walk(init["cond"])):
                continue
            # one branch is the plain value, the other one reverses it
            def plain(br):
                br = hirq.strip(br)
                if br.get("e") == "block" and br.get("stmts"):
                    return None
                return canon(br)
            raws = {plain(init["then"]), plain(init["else"])} - {None}
            rev = any(y["e"] == "mcall" and y["name"] in ("reverse", "rev") for y in hirq.walk(init))
            if len(raws) != 1 or not rev:
                continue
            raw = raws.pop()
            copy = x["pat"]["name"]
            n += 1
            bad = []
            for y in hirq.walk(root):
                if y["e"] == "binary" and y["op"] in ("Eq", "Ne") and raw in (canon(y["a"]), canon(y["b"])):
                    bad.append(y)
            short = b.path.rsplit("::", 1)[-1]
            r.inst("%s: `%s` is the direction-adjusted copy of `%s`; comparisons use the copy" % (short, copy, raw), fn_loc(b, x.get("ln")), "ok" if not bad else "report")
            for k, y in enumerate(bad):
                r.report("VAR-5|%s|%s#%d" % (short, raw, k), fn_loc(b, y.get("ln")), b.path,
                         "`%s` is compared directly although the function made the direction-adjusted copy `%s` of it: in a before-context (matched on the mirrored word) the raw value only equals a palindrome -- `%%=1 > * / 1:[-stress] _` never fires on `ka.ka.ta`" % (raw, copy))
    if n < 1:
        raise AnchorMissing("VAR-5: no direction-adjusted copy (`if forwards { .. } else { reversed }`) found in SubRule")
    return r


# ---------------------------------------------------------------- PAN-16: a search restarted from its own result makes progress

def pan16(ctx):
    """SubRule::insertion_between: `'outer: while in_bounds(start) { match insertion_after(bef, word, start) { Some(ins) => {
    start = ins; .. if the after-context fails { continue 'outer } .. } } }`. The search for the before-context is restarted
    from its own result. When the before-context can match without consuming anything (an optional), `ins == start`, and
    the restarted search is the same search: the loop never ends (`* > e / (C)_a` on `kta`). Every path from the
    re-seeding `start = ins` back to the loop head therefore steps the cursor (SegPos::increment), or passes a comparison
    of the cursor with another position (the progress test that guards the step)."""
    from engine_pan import _single_def
    r = RuleResult("PAN-16", "SubRule::insertion_between: between re-seeding the search cursor from the search's own result and the next round, the cursor is stepped or compared with its previous value on every path", floor=1)
    lib = ctx.lib
    b = ctx.fn(lib, "asca::subrule::SubRule::insertion_between")
    cfg = b.cfg
    calls = list(b.calls())
    S = [(i, t) for i, t in calls if (callee_path(t) or "") == "asca::subrule::SubRule::insertion_after"]
    if not S or not cfg.loops:
        raise AnchorMissing("PAN-16: insertion_between has no loop around insertion_after any more")

    def resolve(l, hops=0):
        d = _single_def(b, l)
        if d is not None and hops < 5:
            if d.get("k") == "use" and d["op"].get("k") in ("copy", "move") and not d["op"]["pl"]["p"]:
                return resolve(d["op"]["pl"]["l"], hops + 1)
            if d.get("k") == "ref" and not d["pl"]["p"]:
                return d["pl"]["l"]
        return l
    si, st = S[0]
    loops = [(h, set(body)) for h, body in cfg.loops if si in body]
    if not loops:
        raise AnchorMissing("PAN-16: the call of insertion_after is not inside a loop")
    h, body = max(loops, key=lambda x: len(x[1]))
    # the cursor: the last argument of insertion_after
    a = st["args"][-1]
    if a.get("k") not in ("copy", "move"):
        raise AnchorMissing("PAN-16: insertion_after is not handed a cursor local")
    C = resolve(a["pl"]["l"])
    # re-seedings of the cursor inside the loop
    seeds = []
    for bi in sorted(body):
        for s in b.blocks[bi]["s"]:
            if s["k"] == "assign" and s["lhs"]["l"] == C and not s["lhs"]["p"]:
                seeds.append((bi, s))
    steps = set()
    for i, t in calls:
        p = callee_path(t) or ""
        if p == "asca::word::SegPos::increment" and t["args"] and t["args"][0].get("k") in ("copy", "move") and resolve(t["args"][0]["pl"]["l"]) == C:
            steps.add(i)
        if p.endswith(("PartialEq>::eq", "PartialEq>::ne", "PartialOrd>::lt", "PartialOrd>::gt", "PartialOrd>::le", "PartialOrd>::ge")) and any(
                x.get("k") in ("copy", "move") and resolve(x["pl"]["l"]) == C for x in t["args"]):
            steps.add(i)
    n = 0
    for bi, s in seeds:
        n += 1
        reach = cfg.reachable_from(bi, avoid=steps)
        bad = [u for u in reach if u in body and h in cfg.succ[u] and u not in steps]
        # bi itself may be a step block only if the step follows the assignment; being conservative is fine here
        ok = not bad
        r.inst("insertion_between: after `%s = <result of the search>` the cursor is stepped or compared before the next round" % (b.local_name(C) or "cursor"), ":".join((s.get("loc") or b.loc).split(":")[:2]), "ok" if ok else "report")
        if not ok:
            r.report("PAN-16|insertion_between|reseed", ":".join((s.get("loc") or b.loc).split(":")[:2]), b.path,
                     "the search for the before-context is restarted from its own result without any step or progress test: when the before-context matches the empty string (an optional, `(C)`), the result equals the start and the loop repeats the same search forever -- `* > e / (C)_a` on `kta` does not return")
    if n < 1:
        raise AnchorMissing("PAN-16: the cursor of insertion_between is never re-seeded inside the loop")
    return r


# ---------------------------------------------------------------- SYN-6: the word reader never looks behind its cursor

def syn6(ctx, unit=None, prefix="asca::word::Word::", floor=12):
    """The word reader turns text into segments left to right. What lies behind the cursor has already become segments;
    how it was *spelled* (a length mark or a doubled letter, `:` or `ː`, an input alias or the IPA letter) must not
    matter any more. No index into the text in Word::fill_segments / Word::setup subtracts from the cursor."""
    r = RuleResult("SYN-6", "Word::fill_segments / Word::setup: no read of the input text at an index behind the cursor (`txt[j - 1]`, `.get(i - k)`): the spelling of what was already read is not consulted again", floor=floor)
    lib = unit or ctx.lib
    n = 0

    def looks_back(ix):
        for y in hirq.walk(ix):
            if y["e"] == "binary" and y["op"] == "Sub":
                return True
            if y["e"] == "mcall" and y["name"] in ("saturating_sub", "checked_sub", "wrapping_sub"):
                return True
        return False
    for b in lib.bodies:
        if b.in_test_mod() or not b.hir or b.kind == "closure" or not b.path.startswith(prefix):
            continue
        k = 0
        for x in hirq.walk(b.hir["body"]):
            ix = None
            if x["e"] == "index" and "char" in (x.get("of_ty") or ""):
                ix = x["i"]
            elif x["e"] == "mcall" and x["name"] in ("get", "get_unchecked", "nth") and "char" in (x.get("rty") or "") and x["args"]:
                ix = x["args"][0]
            if ix is None:
                continue
            n += 1
            bad = looks_back(ix)
            short = b.path.rsplit("::", 1)[-1]
            r.inst("%s: text read #%d is at or ahead of the cursor" % (short, k), fn_loc(b, x.get("ln")), "report" if bad else "ok")
            if bad:
                r.report("SYN-6|%s|#%d" % (short, k), fn_loc(b, x.get("ln")), b.path,
                         "the word reader reads the text *behind* its cursor: what stands there was already turned into segments, so the result now depends on how it was spelled -- `tːʰ` (length mark) and `ttʰ` (doubled letter), documented as the same word, parse differently")
            k += 1
    if n < floor:
        raise AnchorMissing("SYN-6: %d reads of the input text found in Word::fill_segments / setup (expected >= %d)" % (n, floor))
    return r



# ---------------------------------------------------------------- CLI-14: files are read as they are, the alias file is the one named

def cli14(ctx):
    """(a) `util::file_read`, the one reader behind the .rsca / .wsca / .alias / config parsers, returns what
    `fs::read_to_string` gave, verbatim: the parsers are line- and blank-line-sensitive, so a rewrite of the text (CR to
    LF turns every CRLF into a blank line) changes what every file means. (b) The path handed to `parse_alias` in
    `run::get_input` and `convert::from_asca` comes from the `-l` / `-a` option alone (through `util::validate`): without
    the option there are no aliases -- not whatever `.alias` file happens to lie in the working directory."""
    global _SRC_THROUGH
    r = RuleResult("CLI-14", "cli::util::file_read returns fs::read_to_string's text verbatim; the alias file parsed by run / conv asca is the one named by the option, nothing else", floor=3)
    bn = ctx.bin
    b = ctx.fn(bn, "asca_bin::cli::util::file_read")
    binds = Bindings(b.hir["body"], b.hir.get("params"))
    rets = [b.hir["body"]] + [y["a"] for y in hirq.walk(b.hir["body"]) if y["e"] == "ret" and y.get("a") is not None and not y.get("exp")]
    srcs = set()
    for v in rets:
        srcs |= _value_sources(v, binds)
    # the error arm: Err(map_io_error(e)) is a call of a local function; only the Ok payload matters
    oks = set()
    for y in hirq.walk(b.hir["body"]):
        if y["e"] == "call" and (hirq.strip(y["f"]).get("path") or "") == "core::result::Result::Ok" and y["args"]:
            oks |= _value_sources(y["args"][0], binds)
    good = {s for s in oks if s[0] == "call" and s[1].endswith("fs::read_to_string")}
    ok = bool(oks) and oks == good
    r.inst("file_read: the text returned is fs::read_to_string's result, unedited", fn_loc(b), "ok" if ok else "report")
    if not ok:
        r.report("CLI-14|file_read", fn_loc(b), b.path,
                 "file_read does not return the file's text verbatim (built from %s): every reader is line-oriented and blank lines carry meaning (a blank line ends a described rule group, is filed as an empty alias, is an empty word), so e.g. turning CR into LF makes every CRLF file parse to different words, rules and aliases"
                 % ", ".join(sorted("%s %s" % s_ for s_ in oks - good)) or "nothing traceable")
    _SRC_THROUGH = {"asca_bin::cli::util::validate"}
    try:
        n = 0
        for path in ("asca_bin::cli::run::get_input", "asca_bin::cli::convert::from_asca"):
            f = ctx.fn(bn, path)
            fb = Bindings(f.hir["body"], f.hir.get("params"))
            pn = [p for p in (f.param_names or []) if p == "alias"]
            if not pn:
                raise AnchorMissing("CLI-14: %s has no `alias` parameter" % path)
            for y in hirq.walk(f.hir["body"]):
                if y["e"] == "call" and (hirq.strip(y["f"]).get("path") or "").endswith("parse::parse_alias") and y["args"]:
                    n += 1
                    ss = _value_sources(y["args"][0], fb)
                    ok = ss == {("param", "alias")}
                    short = path.rsplit("::", 1)[-1]
                    r.inst("%s: the alias file parsed is the one the option names" % short, fn_loc(f, y.get("ln")), "ok" if ok else "report")
                    if not ok:
                        r.report("CLI-14|%s|alias-path" % short, fn_loc(f, y.get("ln")), path,
                                 "the path given to parse_alias is not just the `alias` option (it is built from %s): without the option a stray `.alias` file of the working directory is picked up, so `conv json` (which writes no alias file for a project without aliases) followed by `conv asca` no longer reproduces the project"
                                 % ", ".join(sorted("%s %s" % s_ for s_ in ss if s_ != ("param", "alias"))))
        if n < 3:
            raise AnchorMissing("CLI-14: %d calls of parse_alias in get_input / from_asca (expected 3)" % n)
    finally:
        _SRC_THROUGH = set()
    return r


# ---------------------------------------------------------------- CLI-15: "the original" words / aliases are the root's

def cli15(ctx):
    """`conv tag --recurse` exports the history of a tag: the rule files of all its ancestors, run on the ROOT tag's words
    with the ROOT tag's deromanisers. seq::get_orig_words / get_orig_alias_into read `.words` / `.alias` of a config
    only where that same config's `from` is known to be None (the else of `if let Some(..) = &c.from`, or after a
    `while let Some(..) = &c.from` walk) -- one `%` hop is not the root."""
    r = RuleResult("CLI-15", "seq::get_orig_words / get_orig_alias_into read a config's words / alias only where that config has no `%` reference (it is the root)", floor=2)
    bn = ctx.bin
    n = 0
    for fn_, field in (("asca_bin::cli::seq::get_orig_words", "words"), ("asca_bin::cli::seq::get_orig_alias_into", "alias")):
        b = ctx.fn(bn, fn_)
        # private helpers of the module that are handed the config are read in place (`append_conf_words(dir, conf, ..)`)
        root = hirq.inline_helpers(bn, b, keep={fn_}, prefixes=("asca_bin::cli::seq::",), max_depth=2)
        par = hirq.parent_map(root)
        renames = {}
        for y in hirq.walk(root):
            if y["e"] == "let" and y.get("inl_param") and y["pat"].get("p") == "bind":
                i0 = hirq.strip(y["init"])
                while isinstance(i0, dict) and i0.get("e") == "addr":
                    i0 = hirq.strip(i0["a"])
                if isinstance(i0, dict) and i0.get("e") == "path" and "local" in i0:
                    renames[y["pat"]["name"]] = i0["local"]

        def base_of(e):
            e = hirq.strip(e)
            while isinstance(e, dict) and e.get("e") in ("unary",) and e.get("op") == "Deref":
                e = hirq.strip(e["a"])
            if isinstance(e, dict) and e.get("e") == "path" and "local" in e:
                nm = e["local"]
                for _ in range(3):
                    nm = renames.get(nm, nm)
                return (nm,)
            return None

        def from_test_base(cond):
            c = hirq.strip(cond)
            if c.get("e") != "letcond":
                return None, None
            init = hirq.strip(c["init"])
            while isinstance(init, dict) and init.get("e") == "mcall" and init["name"] in ("as_ref", "as_deref", "clone") and not init["args"]:
                init = hirq.strip(init["recv"])
            if init.get("e") == "field" and init["name"] == "from":
                pk = [q.get("path") for q in hirq.flat_pats(c["pat"])]
                return base_of(init["a"]), pk
            return None, None
        for x in hirq.walk(root):
            if x["e"] != "field" or x["name"] != field or not (x.get("of_ty") or "").lstrip("&").endswith("ASCAConfig"):
                continue
            n += 1
            base = base_of(x["a"])
            ok = False
            child, p = x, par.get(id(x))
            while p is not None and not ok:
                if p.get("e") == "if":
                    tb, pk = from_test_base(p["cond"])
                    if tb is not None and tb == base:
                        in_else = p.get("else") is not None and (p["else"] is child or any(y is child for y in hirq.walk(p["else"])))
                        in_then = p["then"] is child or any(y is child for y in hirq.walk(p["then"]))
                        if (in_else and pk == ["core::option::Option::Some"]) or (in_then and pk == ["core::option::Option::None"]):
                            ok = True
                if p.get("e") == "block" and not ok:
                    # after a `while let Some(..) = &base.from { .. }` loop in the same block
                    items = list(p.get("stmts", [])) + ([p["tail"]] if p.get("tail") is not None else [])
                    for st in items:
                        if st is child or any(y is child for y in hirq.walk(st)):
                            break
                        s0 = hirq.strip(st)
                        if s0.get("e") == "loop":
                            for y in hirq.walk(s0):
                                if y["e"] == "if":
                                    tb, pk = from_test_base(y["cond"])
                                    if tb is not None and base is not None and tb[0] == base[0] and pk == ["core::option::Option::Some"] and any(z["e"] == "break" for z in hirq.walk(y.get("else") or {})):
                                        ok = True
                child, p = p, par.get(id(p))
            short = fn_.rsplit("::", 1)[-1]
            r.inst("%s: `.%s` is read from a config whose `from` is None" % (short, field), fn_loc(b, x.get("ln")), "ok" if ok else "report")
            if not ok:
                r.report("CLI-15|%s|%s" % (short, field), fn_loc(b, x.get("ln")), fn_,
                         "`.%s` is read from a config that may itself have a `%%` reference: the walk stops before the root, so for a tag two or more hops from the root `conv tag --recurse` exports the wrong %s and the exported history no longer reproduces what `seq` wrote" % (field, "words" if field == "words" else "deromanisers"))
    if n < 2:
        raise AnchorMissing("CLI-15: %d reads of .words / .alias in get_orig_words / get_orig_alias_into (expected >= 2)" % n)
    return r


# ---------------------------------------------------------------- CLI-16: a blank line ends a group only after its description

def cli16(ctx):
    """The manual: "Empty lines are allowed" inside a rule group (its own Grimm's-law example has one). In parse_rsca a
    blank line closes the current group only when the group already has its `#` description; otherwise it is skipped.
    The `push` of the group in the blank-line branch sits under a test of the description."""
    r = RuleResult("CLI-16", "parse::parse_rsca: in the blank-line branch the current group is pushed only under a test of its description (blank lines between the rules of a group do not split it)", floor=1)
    bn = ctx.bin
    b = ctx.fn(bn, "asca_bin::cli::parse::parse_rsca")
    root = b.hir["body"]
    par = hirq.parent_map(root)
    n = 0
    for x in hirq.walk(root):
        if x["e"] != "if":
            continue
        c = hirq.strip(x["cond"])
        # the branch for an empty line: the condition is `<line>.is_empty()` on a str
        if not (c.get("e") == "mcall" and c["name"] == "is_empty" and (c.get("rty") or "").lstrip("&") == "str"):
            continue
        for y in hirq.walk(x["then"]):
            if y["e"] == "mcall" and y["name"] == "push" and "RuleGroup" in (y.get("rty") or ""):
                n += 1
                ok = False
                p = par.get(id(y))
                while p is not None and p is not x:
                    if p.get("e") == "if" and any(z["e"] == "field" and z["name"] == "description" for z in hirq.walk(p["cond"])):
                        ok = True
                    p = par.get(id(p))
                r.inst("parse_rsca: a blank line pushes the group only after its description", fn_loc(b, y.get("ln")), "ok" if ok else "report")
                if not ok:
                    r.report("CLI-16|parse_rsca|blank-line-push", fn_loc(b, y.get("ln")), b.path,
                             "a blank line closes the current rule group whether or not its description was read: a named group with a blank line between its rules is split into the named group and an anonymous rest, so `! {'name'}` no longer removes, and `~ {'name'}` no longer keeps, the rules after the blank line")
    if n < 1:
        raise AnchorMissing("CLI-16: parse_rsca has no `push` of a rule group in a blank-line branch")
    return r


# ---------------------------------------------------------------- SYN-7: spaces around the colon of `tone: n`

def syn7(ctx):
    """"Whitespace is not important" inside a matrix. The reader of the one named argument (`tone: 35`, rule lexer
    get_string, alias lexer get_enby) skips whitespace between the name and the colon and between the colon and the
    number: on the CFG, every path from the name lookup (string_match) to the look at the next character passes
    trim_whitespace, and so does every path from the `advance` over the colon to get_numeric."""
    r = RuleResult("SYN-7", "the `tone: n` reader of both lexers skips whitespace before the colon and before the number (trim_whitespace on every path)", floor=4)
    lib = ctx.lib
    n = 0
    for path in ("asca::lexer::Lexer::get_string", "asca::alias::lexer::AliasLexer::get_enby"):
        b = ctx.fn(lib, path)
        cfg = b.cfg
        calls = list(b.calls())
        own = path.rsplit("::", 1)[0] + "::"

        def sites(name):
            return [i for i, t in calls if (callee_path(t) or "") == own + name]
        SM, TW, CC, ADV, NUM = sites("string_match"), set(sites("trim_whitespace")), sites("curr_char"), sites("advance"), sites("get_numeric")
        if not SM or not ADV or not NUM or not CC:
            raise AnchorMissing("SYN-7: %s: string_match / curr_char / advance / get_numeric call sites not found" % path)
        short = path.rsplit("::", 2)[-2] + "::" + path.rsplit("::", 1)[-1]
        # (a) name -> first look at the next character
        nxt0 = b.blocks[SM[0]]["t"].get("t")
        reach = set() if nxt0 in TW else cfg.reachable_from(nxt0, avoid=TW)
        bad = [c for c in CC if c in reach]
        n += 1
        r.inst("%s: whitespace is skipped between the name and the colon" % short, fn_loc(b), "ok" if not bad else "report")
        if bad:
            r.report("SYN-7|%s|before-colon" % short, fn_loc(b), path,
                     "the character after the argument name is examined without skipping whitespace first: `[tone : 35]` is rejected (ExpectedCharColon) while `[tone: 35]` is read -- spaces inside a matrix are documented as insignificant")
        # (b) colon -> number
        bad2 = []
        for a in ADV:
            nxt = b.blocks[a]["t"].get("t")
            if nxt is None or nxt in TW:
                continue
            reach = cfg.reachable_from(nxt, avoid=TW)
            bad2 += [x for x in NUM if x in reach]
        n += 1
        r.inst("%s: whitespace is skipped between the colon and the number" % short, fn_loc(b), "ok" if not bad2 else "report")
        if bad2:
            r.report("SYN-7|%s|after-colon" % short, fn_loc(b), path,
                     "the number after the colon is read without skipping whitespace first: `[tone: 35]` is rejected while `[tone:35]` is read")
    return r


# ---------------------------------------------------------------- ERR-8: a word error shows the text its column was counted in

def err8(ctx):
    """A WordSyntaxError carries the word's text and a character index into it; the formatter prints the text and puts
    the caret at the index. The reader scans `txt`, the characters of ONE string; the text stored in every error is that
    same string (in Word::setup and, through its parameters, in Word::fill_segments), not an earlier form of the word
    (as typed, before `;` became `ː.` and `¢` became `t͡s`) whose columns differ."""
    r = RuleResult("ERR-8", "Word::setup / fill_segments: the text stored in every WordSyntaxError is the string whose characters are being scanned (the index counts columns of that string)", floor=8)
    lib = ctx.lib
    add = {"chars", "as_str", "to_string"} - set(_SRC_PASS)
    for a_ in add:
        _SRC_PASS.add(a_)
    try:
        n = 0
        b = ctx.fn(lib, "asca::word::Word::setup")
        root = b.hir["body"]
        binds = Bindings(root, b.hir.get("params"))
        scanned = None
        for x in hirq.walk(root):
            if x["e"] == "let" and x.get("init") is not None and x["pat"].get("p") == "bind" and "Vec<char>" in (x["pat"].get("ty") or ""):
                ss = _value_sources(x["init"], binds)
                if len(ss) == 1 and list(ss)[0][0] == "param":
                    scanned = list(ss)[0]
        if scanned is None:
            raise AnchorMissing("ERR-8: Word::setup: the scanned character vector is not collected from one parameter")

        def check(fnb, fbinds, want, what):
            nonlocal n
            for y in hirq.walk(fnb.hir["body"]):
                if y["e"] == "call" and "WordSyntaxError::" in (hirq.strip(y["f"]).get("path") or "") and y["args"]:
                    a0 = hirq.strip(y["args"][0])
                    if "String" not in (a0.get("ty") or "String"):
                        continue
                    n += 1
                    ss = _value_sources(y["args"][0], fbinds)
                    ok = ss == {want}
                    var = (hirq.strip(y["f"]).get("path") or "").rsplit("::", 1)[-1]
                    r.inst("%s: %s carries %s" % (fnb.path.rsplit("::", 1)[-1], var, what), fn_loc(fnb, y.get("ln")), "ok" if ok else "report")
                    if not ok:
                        r.report("ERR-8|%s|%s" % (fnb.path.rsplit("::", 1)[-1], var), fn_loc(fnb, y.get("ln")), fnb.path,
                                 "the text stored in WordSyntaxError::%s is not the string being scanned (it comes from %s): the index counts columns of the scanned text, so for a word containing `;` or `¢ ƛ λ` (expanded before scanning) the caret is drawn past the culprit, possibly past the end of the word shown"
                                 % (var, ", ".join(sorted("%s %s" % s_ for s_ in ss)) or "nothing traceable"))
        check(b, binds, scanned, "the scanned text `%s`" % scanned[1])
        # the hand-over to fill_segments: (text, its characters)
        fs = ctx.fn(lib, "asca::word::Word::fill_segments")
        for y in hirq.walk(root):
            if y["e"] == "mcall" and (y.get("def") or "") == fs.path and len(y["args"]) >= 2:
                n += 1
                s0, s1 = _value_sources(y["args"][0], binds), _value_sources(y["args"][1], binds)
                ok = s0 == {scanned} and s1 == {scanned}
                r.inst("setup: fill_segments is handed the scanned text and its own characters", fn_loc(b, y.get("ln")), "ok" if ok else "report")
                if not ok:
                    r.report("ERR-8|setup|fill_segments-args", fn_loc(b, y.get("ln")), b.path,
                             "fill_segments is given a text and a character vector that do not come from the same string: the error it builds shows one and counts columns in the other")
        pn = fs.param_names or []
        if len(pn) < 2:
            raise AnchorMissing("ERR-8: fill_segments has no text parameter")
        check(fs, Bindings(fs.hir["body"], fs.hir.get("params")), ("param", pn[1]), "its text parameter `%s`" % pn[1])
        if n < 8:
            raise AnchorMissing("ERR-8: %d WordSyntaxError constructions examined (expected >= 8)" % n)
    finally:
        for a_ in add:
            _SRC_PASS.discard(a_)
    return r


# ---------------------------------------------------------------- TAB-12: a plain literal is compared as a whole segment

def tab12(ctx):
    """`ħ > x` rewrites ħ and nothing else: a literal without modifiers matches a segment iff the two are the same feature
    bundle. In input_match_ipa / context_match_ipa (local helpers expanded) the literal is compared with the segment under
    the cursor by `==` on whole `Segment`s (derived, field-wise), or field by field over all four fields, or node by node
    over all seven node kinds -- a hand-written comparison that leaves a node out conflates the phones that differ only
    there (ħ/ʜ, ʕ/ʢ differ only in the pharyngeal sub-node)."""
    r = RuleResult("TAB-12", "input_match_ipa / context_match_ipa: a literal without modifiers is compared with the segment as a whole (Segment ==, or all four fields, or all seven node kinds)", floor=2)
    lib = ctx.lib
    sa = lib.adts.get("asca::seg::Segment")
    nk = lib.adts.get("asca::seg::NodeKind")
    if not sa or not nk:
        raise AnchorMissing("TAB-12: Segment / NodeKind types not found")
    fields = {f["name"] for f in sa["variants"][0]["fields"]}
    kinds = {v["name"] for v in nk["variants"]} - {"Place"}
    for path in ("asca::subrule::SubRule::input_match_ipa", "asca::subrule::SubRule::context_match_ipa"):
        b = ctx.fn(lib, path)
        tree = hirq.inline_helpers(lib, b, keep={"asca::subrule::SubRule::match_ipa_with_modifiers"}, prefixes=("asca::subrule::SubRule::",), max_depth=2)

        def is_seg(e):
            e = hirq.strip(e)
            while isinstance(e, dict) and e.get("e") == "unary" and e.get("op") == "Deref":
                e = hirq.strip(e["a"])
            return isinstance(e, dict) and (e.get("ty") or "").lstrip("&").endswith("asca::seg::Segment")
        whole = [x for x in hirq.walk(tree) if x["e"] == "binary" and x["op"] in ("Eq", "Ne") and (is_seg(x["a"]) or is_seg(x["b"]))]
        whole += [x for x in hirq.walk(tree) if x["e"] == "mcall" and x["name"] in ("eq", "ne") and (x.get("rty") or "").lstrip("&").endswith("asca::seg::Segment")]
        cmp_fields, cmp_kinds = set(), set()
        for x in hirq.walk(tree):
            if x["e"] == "binary" and x["op"] in ("Eq", "Ne"):
                for side in (x["a"], x["b"]):
                    for y in hirq.walk(side):
                        if y["e"] == "field" and (y.get("of_ty") or "").lstrip("&").endswith("asca::seg::Segment"):
                            cmp_fields.add(y["name"])
                        if y["e"] == "mcall" and y["name"] in ("get_node", "is_node_some", "is_node_none"):
                            for z in hirq.walk(y):
                                if z["e"] == "path" and (z.get("path") or "").startswith("asca::seg::NodeKind::"):
                                    cmp_kinds.add(z["path"].rsplit("::", 1)[-1])
        # node kinds iterated over an array literal
        for x in hirq.walk(tree):
            if x["e"] == "array":
                ks = {(z.get("path") or "").rsplit("::", 1)[-1] for z in hirq.walk(x) if z["e"] == "path" and (z.get("path") or "").startswith("asca::seg::NodeKind::")}
                if ks and any(y["e"] == "mcall" and y["name"] == "get_node" for y in hirq.walk(tree)):
                    cmp_kinds |= ks
        fk = {"root": {"Root"}, "manner": {"Manner"}, "laryngeal": {"Laryngeal"}, "place": {"Labial", "Coronal", "Dorsal", "Pharyngeal"}}
        for f_ in cmp_fields:
            cmp_kinds |= fk.get(f_, set())
        ok = bool(whole) or fields <= cmp_fields or kinds <= cmp_kinds
        short = path.rsplit("::", 1)[-1]
        how = "Segment == Segment" if whole else "fields %s" % sorted(cmp_fields) if cmp_fields else "node kinds %s" % sorted(cmp_kinds)
        r.inst("%s: the plain literal is compared as a whole (%s)" % (short, how), fn_loc(b), "ok" if ok else "report")
        if not ok:
            missing = sorted(kinds - cmp_kinds)
            r.report("TAB-12|%s" % short, fn_loc(b), path,
                     "a literal without modifiers is not compared with the segment as a whole: the comparison leaves out %s, so phones that differ only there are one phone to the matcher -- `ħ > x` rewrites `ʜa` to `xa` (ħ/ʜ and ʕ/ʢ differ only in the pharyngeal sub-node)" % ", ".join(missing))
    return r


# ---------------------------------------------------------------- FLW-16: the surplus elements are those without a counterpart

def flw16(ctx):
    """`a b c > x` rewrites a by x and deletes b and c. SubRule::substitution pairs input element i with output element i
    in its main loop; afterwards the surplus is handled by a tail loop: outputs without an input are inserted
    (`self.output.iter().skip(self.input.len())`), inputs without an output are deleted -- and those are the inputs from
    index `self.output.len()` on. The two tail loops are mirror images: each skips exactly the length of the OTHER list."""
    r = RuleResult("FLW-16", "SubRule::substitution: the tail loop over surplus outputs skips input.len(), the tail loop over surplus inputs skips output.len() (each skips the length of the other list, nothing else)", floor=2)
    lib = ctx.lib
    b = ctx.fn(lib, "asca::subrule::SubRule::substitution")
    root = b.hir["body"]
    ev = _CaretEval(lib)
    env = ev.env_of(root)
    n = 0
    for x in hirq.walk(root):
        if x["e"] != "mcall" or x["name"] != "skip" or not x["args"]:
            continue
        # what is iterated: strip adaptors down to the list
        base = hirq.strip(x["recv"])
        while isinstance(base, dict) and base.get("e") == "mcall" and base["name"] in ("iter", "into_iter", "iter_mut", "enumerate", "copied", "cloned", "rev"):
            base = hirq.strip(base["recv"])
        bname = ev.canon(base, {})
        which = "output" if bname.endswith(".output") else "input" if (bname.endswith(".input") or bname.split("#")[0] == "input") else None
        if which is None:
            continue
        n += 1
        w = ev.num(x["args"][0], env)
        other = "input" if which == "output" else "output"
        atoms = {a_: c for a_, c in w.atoms.items() if c}
        ok = w.const == 0 and len(atoms) == 1 and list(atoms.values())[0] == 1 and (".%s.len()" % other) in list(atoms)[0]
        form = " + ".join(("%s" % a_ if c == 1 else "%d*%s" % (c, a_)) for a_, c in sorted(atoms.items())) + (" + %d" % w.const if w.const else "")
        r.inst("substitution: the tail loop over the surplus %ss skips %s" % (which, form or "0"), fn_loc(b, x.get("ln")), "ok" if ok else "report")
        if not ok:
            r.report("FLW-16|substitution|surplus-%s" % which, fn_loc(b, x.get("ln")), b.path,
                     "the tail loop over the surplus %s elements starts at `%s` instead of at the number of %s elements: the main loop has paired element i with element i, so with `a b c > x` only c is deleted (`abcd` becomes `xbd`), and with `a b c > x y` the y just written is deleted again (`xd`)" % (which, form or "0", other))
    if n < 2:
        raise AnchorMissing("FLW-16: %d `skip(..)` tail loops over the rule's input / output found in substitution (expected 2)" % n)
    return r


# ---------------------------------------------------------------- PAN-17: an index is not used where its bounds check has just failed

def pan17(ctx):
    """`if let Some(syll) = word.syllables.get_mut(pos.syll_index) { .. } else { .. }`: in the else branch `pos.syll_index`
    is known to be OUT of bounds. Handing that same `pos` to something that indexes `syllables[pos.syll_index]`
    (Word::apply_seg_mods, a direct index) there is a certain panic whenever the line is reached -- a contradiction
    between the test and the use (`* > a:[+nasal] / t_` on `at`: the segment is appended at the end of the word, then its
    modifiers are applied "at" the out-of-range position)."""
    r = RuleResult("PAN-17", "SubRule: in the else branch of `if let Some(_) = <word>.syllables.get_mut(pos.syll_index)` the same `pos` is not used to index the syllables again (Word::apply_seg_mods, `syllables[pos.syll_index]`)", floor=4)
    lib = ctx.lib
    INDEXERS = set()
    for b in lib.bodies:
        # functions of Word that index `self.syllables[<param>.syll_index]` without a check
        if b.in_test_mod() or not b.hir or b.kind == "closure" or not b.path.startswith("asca::word::Word::"):
            continue
        body = hirq.strip(b.hir["body"])
        for y in hirq.walk(body):
            if y["e"] == "index" and "Vec<asca::syll::Syllable>" in (y.get("of_ty") or ""):
                ix = hirq.strip(y["i"])
                if ix.get("e") == "field" and ix["name"] == "syll_index" and hirq.strip(ix["a"]).get("local") in (b.param_names or []):
                    if not any(z["e"] == "mcall" and z["name"] in ("in_bounds", "out_of_bounds", "get", "get_mut") for z in hirq.walk(body)):
                        INDEXERS.add((b.path, (b.param_names or []).index(hirq.strip(ix["a"]).get("local"))))
    n = 0
    for b in lib.bodies:
        if b.in_test_mod() or not b.hir or b.kind == "closure" or not b.path.startswith("asca::subrule::SubRule::"):
            continue
        k = 0
        for x in hirq.walk(b.hir["body"]):
            if x["e"] != "if" or x.get("else") is None:
                continue
            c = hirq.strip(x["cond"])
            if c.get("e") != "letcond" or [q.get("path") for q in hirq.flat_pats(c["pat"])] != ["core::option::Option::Some"]:
                continue
            init = hirq.strip(c["init"])
            if not (init.get("e") == "mcall" and init["name"] in ("get", "get_mut") and "Syllable" in (init.get("rty") or "") and init["args"]):
                continue
            a0 = hirq.strip(init["args"][0])
            if not (a0.get("e") == "field" and a0["name"] == "syll_index"):
                continue
            P = hirq.strip(a0["a"])
            if P.get("e") != "path" or "hid" not in P:
                continue
            n += 1
            bad = []
            for y in hirq.walk(x["else"]):
                if y["e"] == "mcall" and (y.get("def") or "") in {p for p, _ in INDEXERS}:
                    args = [y["recv"]] + list(y["args"])
                    for p_, i_ in INDEXERS:
                        if p_ == y["def"] and i_ < len(args):
                            a_ = hirq.strip(args[i_])
                            if a_.get("e") == "path" and a_.get("hid") == P["hid"]:
                                bad.append((y, "%s(.., %s, ..)" % (p_.rsplit("::", 1)[-1], P.get("local"))))
                if y["e"] == "index" and "Vec<asca::syll::Syllable>" in (y.get("of_ty") or ""):
                    ix = hirq.strip(y["i"])
                    if ix.get("e") == "field" and ix["name"] == "syll_index" and hirq.strip(ix["a"]).get("hid") == P["hid"]:
                        bad.append((y, "syllables[%s.syll_index]" % P.get("local")))
            short = b.path.rsplit("::", 1)[-1]
            r.inst("%s: else-branch #%d of the bounds test of `%s.syll_index` does not index with it" % (short, k, P.get("local")), fn_loc(b, x.get("ln")), "ok" if not bad else "report")
            for y, what in bad[:1]:
                r.report("PAN-17|%s|#%d" % (short, k), fn_loc(b, y.get("ln")), b.path,
                         "`%s` is reached only when `%s.syll_index` has just been found out of bounds (the else branch of `get_mut(%s.syll_index)`), and indexes the syllables with it: a certain panic -- `* > a:[+nasal] / t_` on `at` (the new segment is appended to the last syllable, then its modifiers are applied at the out-of-range position)" % (what, P.get("local"), P.get("local")))
            k += 1
    if n < 4:
        raise AnchorMissing("PAN-17: %d `if let Some(_) = ...syllables.get_mut(pos.syll_index)` tests found in SubRule (expected >= 4)" % n)
    r.analysed = {"bounds_tests": n, "unchecked_indexers": sorted(p for p, _ in INDEXERS)}
    return r


# ---------------------------------------------------------------- FLW-4h: segment-level methods of Syllable leave stress and tone alone

def flw4h(ctx):
    """A sound change on segments does not touch the prosodic tier. Of the methods of `Syllable`, only apply_syll_mods
    writes `stress` / `tone`; no other method assigns them, and none replaces the whole syllable (`*self = rebuilt`),
    which silently resets whatever field the rebuild forgot."""
    r = RuleResult("FLW-4h", "Syllable's segment-level methods (replace_segment, insert_segment, apply_seg_mods, apply_supras, ...) never assign self.stress / self.tone and never overwrite `*self` as a whole; only apply_syll_mods writes the prosodic fields", floor=6)
    lib = ctx.lib
    ALLOWED = {"apply_syll_mods", "new", "default", "clone", "clone_from"}
    n = 0
    for b in lib.bodies:
        if b.in_test_mod() or not b.hir or b.kind == "closure" or not b.path.startswith("asca::syll::Syllable::"):
            continue
        name = b.path.rsplit("::", 1)[-1]
        if name in ALLOWED or "self" not in (b.param_names or [])[:1]:
            continue
        n += 1
        bad = []
        for x in hirq.walk(b.hir["body"]):
            if x["e"] not in ("assign", "assignop"):
                continue
            l = hirq.strip(x["lhs"])
            whole = l
            while isinstance(whole, dict) and whole.get("e") == "unary" and whole.get("op") == "Deref":
                whole = hirq.strip(whole["a"])
            if isinstance(whole, dict) and whole.get("e") == "path" and whole.get("local") == "self":
                bad.append((x, "`*self` is overwritten as a whole"))
            if l.get("e") == "field" and l["name"] in ("stress", "tone"):
                base = hirq.strip(l["a"])
                while isinstance(base, dict) and base.get("e") == "unary" and base.get("op") == "Deref":
                    base = hirq.strip(base["a"])
                if isinstance(base, dict) and base.get("e") == "path" and base.get("local") == "self":
                    bad.append((x, "`self.%s` is assigned" % l["name"]))
        r.inst("Syllable::%s leaves stress and tone alone" % name, fn_loc(b), "ok" if not bad else "report")
        for x, what in bad[:1]:
            r.report("FLW-4h|%s" % name, fn_loc(b, x.get("ln")), b.path,
                     "%s in Syllable::%s, a segment-level operation: the syllable's stress / tone change (or are reset by a rebuild that copies only some fields) although the rule only names segments -- `a > e` on `kaː5.ta` loses the tone 5" % (what, name))
    if n < 6:
        raise AnchorMissing("FLW-4h: %d segment-level methods of Syllable examined (expected >= 6)" % n)
    return r


# ---------------------------------------------------------------- PUR-8: a rule is not edited while it is applied

def pur8(ctx):
    """The rule a word is rewritten with is the rule that was parsed: nothing in the library takes a `&mut Rule` or a
    `&mut SubRule` (per-match state lives in the RefCells `alphas` / `variables`, which every attempt clears). A pass that
    prunes or rewrites a sub-rule's environments after looking at the word makes the result depend on the word list and
    on the scan position (the rule's own output can create the segment a pruned environment was waiting for)."""
    r = RuleResult("PUR-8", "no function of the library takes `&mut Rule` / `&mut SubRule` (or holds them in a `&mut` collection): rules are immutable once parsed", floor=60)
    lib = ctx.lib
    n = 0
    for b in lib.bodies:
        if b.in_test_mod() or b.kind == "closure":
            continue
        if not b.path.startswith(("asca::subrule::SubRule::", "asca::rule::Rule::", "asca::apply_", "asca::run", "asca::trace", "asca::get_trace")):
            continue
        n += 1
        bad = [t for t in (b.param_tys or []) if ("&mut asca::subrule::SubRule" in t or "&mut asca::rule::Rule" in t or "&mut [asca::subrule::SubRule" in t or "&mut alloc::vec::Vec<asca::subrule::SubRule" in t
                                                     or "&mut [asca::rule::Rule" in t or "&mut alloc::vec::Vec<asca::rule::Rule" in t)]
        # `for mut i in sub_rules { i.method_taking_mut_self() }`: a local SubRule borrowed mutably
        mut_borrow = []
        if b.blocks:
            for bl in b.blocks:
                if bl.get("cleanup"):
                    continue
                for s in bl["s"]:
                    if s["k"] == "assign" and s["rv"].get("k") == "ref" and s["rv"].get("mut") and not s.get("exp"):
                        ty = b.local_ty(s["rv"]["pl"]["l"]) or ""
                        if ty in ("asca::subrule::SubRule", "asca::rule::Rule") and not s["rv"]["pl"]["p"]:
                            mut_borrow.append(s.get("loc"))
        ok = not bad and not mut_borrow
        r.inst("%s: rules and sub-rules are only read" % b.path.split("::", 1)[-1], fn_loc(b), "ok" if ok else "report", nontrivial=not ok)
        if not ok:
            r.report("PUR-8|%s" % b.path, fn_loc(b), b.path,
                     "%s a rule / sub-rule mutably: a rule edited after parsing (environments pruned for the current word, say) is no longer the user's rule -- an exception like `| o_` dropped because the word has no `o` yet does not block the `o` the rule itself creates"
                     % ("takes" if bad else "borrows"))
    if n < 60:
        raise AnchorMissing("PUR-8: %d functions of Rule / SubRule / the drivers examined (expected >= 60)" % n)
    return r


# ---------------------------------------------------------------- SHR-6: `(X,M:N)` counts its mandatory repetitions

def shr6(ctx):
    """`(X,M:N)` stands for M to N repetitions. context_match_option first matches the M mandatory ones, then extends
    lazily `while index < max`. The counter compared with `max` has already counted the mandatory repetitions: it is the
    local the mandatory loop increments (or is initialised from the minimum) -- a fresh counter started at 0 before the
    extension loop allows M+N repetitions."""
    from engine_flw2 import _all_defs
    r = RuleResult("SHR-6", "context_match_option: the counter bounded by the maximum in the lazy extension loop is the one the mandatory repetitions were counted in (or starts from the minimum)", floor=1)
    lib = ctx.lib
    b = ctx.fn(lib, "asca::subrule::SubRule::context_match_option")
    cfg = b.cfg
    M = {i for i, t in b.calls() if (callee_path(t) or "") == "asca::subrule::SubRule::match_opt_states"}
    loops = [(h, set(body)) for h, body in cfg.loops if M & set(body)]
    if len(loops) < 1:
        raise AnchorMissing("SHR-6: context_match_option has no loop over match_opt_states")
    pn = b.param_names or []
    min_param = next((i + 1 for i, nm in enumerate(pn) if "min" in nm), None)
    n = 0
    for h, body in loops:
        ext = None
        for s_ in b.blocks[h]["s"]:
            if s_["k"] == "assign" and s_["rv"].get("k") == "binop" and s_["rv"]["op"] in ("Lt", "Le", "Gt", "Ge"):
                ops = (s_["rv"]["a"], s_["rv"]["b"])
                for k, o in enumerate(ops):
                    if o.get("k") in ("copy", "move") and any(x.startswith("unwrap_or") for x in _all_defs(b, o["pl"]["l"])):
                        other = ops[1 - k]
                        if other.get("k") in ("copy", "move"):
                            ext = other["pl"]["l"]
                            # the operand is a temporary copy of the counter
                            from engine_pan import _single_def
                            for _ in range(4):
                                d0 = _single_def(b, ext)
                                if d0 is not None and d0.get("k") == "use" and d0["op"].get("k") in ("copy", "move") and not d0["op"]["pl"]["p"]:
                                    ext = d0["op"]["pl"]["l"]
                                else:
                                    break
        if ext is None:
            continue
        n += 1
        # where is the counter written?
        writes = [(bi, s_) for bi, bl in enumerate(b.blocks) if not bl.get("cleanup") for s_ in bl["s"] if s_["k"] == "assign" and s_["lhs"]["l"] == ext and not s_["lhs"]["p"]]
        # a write that lies on a cycle through another (the mandatory) repetition call, outside this loop
        other_calls = [m for m in M if m not in body]
        counted_before = any(bi not in body and any(bi in cfg.reachable_from(m, avoid={h}) and m in cfg.reachable_from(bi, avoid={h}) for m in other_calls) for bi, _ in writes)
        from_min = any(s_["rv"].get("k") == "use" and s_["rv"]["op"].get("k") in ("copy", "move") and min_param is not None and (s_["rv"]["op"]["pl"]["l"] == min_param or "min" in (b.local_name(s_["rv"]["op"]["pl"]["l"]) or "")) for _, s_ in writes)
        ok = counted_before or from_min
        loc = ":".join((b.blocks[h]["t"].get("loc") or b.loc).split(":")[:2])
        r.inst("context_match_option: the counter `%s` of the extension loop %s" % (b.local_name(ext) or "_%d" % ext, "is incremented by the mandatory repetitions" if counted_before else "starts from the minimum" if from_min else "starts afresh"), loc, "ok" if ok else "report")
        if not ok:
            r.report("SHR-6|context_match_option|fresh-counter", loc, b.path,
                     "the counter the lazy extension loop compares with the maximum does not include the mandatory repetitions (it is written only inside that loop and in its initialisation): `(X,M:N)` accepts up to M+N repetitions, so it no longer equals the environment set of its M..N explicit repetitions")
    if n < 1:
        raise AnchorMissing("SHR-6: no extension loop bounded by unwrap_or(..) found in context_match_option")
    return r


# ---------------------------------------------------------------- SUP-10: `[tone: 0]` is a test, no tone modifier is none

def sup10(ctx, unit=None, prefixes=("asca::subrule::SubRule::", "asca::word::Word::"), floor=7):
    """`%:[tone: 0]` matches only toneless syllables; a matrix without a tone modifier matches any. The tone modifier is an
    `Option<Tone>`: the matchers look at it through `if let Some(t)` / `as_ref()`, never through `unwrap_or_default()` /
    `unwrap_or(0)` / `map_or(0, ..)`, which make `Some(0)` and `None` the same thing."""
    r = RuleResult("SUP-10", "matchers read the tone modifier (Option<Tone>) with `if let Some(..)` / as_ref, never by defaulting it (unwrap_or_default / unwrap_or / map_or): `[tone: 0]` and no tone modifier stay different", floor=floor)
    lib = unit or ctx.lib
    DEFAULTING = {"unwrap_or_default", "unwrap_or", "unwrap_or_else", "map_or", "map_or_else", "is_some_and", "is_none_or"}
    n = 0
    for b in lib.bodies:
        if b.in_test_mod() or not b.hir or b.kind == "closure" or not b.path.startswith(tuple(prefixes)):
            continue
        k = 0
        for x in hirq.walk(b.hir["body"]):
            if x["e"] != "mcall" or "Option<u16>" not in (x.get("rty") or ""):
                continue
            # is the receiver a tone modifier? a field / parameter / local called `tone`
            names = {y.get("name") for y in hirq.walk(x["recv"]) if y["e"] == "field"} | {y.get("local") for y in hirq.walk(x["recv"]) if y["e"] == "path"}
            if "tone" not in names:
                continue
            n += 1
            bad = x["name"] in DEFAULTING
            short = b.path.rsplit("::", 1)[-1]
            r.inst("%s: tone modifier read #%d through `%s`" % (short, k, x["name"]), fn_loc(b, x.get("ln")), "report" if bad else "ok")
            if bad:
                r.report("SUP-10|%s|#%d" % (short, k), fn_loc(b, x.get("ln")), b.path,
                         "the tone modifier is read through `%s`, which turns an absent modifier and `[tone: 0]` into the same value: `%%:[tone:0] > [tone:3]` then matches every syllable (`tak5.ta` becomes `tak3.ta3` instead of `tak5.ta3`)" % x["name"])
            k += 1
    if n < floor:
        raise AnchorMissing("SUP-10: %d reads of a tone modifier found in the matchers (expected >= %d)" % (n, floor))
    return r


# ---------------------------------------------------------------- SUP-11: a literal with modifiers is tested on all tiers

def sup11(ctx):
    """`a:[tone: 5]`: a literal with a modifier list is expanded to a full matrix and handed to the matrix matcher, which
    tests features, nodes and the three suprasegmental tiers. In match_ipa_with_modifiers (and the alias twin) every
    return that is not an error propagation comes out of match_modifiers / alias_match_modifiers: a "fast path" that
    compares the segment and calls some of the tier matchers itself forgets the others (tone)."""
    r = RuleResult("SUP-11", "match_ipa_with_modifiers / alias_match_ipa_with_mods: every non-error return passes the full matrix matcher (match_modifiers / alias_match_modifiers) -- no partial fast path", floor=2)
    lib = ctx.lib
    for path, full in (("asca::subrule::SubRule::match_ipa_with_modifiers", ("asca::subrule::SubRule::match_modifiers",)),
                       ("asca::word::Word::alias_match_ipa_with_mods", ("asca::word::Word::alias_match_modifiers",))):
        b = ctx.fn(lib, path)
        cfg = b.cfg
        calls = list(b.calls())
        F = {i for i, t in calls if (callee_path(t) or "") in full}
        if not F:
            raise AnchorMissing("SUP-11: %s does not call %s" % (path, full[0].rsplit("::", 1)[-1]))
        errs = {i for i, t in calls if "from_residual" in (callee_path(t) or "")}
        rets = {i for i, bl in enumerate(b.blocks) if bl["t"]["k"] == "return" and not bl.get("cleanup")}
        reach = cfg.reachable_from(0, avoid=F | errs)
        bad = sorted(x for x in reach if x in rets)
        short = path.rsplit("::", 1)[-1]
        r.inst("%s: every non-error return comes out of %s" % (short, full[0].rsplit("::", 1)[-1]), fn_loc(b), "ok" if not bad else "report")
        if bad:
            r.report("SUP-11|%s" % short, fn_loc(b), path,
                     "%s can return without going through %s: a shortcut that compares the segment and calls only some of the tier matchers skips the rest -- `a:[tone:5] > e` then matches `a` in a syllable of any tone (`tak5.ta` becomes `tek5.te`)" % (short, full[0].rsplit("::", 1)[-1]))
    return r


# ---------------------------------------------------------------- POL-2: `[-F]` is asked as such, not as "not [+F]"

def pol2(ctx):
    """`Segment::feat_match(node, mask, positive)` is false for BOTH signs when the segment lacks the node that holds the
    feature (a /t/ has no dorsal node: it is neither [+back] nor [-back]). So `[-F]` must be asked as
    `feat_match(.., false)`: every call outside the accessor itself (a) hands a literal sign only inside the arm of a match
    on BinMod with that very sign, and (b) has its result used as the verdict -- never negated or compared (`!x`,
    `x == (sign)`) to derive the other polarity."""
    r = RuleResult("POL-2", "Segment::feat_match: a literal sign argument agrees with the enclosing BinMod arm, and the result is never negated / compared to obtain the opposite sign", floor=6)
    lib = ctx.lib
    n = 0
    for b in lib.bodies:
        if b.in_test_mod() or not b.hir or b.kind == "closure" or b.path == "asca::seg::Segment::feat_match":
            continue
        root = b.hir["body"]
        sites = [x for x in hirq.walk(root) if x["e"] == "mcall" and (x.get("def") or "") == "asca::seg::Segment::feat_match"]
        if not sites:
            continue
        par = hirq.parent_map(root)
        arm_sign = {}
        for m in hirq.matches(b):
            if (m.get("sty") or "").lstrip("&").endswith("parser::BinMod"):
                for arm in m["arms"]:
                    ps = [(p.get("path") or "").rsplit("::", 1)[-1] for p in hirq.flat_pats(arm["pat"]) if p.get("path")]
                    if len(ps) == 1 and ps[0] in ("Positive", "Negative"):
                        for y in hirq.walk(arm["body"]):
                            arm_sign[id(y)] = ps[0] == "Positive"
        for k, x in enumerate(sites):
            n += 1
            problems = []
            a2 = hirq.strip(x["args"][2]) if len(x["args"]) >= 3 else {}
            if a2.get("e") == "lit" and a2.get("lk") == "bool":
                if id(x) not in arm_sign:
                    problems.append("a literal sign `%s` outside any `match` on the modifier's BinMod" % str(a2["lit"]).lower())
                elif arm_sign[id(x)] != a2["lit"]:
                    problems.append("the literal sign `%s` in the %s arm" % (str(a2["lit"]).lower(), "Positive" if arm_sign[id(x)] else "Negative"))
            p = par.get(id(x))
            while p is not None and p.get("e") in ("addr", "block"):
                p = par.get(id(p))
            if p is not None and ((p.get("e") == "unary" and p.get("op") == "Not") or (p.get("e") == "binary" and p.get("op") in ("Eq", "Ne", "BitXor"))):
                problems.append("its result is %s" % ("negated" if p.get("e") == "unary" else "compared (`%s`)" % p.get("op")))
            short = b.path.rsplit("::", 1)[-1]
            r.inst("%s: feat_match #%d asks for the sign it is given" % (short, k), fn_loc(b, x.get("ln")), "ok" if not problems else "report")
            if problems:
                r.report("POL-2|%s|#%d" % (short, k), fn_loc(b, x.get("ln")), b.path,
                         "feat_match is called with %s: for a segment without the node both signs are false, so deriving `[-F]` as `not [+F]` makes every negative place feature match segments that lack the node -- `a > e / _[-back]` rewrites `pa.ti` to `pe.ti` (/t/ has no dorsal node)" % "; ".join(problems))
    if n < 6:
        raise AnchorMissing("POL-2: %d calls of Segment::feat_match found (expected >= 6)" % n)
    return r


# ---------------------------------------------------------------- ENV-10: the scan covers the whole word

def env10(ctx):
    """SubRule::apply scans the word left to right: `cur = 0:0; loop { (res, next) = input_match_at(word, cur); .. cur = next
    .. }`. Every position is offered to the matcher: the cursor starts at the beginning of the word (literal 0:0), is only
    ever moved to the position the matcher / transform handed back, and the loop ends only when there is no match or no
    next position -- a skip-ahead to "the first promising segment" or an early stop "because nothing further can match"
    decides matches without running the matcher."""
    r = RuleResult("ENV-10", "SubRule::apply: the scan cursor starts at SegPos::new(0, 0), is reassigned only from the matcher's / transform's next position, and the loop is left only on no-match or end of word", floor=4)
    lib = ctx.lib
    b = ctx.fn(lib, "asca::subrule::SubRule::apply")
    root = b.hir["body"]
    par = hirq.parent_map(root)
    im = [x for x in hirq.walk(root) if x["e"] == "mcall" and (x.get("def") or "") == "asca::subrule::SubRule::input_match_at"]
    if len(im) != 1 or len(im[0]["args"]) < 2:
        raise AnchorMissing("SubRule::apply: the call of input_match_at was not found")
    cur = hirq.strip(im[0]["args"][1])
    if cur.get("e") != "path" or "hid" not in cur:
        raise AnchorMissing("SubRule::apply: input_match_at is not handed a cursor local")
    chid, cname = cur["hid"], cur.get("local")
    # the tuple the matcher returns: (res, next)
    lt = par.get(id(im[0]))
    while lt is not None and lt.get("e") != "let":
        lt = par.get(id(lt))
    names = [q.get("name") for q in hirq.walk_pats(lt["pat"]) if q.get("p") == "bind"] if lt is not None else []
    if len(names) < 2:
        raise AnchorMissing("SubRule::apply: the result of input_match_at is not destructured into (matches, next position)")
    res_name, next_name = names[0], names[1]
    # (a) initial value
    init = None
    for x in hirq.walk(root):
        if x["e"] == "let" and x["pat"].get("p") == "bind" and x["pat"].get("hid") == chid:
            init = hirq.strip(x.get("init") or {})
    ok = init is not None and init.get("e") == "call" and (hirq.strip(init["f"]).get("path") or "").endswith("SegPos::new") and all(
        hirq.strip(a_).get("e") == "lit" and hirq.strip(a_).get("lit") == 0 for a_ in init["args"])
    r.inst("apply: the scan starts at SegPos::new(0, 0)", fn_loc(b, (init or {}).get("ln")), "ok" if ok else "report")
    if not ok:
        r.report("ENV-10|apply|start", fn_loc(b, (init or {}).get("ln")), b.path,
                 "the scan does not start at the beginning of the word (`%s` is not initialised with SegPos::new(0, 0)): positions before the computed start are never offered to the matcher -- with an input set that mixes literals and groups, `{k, N} > ŋ / _#` leaves `tan` unchanged" % cname)
    # (b) reassignments
    binds = Bindings(root, b.hir.get("params"))
    for x in hirq.walk(root):
        if x["e"] == "assign" and hirq.strip(x["lhs"]).get("hid") == chid:
            rhs = hirq.strip(x["rhs"])
            good = False
            if rhs.get("e") == "path" and "hid" in rhs:
                s_ = binds.src.get(rhs["hid"])
                if s_ and s_[0] == "expr":
                    i0 = hirq.strip(s_[1])
                    good = i0.get("e") == "path" and i0.get("local") == next_name
            r.inst("apply: the cursor is moved to the position handed back by the matcher / transform", fn_loc(b, x.get("ln")), "ok" if good else "report")
            if not good:
                r.report("ENV-10|apply|move", fn_loc(b, x.get("ln")), b.path, "the scan cursor is assigned something else than the next position handed back by input_match_at / transform")
    # (c) exits
    lp = par.get(id(im[0]))
    while lp is not None and lp.get("e") != "loop":
        lp = par.get(id(lp))
    if lp is None:
        raise AnchorMissing("SubRule::apply: input_match_at is not called in a loop")
    k = 0
    for x in hirq.walk(lp):
        if x["e"] not in ("break", "ret") or x.get("exp"):
            continue
        why = None
        child, p = x, par.get(id(x))
        while p is not None and p is not lp and why is None:
            if p.get("e") == "if":
                c = hirq.strip(p["cond"])
                in_else = p.get("else") is not None and (p["else"] is child or any(y is child for y in hirq.walk(p["else"])))
                if c.get("e") == "letcond" and hirq.strip(c["init"]).get("local") == next_name and in_else:
                    why = "no next position"
                mentions_res = any(y["e"] == "path" and y.get("local") == res_name for y in hirq.walk(c)) and any(y["e"] == "mcall" and y["name"] == "is_empty" for y in hirq.walk(c))
                if mentions_res:
                    neg = c.get("e") == "unary" and c.get("op") == "Not"
                    in_then = p["then"] is child or any(y is child for y in hirq.walk(p["then"]))
                    if (neg and in_else) or (not neg and in_then):
                        why = "no match"
            if p.get("e") == "match" and why is None and hirq.strip(p["scrut"]).get("local") == next_name:
                # `match next { Some(ci) => .., None => break }`
                for arm in p["arms"]:
                    if (arm["body"] is child or any(y is child for y in hirq.walk(arm["body"]))) and [q.get("path") for q in hirq.flat_pats(arm["pat"])] == ["core::option::Option::None"]:
                        why = "no next position"
            if p.get("e") == "block" and why is None:
                # `if let Some(ci) = next { cur = ci; continue; }  break;` -- the exit follows the test in the same block
                items = list(p.get("stmts", [])) + ([p["tail"]] if p.get("tail") is not None else [])
                for st in items:
                    if st is child or any(y is child for y in hirq.walk(st)):
                        break
                    s0 = hirq.strip(st)
                    if s0.get("e") == "if":
                        c0 = hirq.strip(s0["cond"])
                        if c0.get("e") == "letcond" and hirq.strip(c0["init"]).get("local") == next_name and any(y["e"] == "continue" for y in hirq.walk(s0["then"])):
                            why = "no next position"
            child, p = p, par.get(id(p))
        r.inst("apply: scan exit #%d is taken on %s" % (k, why or "another condition"), fn_loc(b, x.get("ln")), "ok" if why else "report")
        if not why:
            r.report("ENV-10|apply|exit#%d" % k, fn_loc(b, x.get("ln")), b.path,
                     "the scan loop is left although the matcher found a match or could still look further (an exit that is neither `no match` nor `no next position`): positions after it are never examined -- an early stop computed for the longest alternative of an environment set skips positions a shorter alternative still matches")
        k += 1
    return r


# ---------------------------------------------------------------- FLW-8s: a rejected alternative of an input set leaves no bindings

def flw8s(ctx):
    """`{[αnasal, +voice], [-voice]} > [αs.g.]`: the alternatives of a set in the rule's input are tried in turn, and a
    matrix binds its alphas feature by feature before a later feature rejects the segment. In input_match_set every path
    from a trial of an alternative back to the loop head (= it was rejected) passes a write access to both binding
    tables (the restore of the snapshot taken before the loop)."""
    from engine_flw2 import _single_def
    r = RuleResult("FLW-8s", "input_match_set: after an alternative of the set was rejected, both binding tables (alphas, variables) are restored before the next alternative is tried", floor=2)
    lib = ctx.lib
    b = ctx.fn(lib, "asca::subrule::SubRule::input_match_set")
    cfg = b.cfg
    trial_names = ("input_match_var", "input_match_ipa", "input_match_matrix", "input_match_syll")
    trials = {i for i, t in b.calls() if (callee_path(t) or "").startswith("asca::subrule::SubRule::") and (callee_path(t) or "").rsplit("::", 1)[-1] in trial_names}
    if len(trials) < 3:
        raise AnchorMissing("FLW-8s: input_match_set: %d trials of a set alternative (expected >= 3)" % len(trials))

    def cell_of(l, depth=0):
        d = _single_def(b, l)
        if d is None or depth > 4:
            return None
        if d.get("k") == "ref":
            for p in d["pl"]["p"]:
                if isinstance(p, dict) and p.get("n") in ("alphas", "variables"):
                    return p["n"]
            return cell_of(d["pl"]["l"], depth + 1)
        if d.get("k") == "use" and d["op"].get("k") in ("copy", "move"):
            return cell_of(d["op"]["pl"]["l"], depth + 1)
        return None
    W = {"alphas": set(), "variables": set()}
    for i, t in b.calls():
        if (t["callee"].get("def") or "").endswith("RefCell::borrow_mut") or (callee_path(t) or "").endswith("RefCell<T>::borrow_mut"):
            a = t["args"][0]
            c = cell_of(a["pl"]["l"]) if a.get("k") in ("copy", "move") else None
            if c in W:
                W[c].add(i)
    n = 0
    for h, body in cfg.loops:
        body = set(body)
        ts = sorted(trials & body)
        if not ts:
            continue
        for c in ("alphas", "variables"):
            n += 1
            bad = None
            for t_ in ts:
                nxt = b.blocks[t_]["t"].get("t")
                if nxt is None:
                    continue
                reach = cfg.reachable_from(nxt, avoid=(W[c] & body) | (set(range(len(b.blocks))) - body))
                if any(h in cfg.succ[x] for x in reach) or nxt == h:
                    bad = t_
                    break
            loc = ":".join((b.blocks[h]["t"].get("loc") or b.loc).split(":")[:2])
            r.inst("input_match_set: a rejected alternative restores `%s` before the next one (%d trials)" % (c, len(ts)), loc, "ok" if bad is None else "report")
            if bad is not None:
                r.report("FLW-8s|input_match_set|%s" % c, ":".join((b.blocks[bad]["t"].get("loc") or b.loc).split(":")[:2]), b.path,
                         "an alternative of an input set can be rejected and the next one tried without `%s` being restored: the half-made bindings of the rejected matrix reach the later alternatives, the context and the output -- `{[αnasal, +voice], [αcont, -voice]} > [αs.g.]` on `sa` gives `sa` instead of `sʰa`" % c)
    if n < 2:
        raise AnchorMissing("FLW-8s: no loop over the set's alternatives found in input_match_set")
    return r


# ---------------------------------------------------------------- FLW-3e: the trace is built group by group, nothing else decides it

def flw3e(ctx):
    """apply_rules_trace reports a group iff the phrase differs before and after that group. Its only way out (besides an
    error) is the end of the function, with the list the per-group loop filled: an early `return` -- "the final phrase
    equals the input, so nothing changed" -- hides groups whose changes a later group undid."""
    r = RuleResult("FLW-3e", "apply_rules_trace has no early return: the change list comes out of the loop over the groups", floor=1)
    lib = ctx.lib
    b = ctx.fn(lib, "asca::apply_rules_trace")
    tree = hirq.inline_helpers(lib, b, prefixes=("asca::",), max_depth=1, only_if=lambda cb: re.match(r"^asca::\w+$", cb.path) is not None and cb.path not in ("asca::apply_rule_groups",))
    rets = [x for x in hirq.walk(tree) if x["e"] == "ret" and not x.get("exp")]
    loops = [x for x in hirq.walk(tree) if x["e"] == "loop"]
    if not loops:
        raise AnchorMissing("FLW-3e: apply_rules_trace has no loop over the rule groups")
    r.inst("apply_rules_trace: %d early return(s)" % len(rets), fn_loc(b), "ok" if not rets else "report")
    for k, x in enumerate(rets):
        r.report("FLW-3e|apply_rules_trace|return#%d" % k, fn_loc(b, x.get("ln")), b.path,
                 "apply_rules_trace returns before / outside its per-group loop: whether a group is reported no longer depends on that group's before/after comparison alone -- with `e > a` then `a > e` on `pet` the trace is empty although both groups changed the word")
    return r


# ---------------------------------------------------------------- SYN-8: the word reader only builds at the end of the syllable

def syn8(ctx):
    """Word::fill_segments / Word::setup turn text into segments left to right; a character (a diacritic, a length mark)
    applies to the segment being built, the last one of the syllable. The reader touches `sy.segments` only at its back:
    push_back / pop_back / back / back_mut (and reads). It never writes an earlier segment (`iter_mut`, `segments[k] = ..`,
    `insert`, `get_mut`): an earlier segment was fixed by an earlier piece of text, and rewriting it makes `ttʰ` (plain t,
    then aspirated t) read as a long aspirated t -- which the renderer spells differently."""
    r = RuleResult("SYN-8", "Word::fill_segments / Word::setup modify the syllable under construction only at its end (push_back / pop_back / back_mut), never an earlier segment", floor=6)
    lib = ctx.lib
    # get_mut: the `+` deromaniser edits the first copy of the last run (its index comes from get_seg_indices)
    BACK = {"push_back", "pop_back", "back", "back_mut", "len", "is_empty", "iter", "last", "contains", "clone", "extend", "truncate", "get", "get_mut", "front", "capacity"}
    n = 0
    for path in ("asca::word::Word::fill_segments", "asca::word::Word::setup"):
        b = ctx.fn(lib, path)
        k = 0
        for x in hirq.walk(b.hir["body"]):
            bad = None
            if x["e"] == "mcall" and "VecDeque<asca::seg::Segment>" in (x.get("rty") or ""):
                n += 1
                if x["name"] not in BACK:
                    bad = "`.%s(..)`" % x["name"]
            elif x["e"] in ("assign", "assignop"):
                l = hirq.strip(x["lhs"])
                if l.get("e") == "index" and "VecDeque<asca::seg::Segment>" in (l.get("of_ty") or ""):
                    n += 1
                    bad = "an indexed assignment `segments[..] = ..`"
            else:
                continue
            short = path.rsplit("::", 1)[-1]
            if bad:
                r.inst("%s: segment deque access #%d" % (short, k), fn_loc(b, x.get("ln")), "report")
                r.report("SYN-8|%s|#%d" % (short, k), fn_loc(b, x.get("ln")), path,
                         "the word reader rewrites a segment that is not the one being built (%s on the syllable's segments): what an earlier piece of the text produced changes when a later character is read, so `ttʰ` ([t][tʰ]) is read back as a long [tʰ] and the output of a run is no longer a fixed point of reading it again" % bad)
            elif x["e"] == "mcall":
                r.inst("%s: segment deque access #%d through `%s`" % (short, k, x["name"]), fn_loc(b, x.get("ln")), "ok")
            k += 1
    if n < 6:
        raise AnchorMissing("SYN-8: %d accesses of the syllable's segment deque in fill_segments / setup (expected >= 6)" % n)
    return r


# ---------------------------------------------------------------- CLI-17: the exported history is read with the root's deromanisers

def cli17(ctx):
    """`conv tag --recurse` exports the ROOT tag's words with the whole rule history. Those words are in the root's
    orthography, so the `into` aliases of the exported json are the root's (get_orig_alias_into) and nothing else; only the
    `from` aliases are the tag's own."""
    r = RuleResult("CLI-17", "convert::from_seq, --recurse: the `into` of the exported json comes from get_orig_alias_into alone (the words exported are the root's)", floor=1)
    bn = ctx.bin
    b = ctx.fn(bn, "asca_bin::cli::convert::from_seq")
    root = b.hir["body"]
    binds = Bindings(root, b.hir.get("params"))
    par = hirq.parent_map(root)
    n = 0
    for x in hirq.walk(root):
        if x["e"] != "struct" or not (x.get("path") or "").endswith("AscaJson"):
            continue
        fields = {f[0]: f[1] for f in x.get("fields", [])}
        # is this the recursive export? its words come from get_orig_words
        ws = _value_sources(fields.get("words"), binds) if "words" in fields else set()
        if not any(s[0] == "call" and s[1].endswith("get_orig_words") for s in ws):
            continue
        n += 1
        ss = _value_sources(fields.get("into"), binds) if "into" in fields else set()
        ok = bool(ss) and all(s[0] == "call" and s[1].endswith("get_orig_alias_into") for s in ss)
        r.inst("from_seq: the recursive export pairs the root's words with the root's deromanisers", fn_loc(b, x.get("ln")), "ok" if ok else "report")
        if not ok:
            r.report("CLI-17|from_seq|into", fn_loc(b, x.get("ln")), b.path,
                     "the `into` aliases of the recursive export are not just get_orig_alias_into's (they are built from %s): the exported words are the root tag's, so a daughter tag's own @into section reads them with the wrong deromaniser and one run of the exported json no longer equals the staged `seq` result"
                     % ", ".join(sorted("%s %s" % s for s in ss)))
    if n < 1:
        raise AnchorMissing("CLI-17: no AscaJson built from get_orig_words found in from_seq")
    return r


# ---------------------------------------------------------------- TAB-13: a table entry spelled base+diacritic is base plus that diacritic

def tab13(ctx):
    """The word reader takes the longest grapheme of src/cardinals.json first. A table key that is itself `<another key> +
    <diacritic(s)>` (β̞, ɺ̪) is therefore what the text `β` `̞` reads as -- while the renderer writes the very same text for
    the bundle it gets by APPLYING the diacritic to β (Segment::set_feat semantics, FType::to_node_mask, the Place
    layout). If the table's bundle for the composite key is not that bundle, a segment a rule produced is written as
    text that reads back as a different segment: parse(render(w)) != w, and a staged run diverges from a single run."""
    from engine_tab import node_mask_table, place_consts
    r = RuleResult("TAB-13", "src/cardinals.json: every key that is another key followed by diacritics has the bundle obtained by applying those diacritics to that key's bundle (or the diacritic is vacuous there / its prerequisites fail)", floor=30)
    _, tbl = node_mask_table(ctx)
    pc = place_consts(ctx)
    need = ("LAB_BIT", "COR_BIT", "DOR_BIT", "PHR_BIT", "LAB_OFF", "COR_OFF", "DOR_OFF", "LAB_MSK", "COR_MSK", "DOR_MSK", "PHR_MSK")
    if any(k not in pc for k in need) or len(tbl) < 20:
        raise AnchorMissing("TAB-13: Place constants / FType::to_node_mask table not found")
    cj = json.loads(ctx.read("src/cardinals.json"))
    dj = json.loads(ctx.read("src/diacritics.json"))
    SUB = {"Labial": ("LAB_BIT", "LAB_OFF", "LAB_MSK"), "Coronal": ("COR_BIT", "COR_OFF", "COR_MSK"), "Dorsal": ("DOR_BIT", "DOR_OFF", "DOR_MSK"), "Pharyngeal": ("PHR_BIT", None, "PHR_MSK")}
    BYTE = {"Root": "root", "Manner": "manner", "Laryngeal": "laryngeal"}
    presence = pc["LAB_BIT"] | pc["COR_BIT"] | pc["DOR_BIT"] | pc["PHR_BIT"]

    def get_node(seg, node):
        if node in BYTE:
            return seg[BYTE[node]]
        bit, off, msk = SUB[node]
        p = seg["place"]
        if not p or not (p & pc[bit]):
            return None
        return (p >> (pc[off] if off else 0)) & pc[msk]

    def set_node(seg, node, val):
        seg = dict(seg)
        if node in BYTE:
            seg[BYTE[node]] = val
            return seg
        bit, off, msk = SUB[node]
        p = seg["place"] or 0
        sh = pc[off] if off else 0
        if val is None:
            p &= ~(pc[bit] | (pc[msk] << sh))
        else:
            p = (p & ~(pc[msk] << sh)) | pc[bit] | ((val & pc[msk]) << sh)
        seg["place"] = p if (p & presence) else None
        return seg

    def apply(seg, payload):
        for k, v in (payload or {}).items():
            if k in SUB:
                seg = set_node(seg, k, 0 if v else None)
                continue
            if k in BYTE or k == "Place":
                continue
            node, mask, _ = tbl[k]
            n_ = get_node(seg, node)
            if v:
                seg = set_node(seg, node, (n_ or 0) | mask)
            elif n_ is not None:
                seg = set_node(seg, node, n_ & ~mask)
        return seg

    def meets(seg, pre):
        for k, v in (pre or {}).items():
            if k in SUB:
                if (get_node(seg, k) is not None) != v:
                    return False
                continue
            if k in BYTE or k == "Place":
                continue
            node, mask, _ = tbl[k]
            n_ = get_node(seg, node)
            if n_ is None or (v and (n_ & mask) != mask) or ((not v) and (n_ & mask) != 0):
                return False
        return True
    dia = {x["diacrit"]: x for x in dj}
    n = 0
    for K, v in cj.items():
        for cut in range(len(K) - 1, 0, -1):
            B, rest = K[:cut], K[cut:]
            if B in cj and all(ch in dia for ch in rest):
                n += 1
                seg = dict(cj[B])
                ok = True
                for ch in rest:
                    if not meets(seg, dia[ch]["prereqs"]):
                        ok = False
                        break
                    seg = apply(seg, dia[ch]["payload"])
                want = {"root": v.get("root"), "manner": v.get("manner"), "laryngeal": v.get("laryngeal"), "place": v.get("place")}
                base = {"root": cj[B].get("root"), "manner": cj[B].get("manner"), "laryngeal": cj[B].get("laryngeal"), "place": cj[B].get("place")}
                seg = {k_: seg.get(k_) for k_ in want}
                if not ok or seg == base:
                    r.inst("%s: the reader's prerequisites fail on %s / the diacritic changes nothing there -- no text collision" % (K, B), "src/cardinals.json", "ok", nontrivial=False)
                elif seg == want:
                    r.inst("%s = %s + %s" % (K, B, " ".join("U+%04X" % ord(c) for c in rest)), "src/cardinals.json", "ok")
                else:
                    diff = [f for f in ("root", "manner", "laryngeal", "place") if seg[f] != want[f]]
                    r.inst("%s != %s + %s" % (K, B, " ".join("U+%04X" % ord(c) for c in rest)), "src/cardinals.json", "report")
                    r.report("TAB-13|%s" % K, "src/cardinals.json", "CARDINALS_MAP",
                             "the table entry `%s` is not `%s` with the diacritic(s) applied (%s): a rule that gives %s the diacritic's features produces a segment the renderer spells `%s`, and that text reads back as the table entry -- a different segment"
                             % (K, B, ", ".join("%s %s vs %s" % (f, seg[f], want[f]) for f in diff), B, K))
                break
    if n < 30:
        raise AnchorMissing("TAB-13: %d composite keys in cardinals.json (expected >= 30)" % n)
    return r


# ---------------------------------------------------------------- FLW-17: "start of the next syllable" is handed back one step early

def flw17(ctx):
    """SubRule::substitution hands the scan its next position as `last_pos`, which the caller then *increments*. After an
    output element that rewrote a whole syllable the arms set `last_pos = (s + k, 0)` -- the start of the next syllable --
    and, when that element was the last one, step back (`if state_index >= self.output.len()-1 { last_pos.decrement(..)
    }`) so that the increment lands ON that start, not one segment past it. Every arm that moves the cursor to the start
    of a later syllable has that step back (an Engler-style majority rule: eight sites agree)."""
    r = RuleResult("FLW-17", "SubRule::substitution: every arm that sets last_pos to the start of a later syllable (`syll_index = s + k; seg_index = 0`) is followed by the conditional `last_pos.decrement(..)` for the last output element", floor=7)
    lib = ctx.lib
    b = ctx.fn(lib, "asca::subrule::SubRule::substitution")
    root = b.hir["body"]
    par = hirq.parent_map(root)
    n = 0
    sites = []
    for x in hirq.walk(root):
        if x["e"] != "assign":
            continue
        l = hirq.strip(x["lhs"])
        if not (l.get("e") == "field" and l["name"] == "syll_index" and hirq.strip(l["a"]).get("local") == "last_pos"):
            continue
        rhs = hirq.strip(x["rhs"])
        if not (rhs.get("e") == "binary" and rhs["op"] == "Add"):
            continue
        sites.append(x)
    # group the two assignments of one `if .. { = s + 2 + adj } else { = s + 1 + adj }` by their enclosing block statement
    seen_blocks = set()
    k = 0
    for x in sites:
        # the block in which the statement (or the if/else around it) is a direct statement
        child, p = x, par.get(id(x))
        blk = None
        while p is not None:
            if p.get("e") == "block":
                items = list(p.get("stmts", [])) + ([p["tail"]] if p.get("tail") is not None else [])
                after = hirq.stmts_after(p, child)
                zero = any(hirq.strip(st).get("e") == "assign" and hirq.strip(hirq.strip(st)["lhs"]).get("name") == "seg_index" and hirq.strip(hirq.strip(hirq.strip(st)["lhs"])["a"]).get("local") == "last_pos" for st in after)
                if zero:
                    blk = p
                    break
            child, p = p, par.get(id(p))
        if blk is None or (id(blk), id(child)) in seen_blocks:
            continue
        seen_blocks.add((id(blk), id(child)))
        n += 1
        after = hirq.stmts_after(blk, child)
        stepped = any(any(y["e"] == "mcall" and y["name"] == "decrement" and hirq.strip(y["recv"]).get("local") == "last_pos" for y in hirq.walk(st)) for st in after if hirq.strip(st).get("e") == "if")
        r.inst("substitution: cursor moved to the start of a later syllable #%d is stepped back for the last output element" % k, fn_loc(b, x.get("ln")), "ok" if stepped else "report")
        if not stepped:
            r.report("FLW-17|substitution|#%d" % k, fn_loc(b, x.get("ln")), b.path,
                     "this arm sets last_pos to the start of the next syllable but, unlike its sibling arms, does not step back when it handled the last output element: the caller's increment then lands on the SECOND segment of that syllable and the scan skips it -- `%=1 > 1:[+stress]` stresses only every other syllable of `ka.ta.ma.na`")
        k += 1
    if n < 7:
        raise AnchorMissing("FLW-17: %d arms moving last_pos to the start of a later syllable found (expected >= 7)" % n)
    return r


# ---------------------------------------------------------------- TAB-14: a test of one sub-node's presence bit guards that sub-node only

def tab14(ctx):
    """The 16-bit place word has four presence bits (LAB/COR/DOR/PHR_BIT) and four payload fields. In every method of
    `Place`, a branch taken on the presence bit of ONE sub-node touches that sub-node's constants only (the same three-letter
    family, or the all-presence mask): `if *d & DOR_BIT == 0 { *d &= !PHR_ASD }` -- a copy-pasted line -- clears the
    pharyngeal features of every segment that has no dorsal node."""
    r = RuleResult("TAB-14", "Place methods: a branch conditioned on one sub-node's presence bit uses only that sub-node's constants", floor=14)
    lib = ctx.lib
    PRES = {"LAB_BIT": "LAB", "COR_BIT": "COR", "DOR_BIT": "DOR", "PHR_BIT": "PHR"}
    n = 0

    def consts(node):
        return [y["path"].rsplit("::", 1)[-1] for y in hirq.walk(node) if y["e"] == "path" and (y.get("path") or "").startswith("asca::place::Place::") and (y.get("rk") or "").startswith("AssocConst")]
    for b in lib.bodies:
        if b.in_test_mod() or not b.hir or b.kind == "closure" or not b.path.startswith("asca::place::Place::"):
            continue
        n += 1
        bad = []
        for x in hirq.walk(b.hir["body"]):
            if x["e"] != "if":
                continue
            fam = {PRES[c] for c in consts(x["cond"]) if c in PRES}
            if len(fam) != 1:
                continue
            f = list(fam)[0]
            used = consts(x["then"]) + (consts(x["else"]) if x.get("else") is not None else [])
            other = sorted({c for c in used if c[:3] in ("LAB", "COR", "DOR", "PHR") and c[:3] != f})
            if other:
                bad.append((x, f, other))
        short = b.path.rsplit("::", 1)[-1]
        r.inst("Place::%s: presence tests guard their own sub-node" % short, fn_loc(b), "ok" if not bad else "report")
        for x, f, other in bad[:1]:
            r.report("TAB-14|%s|%s" % (short, f), fn_loc(b, x.get("ln")), b.path,
                     "a branch taken on the %s presence bit uses %s: the payload of another sub-node is edited depending on whether THIS one is present -- e.g. the pharyngeal features (ATR/RTR) of every segment without a dorsal node are cleared, so a stress-only rule turns `tˤ` into an unspellable segment" % (f, ", ".join(other)))
    if n < 14:
        raise AnchorMissing("TAB-14: %d methods of Place examined (expected >= 14)" % n)
    return r


# ---------------------------------------------------------------- CLI-18: a stage of `seq` runs and reports with what the tag itself configures

def cli18(ctx):
    """seq::run_sequence runs every entry of a tag with `asca::run(&entry.rules, &trace[i], &into, &from)`. (a) `into` / `from`
    are the tag's OWN alias file (parse_alias) or empty: the words of a `%parent` tag are the parent's output, already
    IPA, and the root's deromanisers are not applied to them again (get_orig_alias_into is for `conv tag --recurse`
    only). (b) When a stage fails, the error is printed against the very rule list, and the very aliases, the stage was
    run with -- the same expressions in `asca::run(..)` and `print_asca_errors(..)`: an error's group index counts groups
    of the list that was run (the filtered one), not of the file as written."""
    r = RuleResult("CLI-18", "seq::run_sequence: the aliases of a stage come from the tag's own alias file (or are empty), and errors are printed against the same rules / aliases the stage was run with", floor=4)
    bn = ctx.bin
    b = ctx.fn(bn, "asca_bin::cli::seq::run_sequence")
    root = b.hir["body"]
    binds = Bindings(root, b.hir.get("params"))
    ev = _CaretEval(bn)
    runs = [x for x in hirq.walk(root) if x["e"] == "call" and (hirq.strip(x["f"]).get("path") or "") == "asca::run" and len(x["args"]) == 4]
    prints = [x for x in hirq.walk(root) if x["e"] == "call" and (hirq.strip(x["f"]).get("path") or "").endswith("util::print_asca_errors") and len(x["args"]) == 5]
    if len(runs) != 1 or len(prints) != 1:
        raise AnchorMissing("CLI-18: run_sequence: asca::run (%d) / print_asca_errors (%d) call sites" % (len(runs), len(prints)))
    run, prn = runs[0], prints[0]
    for what, ai in (("into", 2), ("from", 3)):
        ss = _value_sources(run["args"][ai], binds)
        ok = bool(ss) and all(s[0] == "call" and (s[1].endswith("parse::parse_alias") or s[1].endswith("Vec::<T>::new") or s[1].endswith("Vec::new") or "vec::Vec" in s[1] and s[1].endswith("::new")) for s in ss)
        r.inst("run_sequence: `%s` of a stage is the tag's own alias file or empty" % what, fn_loc(b, run.get("ln")), "ok" if ok else "report")
        if not ok:
            r.report("CLI-18|run_sequence|%s" % what, fn_loc(b, run.get("ln")), b.path,
                     "the `%s` aliases a stage is run with do not come from the tag's own alias file alone (built from %s): a `%%parent` tag without an alias inherits the root's deromanisers, which are then applied to the parent's IPA output again at every stage -- `seq` no longer equals the exported history (`conv tag --recurse`), which applies them once"
                     % (what, ", ".join(sorted("%s %s" % s for s in ss))))
    for what, ri, pi in (("rules", 0, 2), ("into", 2, 3), ("from", 3, 4)):
        a1, a2 = ev.canon(run["args"][ri], {}), ev.canon(prn["args"][pi], {})
        ok = a1 == a2
        r.inst("run_sequence: errors are printed against the same `%s` the stage was run with" % what, fn_loc(b, prn.get("ln")), "ok" if ok else "report")
        if not ok:
            r.report("CLI-18|run_sequence|print-%s" % what, fn_loc(b, prn.get("ln")), b.path,
                     "a failed stage is run with `%s` but its error is printed against `%s`: the group / line index inside the error counts in the list that was run, so with a `!` / `~` filter the message quotes another rule (or the formatter indexes out of bounds)" % (a1, a2))
    return r


# ---------------------------------------------------------------- SYN-9: what an alias string may not contain is what can be escaped

def syn9(ctx):
    """In an alias rule a replacement string is any run of characters that are not special; a special character is written
    with an escape. AliasLexer::is_valid_char (what may stand in a string) and the char-escape arm of get_unicode_escape
    (what can be escaped) list the same characters -- the source says so itself ("Make sure this matches with char
    escapes"). A special character missing from the first list is swallowed into the string: `$ > ∅` then prints `∅` for
    every syllable boundary while its documented synonym `$ > *` deletes them."""
    r = RuleResult("SYN-9", "AliasLexer: the characters is_valid_char excludes are exactly those of the char-escape arm of get_unicode_escape (and `*` / `∅` are both among them)", floor=1)
    lib = ctx.lib
    iv = ctx.fn(lib, "asca::alias::lexer::AliasLexer::is_valid_char")
    ue = ctx.fn(lib, "asca::alias::lexer::AliasLexer::get_unicode_escape")

    def chars_in(node):
        out = set()
        for y in hirq.walk(node):
            if y["e"] == "lit" and y.get("lk") == "char":
                out.add(y["lit"])
        for q in hirq.walk_pats(node):
            if q.get("p") == "lit" and q.get("lk") == "char":
                out.add(q["lit"])
        return out
    excluded = chars_in(iv.hir["body"])
    escapes = set()
    for m in hirq.matches(ue):
        for arm in m["arms"]:
            cs = {q["lit"] for q in hirq.walk_pats(arm["pat"]) if q.get("p") == "lit" and q.get("lk") == "char"}
            if "\\" in cs and len(cs) > len(escapes):
                escapes = cs
    if len(escapes) < 5 or len(excluded) < 5:
        raise AnchorMissing("SYN-9: the character lists of is_valid_char (%d) / get_unicode_escape (%d) were not found" % (len(excluded), len(escapes)))
    missing = sorted(escapes - excluded)
    extra = sorted(excluded - escapes)
    ok = not missing and not extra and {"*", "∅"} <= excluded
    r.inst("AliasLexer: is_valid_char excludes %s; the escape arm lists %s" % ("".join(sorted(excluded)), "".join(sorted(escapes))), fn_loc(iv), "ok" if ok else "report")
    if not ok:
        r.report("SYN-9|is_valid_char", fn_loc(iv), iv.path,
                 "is_valid_char and the char-escape arm of get_unicode_escape disagree (%s): a special character that is_valid_char lets through is read as part of a replacement string instead of as its token -- with `∅` missing, `$ > ∅` prints a `∅` at every syllable boundary while `$ > *` deletes them"
                 % "; ".join(x for x in ("only escapable: " + " ".join(missing) if missing else "", "only excluded: " + " ".join(extra) if extra else "") if x))
    return r


# ---------------------------------------------------------------- PAN-18: a backward walk stops at index 0

def pan18(ctx, unit=None, prefix="asca::", floor=0):
    """`while xs[i - 1] == last { i -= 1 }` walks backwards over a run. On unsigned indices the walk needs its own stop:
    a loop whose condition indexes with `i - k` also tests `i > 0` (`i >= k`, `i != 0`) in the same condition, ahead of
    the index -- otherwise a run that reaches the start of the list underflows (`attempt to subtract with overflow`)."""
    r = RuleResult("PAN-18", "a `while` condition that indexes with `i - k` tests `i > 0` / `i >= k` first (no backward walk runs off the start of a list)", floor=floor)
    lib = unit or ctx.lib
    n = 0
    for b in lib.bodies:
        if b.in_test_mod() or not b.hir or b.kind == "closure" or not b.path.startswith(prefix):
            continue
        k = 0
        for x in hirq.walk(b.hir["body"]):
            if x["e"] != "loop" or "While" not in str(x.get("src")):
                continue
            body = hirq.strip(x["body"])
            cond = body.get("cond") if body.get("e") == "if" else None
            if cond is None:
                continue
            for y in hirq.walk(cond):
                if y["e"] != "index":
                    continue
                subs = [z for z in hirq.walk(y["i"]) if z["e"] == "binary" and z["op"] == "Sub"]
                if not subs:
                    continue
                n += 1
                var = hirq.strip(subs[0]["a"])
                vname = var.get("local") if var.get("e") == "path" else None
                guarded = False
                for z in hirq.walk(cond):
                    if z["e"] == "binary" and z["op"] in ("Gt", "Ge", "Ne", "Lt", "Le") and any(w["e"] == "path" and w.get("local") == vname for w in hirq.walk(z)) \
                            and not any(w is y for w in hirq.walk(z)):
                        guarded = True
                short = b.path.rsplit("::", 1)[-1]
                r.inst("%s: backward index `%s - ..` in a loop condition #%d is bounded below" % (short, vname, k), fn_loc(b, x.get("ln")), "ok" if guarded else "report")
                if not guarded:
                    r.report("PAN-18|%s|#%d" % (short, k), fn_loc(b, x.get("ln")), b.path,
                             "the loop walks backwards with `[%s - 1]` in its condition and has no test that `%s` is still above 0: when the run it walks over reaches the start of the list the subtraction underflows and the call panics -- with `+´ > [+str]` the word `á.ta` (a one-segment syllable) panics in Word::new" % (vname, vname))
                k += 1
    if n < floor:
        raise AnchorMissing("PAN-18: %d backward walks found (expected >= %d)" % (n, floor))
    r.analysed = {"backward_walks": n}
    return r


# ---------------------------------------------------------------- RT-7: rendering removes marks, not text that looks like a replacement

def rt7(ctx):
    """Word::render builds the printed word and then rewrites syllable boundaries (`$ > str`). Whatever it removes or
    rewrites in the finished buffer it finds by LITERAL marks (`.`, `ˈ`, `ˌ`): a `strip_prefix` / `trim_start_matches` /
    `replace` whose *pattern* is the user's replacement string removes text that merely looks like a boundary -- a word
    whose first segment is printed with that very string loses it."""
    r = RuleResult("RT-7", "Word::render: every strip / trim / replace on the output buffer searches for literal marks, never for an alias-supplied string", floor=1)
    lib = ctx.lib
    b = ctx.fn(lib, "asca::word::Word::render")
    n = 0
    k = 0
    for x in hirq.walk(b.hir["body"]):
        if x["e"] != "mcall" or x["name"] not in ("strip_prefix", "strip_suffix", "trim_start_matches", "trim_end_matches", "trim_matches", "replace", "replacen", "starts_with", "ends_with", "split", "find", "rfind") or not x["args"]:
            continue
        if "str" not in (x.get("rty") or "").lower():
            continue
        n += 1
        pat = hirq.strip(x["args"][0])
        literal = all(y["e"] in ("lit", "array", "addr") for y in hirq.walk(pat))
        removing = x["name"] in ("strip_prefix", "strip_suffix", "trim_start_matches", "trim_end_matches", "trim_matches", "replace", "replacen")
        bad = removing and not literal
        r.inst("render: `%s` #%d searches for %s" % (x["name"], k, "literal marks" if literal else "a computed string"), fn_loc(b, x.get("ln")), "report" if bad else "ok")
        if bad:
            r.report("RT-7|render|%s#%d" % (x["name"], k), fn_loc(b, x.get("ln")), b.path,
                     "`%s` removes / rewrites text of the printed word that equals an alias-supplied string, not a mark the renderer wrote: with `$ > '` and `ʔ > '` the word `ʔa.ta` is printed `a'ta` instead of `'a'ta` (its first segment looks like a leading boundary and is stripped)" % x["name"])
        k += 1
    if n < 1:
        raise AnchorMissing("RT-7: no string search on the output buffer found in Word::render")
    return r


# ---------------------------------------------------------------- TAB-15: a syntax sign is not an IPA letter

def tab15(ctx):
    """The rule lexer tries get_special_char before get_ipa. A character that get_special_char (or get_bracket) claims as
    a syntax sign can therefore never be written as a segment again: accepting `ø` as a spelling of `∅` turns the rule
    `ø > e / _t` into the insertion `∅ > e / _t`. The characters those functions match are disjoint from the characters
    of the base phones (src/cardinals.json) and of the diacritics -- in both lexers."""
    r = RuleResult("TAB-15", "the characters Lexer / AliasLexer::get_special_char and get_bracket match as syntax signs are not characters of any base phone or diacritic", floor=4)
    lib = ctx.lib
    cj = json.loads(ctx.read("src/cardinals.json"))
    dj = json.loads(ctx.read("src/diacritics.json"))
    ipa = set()
    for k in cj:
        ipa |= set(k)
    ipa |= {d["diacrit"] for d in dj}
    n = 0
    for path in ("asca::lexer::Lexer::get_special_char", "asca::lexer::Lexer::get_bracket", "asca::alias::lexer::AliasLexer::get_special_char", "asca::alias::lexer::AliasLexer::get_bracket"):
        b = lib.body(path)
        if b is None or not b.hir:
            continue
        n += 1
        signs = set()
        for m in hirq.matches(b):
            for arm in m["arms"]:
                for q in hirq.walk_pats(arm["pat"]):
                    if q.get("p") == "lit" and q.get("lk") == "char":
                        signs.add(q["lit"])
        for y in hirq.walk(b.hir["body"]):
            if y["e"] == "binary" and y["op"] in ("Eq", "Ne"):
                for side in (y["a"], y["b"]):
                    s0 = hirq.strip(side)
                    if s0.get("e") == "lit" and s0.get("lk") == "char":
                        signs.add(s0["lit"])
        clash = sorted(c for c in signs if c in ipa)
        short = path.rsplit("::", 2)[-2] + "::" + path.rsplit("::", 1)[-1]
        r.inst("%s: %d syntax signs, none of them an IPA character" % (short, len(signs)), fn_loc(b), "ok" if not clash else "report")
        if clash:
            r.report("TAB-15|%s|%s" % (short, "".join(clash)), fn_loc(b), path,
                     "%s treats %s as a syntax sign, but %s a character of the base-phone / diacritic tables: the sign is lexed first, so that phone can no longer be written in a rule -- `ø > e / _t` becomes the insertion `∅ > e / _t` and inserts `e` before every `t` of a word that has no ø"
                     % (short, " ".join("`%s`" % c for c in clash), "it is" if len(clash) == 1 else "they are"))
    if n < 2:
        raise AnchorMissing("TAB-15: get_special_char / get_bracket of the two lexers not found")
    return r


# ---------------------------------------------------------------- CLI-19: the -o file is the joined result, the json schema has no optional keys

def cli19(ctx):
    """(a) `asca run -o f` writes `res.join(LINE_ENDING)`: one line per result, empty results included -- the text handed
    to write_to_file in run::output_result IS that join (no trim, no filter: a word list ending in blank lines ends in
    blank results). (b) The json schema shared with the web UI has exactly the keys of `RuleGroup` / `AscaJson`: no
    field is skipped when writing unless it is also defaulted when reading (`skip_serializing_if` without `default` makes
    `conv asca` write a file that `conv json` / `run -j` reject)."""
    r = RuleResult("CLI-19", "run::output_result writes res.join(LINE_ENDING) unedited; no serde field of RuleGroup / AscaJson is skipped on writing without being defaulted on reading", floor=2)
    bn = ctx.bin
    b = ctx.fn(bn, "asca_bin::cli::run::output_result")
    binds = Bindings(b.hir["body"], b.hir.get("params"))
    n = 0
    for x in hirq.walk(b.hir["body"]):
        if x["e"] == "call" and (hirq.strip(x["f"]).get("path") or "").endswith("util::write_to_file") and len(x["args"]) >= 2:
            n += 1
            c = hirq.strip(x["args"][1])
            while isinstance(c, dict) and c.get("e") == "path" and "hid" in c and binds.src.get(c["hid"], (None,))[0] == "expr":
                c = hirq.strip(binds.src[c["hid"]][1])
            ok = c.get("e") == "mcall" and c["name"] == "join" and _value_sources(c["recv"], binds) == {("param", "res")}
            r.inst("output_result: the text written is `res.join(..)` itself", fn_loc(b, x.get("ln")), "ok" if ok else "report")
            if not ok:
                r.report("CLI-19|output_result|text", fn_loc(b, x.get("ln")), b.path,
                         "the text written to the -o file is not `res.join(LINE_ENDING)` itself (outermost operation: `%s`): results are dropped or edited on the way to the file -- a trailing `trim_end()` removes the empty results of a word list that ends in blank lines, so the file has fewer lines than the word file" % (c.get("name") or c.get("e")))
    if n < 1:
        raise AnchorMissing("CLI-19: output_result does not call util::write_to_file")
    # (b) serde attributes, read off the two type definitions
    for rel, ty in (("src/lib.rs", "RuleGroup"), ("src/cli/mod.rs", "AscaJson")):
        src = ctx.read(rel)
        m = re.search(r"(?:pub(?:\([a-z]+\))?\s+)?struct\s+%s\s*\{(.*?)\n\}" % ty, src, re.S)
        if not m:
            raise AnchorMissing("CLI-19: struct %s not found in %s" % (ty, rel))
        n += 1
        body = m.group(1)
        bad = []
        # attributes belong to the field that follows them
        pending = ""
        for line in body.split("\n"):
            t = line.strip()
            if t.startswith("#["):
                pending += t
                continue
            fm = re.match(r"(?:pub(?:\([a-z]+\))?\s+)?(\w+)\s*:", t)
            if fm:
                if "skip_serializing" in pending and "default" not in pending:
                    bad.append(fm.group(1))
                pending = ""
        r.inst("%s: every field skipped on writing is defaulted on reading" % ty, rel, "ok" if not bad else "report")
        if bad:
            r.report("CLI-19|%s|%s" % (ty, ",".join(bad)), rel, ty,
                     "field(s) %s of %s are left out of the json when empty (`skip_serializing_if`) but are still required when reading (no `default`): `conv asca` writes a file for an unnamed rule group that `conv json` and `run -j` reject with `missing field`, so rsca -> json -> rsca fails" % (", ".join("`%s`" % f for f in bad), ty))
    return r


# ---------------------------------------------------------------- SHR-7: an optional is handed to its matcher, whatever is left of the word

def shr7(ctx):
    """`(X,M:N)` equals the set of its M..N explicit repetitions -- also at the word edge, and also when X holds elements
    that consume nothing (`$`). SubRule::context_match hands an Optional straight to context_match_option: the arm has no
    pre-check of its own (a "not enough segments left" fast exit counts `$` as a segment and rejects `(C$,2:3)` where
    `_C$C$` matches)."""
    r = RuleResult("SHR-7", "SubRule::context_match: the Optional arm is a plain delegation to context_match_option (no early exit of its own)", floor=1)
    lib = ctx.lib
    b = ctx.fn(lib, "asca::subrule::SubRule::context_match")
    n = 0
    for m in hirq.matches(b):
        if not (m.get("sty") or "").lstrip("&").endswith("asca::parser::ParseElement"):
            continue
        for arm in m["arms"]:
            if not any((p.get("path") or "").endswith("ParseElement::Optional") for p in hirq.flat_pats(arm["pat"])):
                continue
            calls = [y for y in hirq.walk(arm["body"]) if y["e"] == "mcall" and (y.get("def") or "").endswith("SubRule::context_match_option")]
            if not calls:
                continue
            n += 1
            extra = [y for y in hirq.walk(arm["body"]) if y["e"] in ("if", "ret") and not y.get("exp") and not any(y is z for c in calls for z in hirq.walk(c))]
            ok = not extra
            r.inst("context_match: the Optional arm only calls context_match_option", fn_loc(b, arm.get("ln")), "ok" if ok else "report")
            if not ok:
                r.report("SHR-7|context_match|Optional", fn_loc(b, extra[0].get("ln")), b.path,
                         "the Optional arm of context_match decides something before handing the optional to context_match_option (an early exit): an estimate of `how many segments the optional needs` counts elements that consume nothing (`$`), so `a > e / _(C$,2:3)` is rejected near the word edge where its expansion `_C$C$` matches")
    if n < 1:
        raise AnchorMissing("SHR-7: the Optional arm of context_match calling context_match_option was not found")
    return r


# ---------------------------------------------------------------- SUP-12: a composite modifier matcher only says no when a component said no

def sup12(ctx):
    """A matrix matches a segment iff every named feature has the named value. SubRule::match_modifiers and
    match_supr_mod_seg are conjunctions of component tests (match_feat_mod per feature, match_node_mod per node,
    match_stress, match_seg_length, match_tone): a constant `Ok(false)` they return is the answer of one of those
    components. On MIR, every block that stores `Ok(const false)` into the return place is dominated by a call to a
    component matcher `SubRule::match_*`; a `no` decided before any component was asked (a shortcut on the shape of the
    segment, e.g. 'placeless segments never match a feature from c.g. on') overrides the per-feature rule."""
    r = RuleResult("SUP-12", "SubRule::match_modifiers / match_supr_mod_seg: every constant `Ok(false)` result is dominated by a call to a component matcher SubRule::match_* (MIR dominators)", floor=4)
    lib = ctx.lib
    n = 0
    for name in ("match_modifiers", "match_supr_mod_seg"):
        b = ctx.fn(lib, "asca::subrule::SubRule::" + name)
        cfg = b.cfg
        comp = [i for i, t in b.calls() if (callee_path(t) or "").startswith("asca::subrule::SubRule::match_")
                and not (callee_path(t) or "").endswith("::" + name)]
        if not comp:
            raise AnchorMissing("SUP-12: %s calls no component matcher SubRule::match_*" % name)
        for i, bl in enumerate(b.blocks):
            if bl.get("cleanup") or i not in cfg.reachable_from(0):
                continue
            for s in bl["s"]:
                if s["k"] != "assign" or s["lhs"]["l"] != 0 or s["lhs"]["p"]:
                    continue
                rv = s["rv"]
                if not (rv.get("k") == "agg" and rv.get("variant") == "Ok" and len(rv.get("ops") or []) == 1
                        and rv["ops"][0].get("k") == "const" and rv["ops"][0].get("bool") is False):
                    continue
                n += 1
                ok = any(c != i and cfg.dominates(c, i) for c in comp)
                line = int(s["loc"].rsplit(":", 2)[1]) if s.get("loc") else None
                r.inst("%s: `Ok(false)` follows a component matcher's answer" % name, fn_loc(b, line), "ok" if ok else "report")
                if not ok:
                    r.report("SUP-12|%s" % name, fn_loc(b, line), b.path,
                             "SubRule::%s returns `Ok(false)` on a path on which no component matcher (match_feat_mod / match_node_mod / match_stress / match_seg_length) has been asked: the matrix is refused for a reason other than a named feature's value -- e.g. `[-c.g.]` no longer matches `h` / `ʔ` when placeless segments are rejected up front" % name)
    if n < 4:
        raise AnchorMissing("SUP-12: %d constant Ok(false) results examined (expected >= 4)" % n)
    return r
