"""ENV engine (C03): the environment of a rule is matched in the right direction, and contexts / exceptions go through the
same machinery with the right sign.

ENV-1  SubRule::match_contexts_and_exceptions: for contexts and for exceptions alike, the *before* half is the reversed
       state list matched by match_before_env on the reversed word at the reversed start position; the *after* half is
       the state list matched by match_after_env on the word at the end position; both halves are required (&&), an empty
       half is vacuous; `is_context` is true for contexts and false for exceptions; the verdict is
       `!is_expt_match && is_cont_match`
ENV-2  direction flag: match_before_env calls context_match with forwards = false, match_after_env with true, and every
       context matcher hands its own `forwards` on to every callee that has such a parameter
"""
import hirq
from core import AnchorMissing, RuleResult, fn_loc
from engine_err import for_loops, expr_name, single_lets

SUB = "asca::subrule::SubRule::"


def env1(ctx):
    r = RuleResult("ENV-1", "contexts and exceptions: before-half reversed and matched on the reversed word at the reversed position, after-half on the word; both required; verdict = context && !exception", floor=24)
    lib = ctx.lib
    b = ctx.fn(lib, SUB + "match_contexts_and_exceptions")
    KEEP = {SUB + "match_before_env", SUB + "match_after_env", SUB + "get_contexts", SUB + "get_exceptions"}
    # helpers extracted from this function are looked through (their calls are expanded in place)
    root = hirq.inline_helpers(lib, b, keep=KEEP)
    pnames = b.param_names
    phid = {}
    for p in b.hir.get("params") or []:
        for q in hirq.walk_pats(p):
            if q.get("p") == "bind":
                phid[q["name"]] = q.get("hid")
    word_p, start_p, end_p = pnames[1], pnames[2], pnames[3]
    D_word = hirq.derived_hids(root, {phid[word_p]})
    D_start = hirq.derived_hids(root, {phid[start_p]})
    D_end = hirq.derived_hids(root, {phid[end_p]})
    # the reversed word: bindings whose initialiser is `<word>.reverse()`
    rev_seeds = set()
    for n in hirq.walk(root):
        if n["e"] == "let" and n.get("init") is not None and n["pat"].get("p") == "bind":
            i0 = hirq.strip(n["init"])
            if i0.get("e") == "mcall" and i0["name"] == "reverse" and hirq.path_hid(i0["recv"]) in D_word:
                rev_seeds.add(n["pat"]["hid"])
    if len(rev_seeds) != 1:
        raise AnchorMissing("match_contexts_and_exceptions: `let word_rev = word.reverse()` not found")
    D_rev = hirq.derived_hids(root, rev_seeds)
    D_word_only = D_word - D_rev
    src = {}
    for n in hirq.walk(root):
        if n["e"] == "let" and n.get("init") is not None and n["pat"].get("p") == "bind":
            i0 = hirq.strip(n["init"])
            if i0.get("e") == "mcall" and i0["name"] in ("get_contexts", "get_exceptions"):
                src[n["pat"]["name"]] = i0["name"]
    reversed_hids = {hirq.path_hid(m["recv"]) for m in hirq.walk(root) if m["e"] == "mcall" and m["name"] == "reverse" and not m["args"]}
    fb = ctx.fn(lib, SUB + "match_before_env")
    fa = ctx.fn(lib, SUB + "match_after_env")
    ib = fb.param_names.index("is_context") - 1
    ia = fa.param_names.index("is_context") - 1
    lit_lets = {n["pat"]["hid"]: hirq.strip(n["init"]).get("lit") for n in hirq.walk(root)
                if n["e"] == "let" and n["pat"].get("p") == "bind" and n.get("init") is not None and hirq.strip(n["init"]).get("lk") == "bool"}

    def bool_of(e):
        e0 = hirq.strip(e)
        if e0.get("lk") == "bool":
            return e0["lit"]
        h = hirq.path_hid(e0)
        return lit_lets.get(h)
    all_lets = {n["pat"]["hid"]: n["init"] for n in hirq.walk(root) if n["e"] == "let" and n["pat"].get("p") == "bind" and n.get("init") is not None and "hid" in n["pat"]}
    seen = {}
    for pat, it, body, ln in for_loops(root):
        base = expr_name(it)
        kind = src.get(base[-1]) if base[0] == "local" else None
        if kind is None or pat is None or pat.get("p") != "tup" or len(pat["pats"]) != 2:
            continue
        is_ctx = kind == "get_contexts"
        label = "contexts" if is_ctx else "exceptions"
        seen[label] = ln
        D_bef = hirq.derived_hids(body, {pat["pats"][0].get("hid")})
        D_aft = hirq.derived_hids(body, {pat["pats"][1].get("hid")})
        iffs = [n for n in hirq.walk(body) if n["e"] == "if" and not n.get("inl")]
        if not iffs:
            raise AnchorMissing("%s loop: no `if`" % label)
        iff = iffs[0]

        def check(ok, what, key, msg):
            r.inst("%s: %s" % (label, what), fn_loc(b, ln), "ok" if ok else "report")
            if not ok:
                r.report("ENV-1|%s|%s" % (label, key), fn_loc(b, iff["ln"]), b.path, "%s: %s" % (label, msg))
        # the conjunction that holds both calls (in the condition itself or inside a helper expanded into it)
        both = None
        for n in hirq.walk(iff["cond"]):
            if n["e"] == "binary" and n["op"] in ("And", "Or", "BitAnd", "BitOr"):
                la = [m["name"] for m in hirq.walk(n["a"]) if m["e"] == "mcall" and m["name"] in ("match_before_env", "match_after_env")]
                lb = [m["name"] for m in hirq.walk(n["b"]) if m["e"] == "mcall" and m["name"] in ("match_before_env", "match_after_env")]
                if la and lb and set(la) != set(lb):
                    both = n
                    break
        if both is None:
            raise AnchorMissing("%s loop: no expression combining match_before_env and match_after_env" % label)
        check(both["op"] == "And", "the two halves are joined by &&", "and",
              "the before-half and the after-half are not both required (they are joined by %s)" % both["op"])
        calls = {}
        for h in (hirq.strip(both["a"]), hirq.strip(both["b"])):
            ms = [n for n in hirq.walk(h) if n["e"] == "mcall" and n["name"] in ("match_before_env", "match_after_env")]
            empt = [hirq.path_hid(n["recv"]) for n in hirq.walk(h) if n["e"] == "mcall" and n["name"] == "is_empty"]
            for m in ms:
                calls[m["name"]] = (m, h.get("op"), empt)
        mb, opb, emb = calls["match_before_env"]
        ma, opa, ema = calls["match_after_env"]
        sb = hirq.path_hid(mb["args"][0])
        check(sb in D_bef and sb in reversed_hids, "before-half is a reversed copy of the pair's first element", "before-states",
              "match_before_env is not given a reversed copy of the before-half")
        check(hirq.path_hid(mb["args"][1]) in D_rev, "before-half is matched on the reversed word", "before-word",
              "match_before_env is given `%s` instead of the reversed word" % (expr_name(mb["args"][1])[-1],))
        p0 = hirq.strip(mb["args"][2])
        hops = 0
        while p0.get("e") == "path" and p0.get("hid") in all_lets and hops < 4:
            p0 = hirq.strip(all_lets[p0["hid"]])
            hops += 1
        okp = p0.get("e") == "mcall" and p0["name"] == "reversed" and hirq.path_hid(p0["recv"]) in D_start and p0["args"] and hirq.path_hid(p0["args"][0]) in D_word_only
        check(bool(okp), "before-half starts at start_pos.reversed(word)", "before-pos", "match_before_env does not start at `%s.reversed(%s)`" % (start_p, word_p))
        check(opb == "Or" and sb in emb, "an empty before-half is vacuous", "before-empty", "the before-half is not skipped when empty")
        sa = hirq.path_hid(ma["args"][0])
        check(sa in D_aft and sa not in reversed_hids and sa not in D_bef, "after-half is the pair's second element, not reversed", "after-states",
              "match_after_env is not given the after-half as it stands")
        check(hirq.path_hid(ma["args"][1]) in D_word_only, "after-half is matched on the word itself", "after-word",
              "match_after_env is given `%s` instead of the word" % (expr_name(ma["args"][1])[-1],))
        check(hirq.path_hid(ma["args"][2]) in D_end, "after-half starts at end_pos", "after-pos", "match_after_env does not start at `%s`" % end_p)
        check(opa == "Or" and sa in ema, "an empty after-half is vacuous", "after-empty", "the after-half is not skipped when empty")
        vb, va = bool_of(mb["args"][ib]), bool_of(ma["args"][ia])
        check(vb is is_ctx and va is is_ctx, "is_context = %s in both calls" % is_ctx, "is_context", "is_context is (%s, %s); %s need %s" % (vb, va, label, is_ctx))
        flag = [expr_name(n["lhs"])[-1] for n in hirq.walk(iff["then"]) if n["e"] == "assign" and hirq.strip(n["rhs"]).get("lit") is True]
        rets = []
        for n in hirq.walk(iff["then"]):
            if n["e"] == "ret" and n.get("a") is not None and not n.get("inl"):
                a_ = hirq.strip(n["a"])
                if a_.get("e") == "call" and (hirq.strip(a_["f"]).get("path") or "").endswith("Result::Ok"):
                    rets.append(hirq.strip(a_["args"][0]).get("lit"))
        seen[label + "_flag"] = flag[0] if len(flag) == 1 else None
        seen[label + "_ret"] = rets[0] if len(rets) == 1 and not flag else None
        seen[label + "_ln"] = ln
        if is_ctx:
            check(len(flag) == 1 and not rets, "a match sets one flag (%s)" % flag, "flag", "a matching context does not set exactly one flag")
        else:
            # a matching exception sets a flag, or refuses at once
            check((len(flag) == 1 and not rets) or (not flag and rets == [False]), "a matching exception sets one flag (%s) or returns Ok(false) at once" % flag, "flag",
                  "a matching exception neither sets exactly one flag nor returns Ok(false)")
    if "contexts" not in seen or "exceptions" not in seen:
        raise AnchorMissing("match_contexts_and_exceptions: loops over contexts and exceptions not both found")
    # verdict
    fin = None
    for n in hirq.walk(root):
        if n["e"] == "call" and (hirq.strip(n["f"]).get("path") or "").endswith("Result::Ok") and not n.get("exp"):
            a = hirq.strip(n["args"][0])
            if a.get("e") == "binary" and not any(m["e"] == "mcall" and m["name"] in ("match_before_env", "match_after_env") for m in hirq.walk(a)):
                fin = a
    ok = False
    if fin is not None and fin["op"] == "And":
        l, rr = hirq.strip(fin["a"]), hirq.strip(fin["b"])
        neg = [x for x in (l, rr) if x.get("e") == "unary" and x.get("op") == "Not"]
        posv = [x for x in (l, rr) if x.get("e") == "path"]
        ok = len(neg) == 1 and len(posv) == 1 and expr_name(neg[0]["a"])[-1] == seen.get("exceptions_flag") and expr_name(posv[0])[-1] == seen.get("contexts_flag")
    if not ok and seen.get("exceptions_ret") is False:
        # exceptions refuse at once: what is left is `Ok(<context matched>)`
        for n in hirq.walk(root):
            if n["e"] == "call" and (hirq.strip(n["f"]).get("path") or "").endswith("Result::Ok") and not n.get("exp"):
                a = hirq.strip(n["args"][0])
                if a.get("e") == "path" and expr_name(a)[-1] == seen.get("contexts_flag") and n.get("ln", 0) > max(seen.get("exceptions_ln", 0), seen.get("contexts_ln", 0)):
                    ok = True
    r.inst("verdict is `!<exception matched> && <context matched>`", fn_loc(b), "ok" if ok else "report")
    if not ok:
        r.report("ENV-1|verdict", fn_loc(b), b.path, "the verdict is not `!%s && %s`" % (seen.get("exceptions_flag"), seen.get("contexts_flag")))
    inits = {n["pat"]["name"]: n["init"] for n in hirq.walk(root) if n["e"] == "let" and n["pat"].get("p") == "bind" and n.get("init") is not None}
    ic, ie = hirq.strip(inits.get(seen.get("contexts_flag"), {})), hirq.strip(inits.get(seen.get("exceptions_flag"), {}))
    ok = ic.get("e") == "mcall" and ic.get("name") == "is_empty" and src.get(expr_name(ic["recv"])[-1]) == "get_contexts" and (
        ie.get("lit") is False or seen.get("exceptions_ret") is False)
    r.inst("without contexts the context counts as matched; the exception flag starts false", fn_loc(b), "ok" if ok else "report")
    if not ok:
        r.report("ENV-1|initial", fn_loc(b), b.path, "initial values: the context flag must start as `contexts.is_empty()` and the exception flag as false")
    return r


def env2(ctx):
    r = RuleResult("ENV-2", "direction flag: before-contexts are matched backwards, after-contexts forwards, and every context matcher hands `forwards` on unchanged", floor=20)
    lib = ctx.lib
    want = {"match_before_env": False, "match_after_env": True}
    cm = ctx.fn(lib, SUB + "context_match")
    fi = cm.param_names.index("forwards") - 1
    for fn, val in want.items():
        b = ctx.fn(lib, SUB + fn)
        calls = [n for n in hirq.walk(b.hir["body"]) if n["e"] == "mcall" and (n.get("def") or "") == SUB + "context_match"]
        if not calls:
            raise AnchorMissing("%s does not call context_match" % fn)
        for n in calls:
            v = hirq.strip(n["args"][fi]).get("lit")
            ok = v is val
            r.inst("%s calls context_match(forwards = %s)" % (fn, v), fn_loc(b, n["ln"]), "ok" if ok else "report")
            if not ok:
                r.report("ENV-2|%s" % fn, fn_loc(b, n["ln"]), b.path, "%s matches its states with forwards = %s; expected %s" % (fn, v, val))
    n_prop = 0
    for b in lib.bodies:
        if not b.hir or b.in_test_mod() or "forwards" not in b.param_names or not b.path.startswith(SUB):
            continue
        k = 0
        for n in hirq.walk(b.hir["body"]):
            d = n.get("def") or (hirq.strip(n.get("f") or {}).get("path") if n["e"] == "call" else None) or ""
            if n["e"] not in ("mcall", "call") or not d.startswith(SUB):
                continue
            cb = lib.body(d)
            if cb is None or "forwards" not in cb.param_names:
                continue
            idx = cb.param_names.index("forwards") - (1 if n["e"] == "mcall" else 0)
            a = expr_name(n["args"][idx])
            ok = a == ("local", "forwards")
            n_prop += 1
            r.inst("%s -> %s passes its own `forwards`" % (b.path.rsplit("::", 1)[-1], d.rsplit("::", 1)[-1]), fn_loc(b, n["ln"]), "ok" if ok else "report")
            if not ok:
                r.report("ENV-2|%s|%s|#%d" % (b.path, d.rsplit("::", 1)[-1], k), fn_loc(b, n["ln"]), b.path,
                         "%s is called with forwards = %s instead of the caller's own direction" % (d.rsplit("::", 1)[-1], a[-1]))
            k += 1
    if n_prop < 8:
        raise AnchorMissing("only %d `forwards` hand-overs found" % n_prop)
    return r


def _atom_name(e):
    e = hirq.strip(e)
    k = e.get("e")
    if k == "path":
        return e.get("local") or e.get("path") or "?"
    if k == "mcall":
        return "%s.%s(%s)" % (_atom_name(e["recv"]), e["name"], ",".join(_atom_name(a) for a in e.get("args", [])))
    if k == "field":
        return "%s.%s" % (_atom_name(e["a"]), e["name"])
    if k == "unary":
        return "%s(%s)" % (e.get("op"), _atom_name(e["a"]))
    if k == "lit":
        return repr(e.get("lit"))
    return k or "?"


def _truth_table(e):
    """a boolean expression as the table of its values over all assignments of its atoms"""
    import itertools
    atoms = []

    def ev(x, env):
        x = hirq.strip(x)
        k = x.get("e")
        if k == "lit" and x.get("lk") == "bool":
            return bool(x["lit"])
        if k == "unary" and x.get("op") == "Not":
            return not ev(x["a"], env)
        if k == "binary" and x.get("op") in ("And", "Or"):
            a_, b_ = ev(x["a"], env), ev(x["b"], env)
            return (a_ and b_) if x["op"] == "And" else (a_ or b_)
        if k == "if" and x.get("else") is not None and hirq.strip(x["cond"]).get("e") != "letcond":
            return ev(x["then"], env) if ev(x["cond"], env) else ev(x["else"], env)
        nm = _atom_name(x)
        if nm not in atoms:
            atoms.append(nm)
        return env.get(nm, False)
    ev(e, {})                      # collect the atoms
    ev_atoms = sorted(atoms)
    for _ in range(3):             # atoms met only on some branches
        for vals in itertools.product((False, True), repeat=len(ev_atoms)):
            ev(e, dict(zip(ev_atoms, vals)))
        ev_atoms = sorted(atoms)
    table = []
    for vals in itertools.product((False, True), repeat=len(ev_atoms)):
        table.append((list(vals), ev(e, dict(zip(ev_atoms, vals)))))
    return {"atoms": ev_atoms, "table": table}


def env3(ctx):
    """match_before_env and match_after_env are the same state loop run in two directions"""
    import json
    from engine_pol import Canon
    r = RuleResult("ENV-3", "match_before_env and match_after_env share one state loop (how a failing state clears the verdict, when the loop stops): they differ in direction only", floor=3)
    lib = ctx.lib
    skel = {}
    pol = {}
    for fn in ("match_before_env", "match_after_env"):
        b = ctx.fn(lib, SUB + fn)
        root = b.hir["body"]
        loops = [n for n in hirq.walk(root) if n["e"] == "loop"]
        inits = [n for n in hirq.walk(root) if n["e"] == "let" and n["pat"].get("p") == "bind" and n["pat"].get("name") == "is_match"]
        if len(loops) != 1 or len(inits) != 1:
            raise AnchorMissing("%s: expected one state loop and one `is_match` initialisation (%d, %d)" % (fn, len(loops), len(inits)))
        c = Canon()
        # names are numbered in order of first use inside the compared fragments, so `word_rev` / `word` do not matter
        # the initial verdict is compared as a boolean function of its atoms (`if c { true } else { x }` == `c || x`)
        s_init = json.dumps(_truth_table(inits[0]["init"]), sort_keys=True, default=str)
        s_loop = json.dumps(c.expr(loops[0]), sort_keys=True, default=str)
        skel[fn] = (s_init, s_loop)
        pol[fn] = list(c.pol)
    same_init = skel["match_before_env"][0] == skel["match_after_env"][0]
    same_loop = skel["match_before_env"][1] == skel["match_after_env"][1]
    b = ctx.fn(lib, SUB + "match_before_env")
    r.inst("`is_match` starts from the same expression in both", fn_loc(b), "ok" if same_init else "report")
    if not same_init:
        r.report("ENV-3|init", fn_loc(b), b.path, "match_before_env and match_after_env initialise their verdict differently")
    r.inst("the state loops of both are the same code", fn_loc(b), "ok" if same_loop else "report")
    if not same_loop:
        r.report("ENV-3|loop", fn_loc(b), b.path,
                 "the state loop of match_before_env is not the same code as that of match_after_env: a failing state is treated differently before and after the target (e.g. an exception `| p i _` judged by its last element only)")
    if same_loop and same_init:
        diff = [i for i, (x, y) in enumerate(zip(pol["match_before_env"], pol["match_after_env"])) if x != y]
        ok = len(diff) == 1
        r.inst("the two differ in exactly one polarity atom (the direction flag)", fn_loc(b), "ok" if ok else "report")
        if not ok:
            r.report("ENV-3|polarity", fn_loc(b), b.path, "besides the direction flag the two loops differ in %d boolean literals / comparisons" % (len(diff) - 1))
    return r


def env4(ctx):
    """alphas are bound by the context before the exception is judged"""
    r = RuleResult("ENV-4", "contexts are matched before exceptions, so an alpha first bound in the context carries its value into the exception", floor=1)
    lib = ctx.lib
    b = ctx.fn(lib, SUB + "match_contexts_and_exceptions")
    root = hirq.inline_helpers(lib, b, keep={SUB + "match_before_env", SUB + "match_after_env", SUB + "get_contexts", SUB + "get_exceptions"})
    src = {}
    for n in hirq.walk(root):
        if n["e"] == "let" and n.get("init") is not None and n["pat"].get("p") == "bind":
            i0 = hirq.strip(n["init"])
            if i0.get("e") == "mcall" and i0["name"] in ("get_contexts", "get_exceptions"):
                src[n["pat"]["name"]] = i0["name"]
    order = []
    for pat, it, body, ln in for_loops(root):
        base = expr_name(it)
        kind = src.get(base[-1]) if base[0] == "local" else None
        if kind and any(m["e"] == "mcall" and m["name"] in ("match_before_env", "match_after_env") for m in hirq.walk(body)):
            order.append((ln, kind))
    order.sort()
    kinds = [k for _, k in order]
    if set(kinds) != {"get_contexts", "get_exceptions"}:
        raise AnchorMissing("match_contexts_and_exceptions: loops over contexts and exceptions not both found (%s)" % kinds)
    ok = kinds.index("get_contexts") < kinds.index("get_exceptions")
    r.inst("the loop over the contexts comes before the loop over the exceptions", fn_loc(b, order[0][0]), "ok" if ok else "report")
    if not ok:
        r.report("ENV-4|order", fn_loc(b, order[0][0]), b.path,
                 "exceptions are matched before contexts: an alpha that the context should bind is still unbound when the exception is judged, binds to the exception's own segment and matches trivially")
    return r
