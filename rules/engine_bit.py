"""BIT engine: the get/set/match laws of `Place` and `Segment`, decided for every value at once by
bit-level abstract interpretation of the accessors' MIR (rules/bitdom.py).

Nothing is executed. The entry state of each obligation is an *abstract* Place/Segment: presence bits
are enumerated (16 shapes + None), payload bits are symbolic atoms. The accessor MIR is transformed
over that state; the result must be *structurally equal* to the expected abstract value. One shape
stands for up to 2^12 concrete words, so the 17 shapes cover all canonical places; a second family
with symbolic junk in absent payloads covers all 2^16 raw words for the getter-observable laws.

BIT-1  Place: get after set, independence of the other sub-nodes (all 2^16 words + None)
BIT-2  Place: layout is total and disjoint; canonical form (absent => payload 0, empty => None) is
       preserved by every setter; removing the last sub-node yields None
BIT-3  Segment: get_node/set_node/set_feat/feat_match equations for the 7 nodes, every single-bit
       mask, both polarities
"""
import itertools

import bitdom
from bitdom import Interp, Unsupported, bv, bv_const, opt, TOP
from core import AnchorMissing, RuleResult, fn_loc

PLACE = "asca::place::Place"
SEG = "asca::seg::Segment"
NODEKIND = "asca::seg::NodeKind"


def _place_val(word):
    return ("struct", {"0": word})


def _atoms(name, n):
    return [("a", name, i) for i in range(n)]


class PlaceModel:
    """layout of the packed word, *derived from the getters' code* (never hard-coded)"""

    def __init__(self, ctx, PLACE=PLACE, min_subs=4, bits=16):
        self.lib = lib = ctx.lib
        self.bits = bits
        adt = ctx.adt(lib, PLACE)
        fs = adt["variants"][0]["fields"]
        if len(fs) != 1 or fs[0]["ty"] != "core::option::Option<u%d>" % bits:
            raise AnchorMissing("Place is no longer a single Option<u16>: %r" % [(f["name"], f["ty"]) for f in fs])
        self.field = fs[0]["name"]
        self.subs = []
        for b in lib.bodies:
            if b.parent == PLACE or b.path.startswith(PLACE + "::"):
                nm = b.path.rsplit("::", 1)[-1]
                if nm.startswith("get_") and lib.body(PLACE + "::set_" + nm[4:]) and lib.body(PLACE + "::" + nm[4:] + "_is_some"):
                    self.subs.append(nm[4:])
        self.subs.sort()
        if len(self.subs) < min_subs:
            raise AnchorMissing("Place: fewer than 4 get_X/set_X/X_is_some triples found: %r" % self.subs)
        self.get = {x: lib.body(PLACE + "::get_" + x) for x in self.subs}
        self.set = {x: lib.body(PLACE + "::set_" + x) for x in self.subs}
        self.is_some = {x: lib.body(PLACE + "::" + x + "_is_some") for x in self.subs}
        self.is_none = {x: lib.body(PLACE + "::" + x + "_is_none") for x in self.subs}
        self.layout = {}
        self._derive_layout()

    def word(self, w):
        return ("struct", {self.field: w})

    def run(self, body, args, heap):
        it = Interp(self.lib)
        try:
            return it.run(body, list(args), heap)
        except Unsupported as e:
            raise AnchorMissing("bit-level analysis cannot follow %s: %s" % (body.path, e))
        except (KeyError, IndexError, TypeError) as e:
            raise AnchorMissing("bit-level analysis failed in %s: %r" % (body.path, e))

    def _derive_layout(self):
        w = bv(self.bits, _atoms("w", self.bits))
        for x in self.subs:
            heap = {"self": self.word(opt(1, w))}
            r = self.run(self.is_some[x], [("ref", ("H", "self", ()))], heap)
            if r == "diverge" or r[0] != "bool" or not (isinstance(r[1], tuple) and r[1][0] == "a" and r[1][1] == "w"):
                raise AnchorMissing("Place::%s_is_some is not a single-bit test of the word (got %r)" % (x, r))
            pres = r[1][2]
            heap = {"self": self.word(opt(1, w))}
            g = self.run(self.get[x], [("ref", ("H", "self", ()))], heap)
            if g == "diverge" or g[0] != "opt" or g[2] is None or g[2][0] != "bv":
                raise AnchorMissing("Place::get_%s does not return Option<u8> built from the word (got %r)" % (x, g))
            pay = []
            for i, bit in enumerate(g[2][2]):
                if bit == 0:
                    continue
                if isinstance(bit, tuple) and bit[0] == "a" and bit[1] == "w":
                    pay.append((i, bit[2]))
                else:
                    raise AnchorMissing("Place::get_%s: payload bit %d is not a bit of the word (%r)" % (x, i, bit))
            if [i for i, _ in pay] != list(range(len(pay))) or not pay:
                raise AnchorMissing("Place::get_%s: payload is not a contiguous low field: %r" % (x, pay))
            self.layout[x] = (pres, [j for _, j in pay])

    # abstract places ------------------------------------------------------
    def shapes(self):
        """all presence shapes: dict sub -> 0/1"""
        for bits in itertools.product((0, 1), repeat=len(self.subs)):
            yield dict(zip(self.subs, bits))

    def word_of(self, shape, junk=False):
        """abstract word for a presence shape: payload atoms for present sub-nodes, 0 (or junk atoms) for absent ones"""
        bits = [0] * self.bits
        used = set()
        for x in self.subs:
            p, pay = self.layout[x]
            bits[p] = shape[x]
            used.add(p)
            for k, j in enumerate(pay):
                used.add(j)
                if shape[x]:
                    bits[j] = ("a", x, k)
                elif junk:
                    bits[j] = ("a", "junk_" + x, k)
        return bv(self.bits, bits)

    def expect_get(self, x, shape):
        if not shape[x]:
            return opt(0, None)
        _, pay = self.layout[x]
        return opt(1, bv(8, [("a", x, k) for k in range(len(pay))] + [0] * (8 - len(pay))))


def _same_opt(a, b):
    """structural equality of Option<u8> abstract values (payload of None is irrelevant)"""
    if a == "diverge" or b == "diverge":
        return False
    if a[0] != "opt" or b[0] != "opt":
        return False
    if a[1] != b[1]:
        return False
    if a[1] == 0:
        return True
    return a[2] == b[2]


def _show(v):
    if v == "diverge":
        return "diverges"
    if v[0] == "opt":
        if v[1] == 0:
            return "None"
        return ("Some(%s)" if v[1] == 1 else "Some?(%s)") % _show(v[2]) if v[2] is not None else "Some(?)"
    if v[0] == "bv":
        def s(b):
            if b in (0, 1):
                return str(b)
            if b == TOP:
                return "?"
            return ("~" if b[0] == "n" else "") + "%s%d" % (b[1], b[2])
        return "[" + " ".join(s(b) for b in reversed(v[2])) + "]"
    if v[0] == "bool":
        return "bool:" + _show(("bv", 1, (v[1],)))
    return repr(v)


def _shape_name(shape):
    return "+".join(x for x in sorted(shape) if shape[x]) or "empty"


def bit1(ctx, pm=None, floor=384):
    r = RuleResult("BIT-1", "Place: get_X after set_X returns what was set; every other sub-node reads as before (all 2^16 words and None, bit-level abstract interpretation)", floor=floor)
    pm = pm or PlaceModel(ctx)
    r.analysed["layout"] = {x: {"presence_bit": pm.layout[x][0], "payload_bits": pm.layout[x][1]} for x in pm.subs}
    selfref = ("ref", ("H", "self", ()))
    n = 0
    for junk in (False, True):
        starts = [("None", opt(0, None), {x: 0 for x in pm.subs})]
        for sh in pm.shapes():
            if not junk and not any(sh.values()):
                continue
            starts.append((_shape_name(sh) + ("/junk" if junk else ""), opt(1, pm.word_of(sh, junk)), sh))
        if junk:
            starts = starts[1:]
        for sname, w0, sh in starts:
            # getters agree with the shape to begin with (X_is_some / X_is_none / get_X)
            for x in pm.subs:
                heap = {"self": pm.word(w0)}
                g = pm.run(pm.get[x], [selfref], heap)
                n += 1
                r.inst("get_%s / %s_is_some / %s_is_none on {%s}" % (x, x, x, sname), fn_loc(pm.get[x]))
                if not _same_opt(g, pm.expect_get(x, sh)):
                    r.report("BIT-1|get|%s|%s" % (x, sname), fn_loc(pm.get[x]), pm.get[x].path,
                             "get_%s on a place of shape {%s} yields %s, expected %s" % (x, sname, _show(g), _show(pm.expect_get(x, sh))))
                s = pm.run(pm.is_some[x], [selfref], {"self": pm.word(w0)})
                if s != ("bool", sh[x]):
                    r.report("BIT-1|is_some|%s|%s" % (x, sname), fn_loc(pm.is_some[x]), pm.is_some[x].path,
                             "%s_is_some on shape {%s} yields %s" % (x, sname, _show(s) if s != "diverge" else s))
                if pm.is_none[x] is not None:
                    s = pm.run(pm.is_none[x], [selfref], {"self": pm.word(w0)})
                    if s != ("bool", 1 - sh[x]):
                        r.report("BIT-1|is_none|%s|%s" % (x, sname), fn_loc(pm.is_none[x]), pm.is_none[x].path,
                                 "%s_is_none on shape {%s} yields %s" % (x, sname, _show(s) if s != "diverge" else s))
            for x in pm.subs:
                width = len(pm.layout[x][1])
                for mname, m in (("Some", opt(1, bv(8, [("a", "m", k) for k in range(width)] + [0] * (8 - width)))), ("None", opt(0, None))):
                    heap = {"self": pm.word(w0)}
                    ret = pm.run(pm.set[x], [selfref, m], heap)
                    if ret == "diverge":
                        r.report("BIT-1|set-diverges|%s|%s|%s" % (x, mname, sname), fn_loc(pm.set[x]), pm.set[x].path,
                                 "set_%s(%s) on shape {%s} never returns" % (x, mname, sname))
                        continue
                    after = heap["self"]
                    r.inst("set_%s(%s) on {%s}: get_%s reads the argument, the other %d getters read the old values" % (x, "Some(m)" if mname == "Some" else "None", sname, x, len(pm.subs) - 1), fn_loc(pm.set[x]))
                    for y in pm.subs:
                        h2 = {"self": after}
                        g = pm.run(pm.get[y], [selfref], h2)
                        n += 1
                        if y == x:
                            exp = m if mname == "Some" else opt(0, None)
                            what = "get_%s after set_%s(%s)" % (y, x, "Some(m)" if mname == "Some" else "None")
                        else:
                            exp = pm.expect_get(y, sh)
                            what = "get_%s after set_%s(%s)" % (y, x, "Some(m)" if mname == "Some" else "None")
                        ok = _same_opt(g, exp)
                        if not ok:
                            r.report("BIT-1|%s|set_%s(%s)|get_%s|%s" % ("law" if y == x else "frame", x, mname, y, sname), fn_loc(pm.set[x]), pm.set[x].path,
                                     "%s on a place of shape {%s}: got %s, expected %s  (m* = bits of the argument, <node>* = old payload bits)"
                                     % (what, sname, _show(g), _show(exp)))
    r.note("%d getter evaluations over %d sub-nodes x (16 canonical shapes + None + 16 raw shapes) x {Some(m), None}" % (n, len(pm.subs)))
    r.analysed["evaluations"] = n
    return r


def bit2(ctx, pm=None, floor=137):
    r = RuleResult("BIT-2", "Place: the 16-bit layout is total and disjoint; setters keep the canonical form (absent sub-node has no payload bits, empty place is None)", floor=floor)
    pm = pm or PlaceModel(ctx)
    # layout: every bit is the presence bit or a payload bit of exactly one sub-node
    owner = {}
    for x in pm.subs:
        p, pay = pm.layout[x]
        for j in [p] + pay:
            if j in owner:
                r.report("BIT-2|layout-overlap|%s|%s" % tuple(sorted((owner[j], x))), fn_loc(pm.get[x]), pm.get[x].path,
                         "bit %d of the place word is read by both `%s` and `%s`" % (j, owner[j], x))
            owner[j] = x
    stray = [j for j in range(pm.bits) if j not in owner]
    r.inst("layout derived from getters: %s; unowned bits: %s" % ({x: pm.layout[x] for x in pm.subs}, stray), fn_loc(pm.get[pm.subs[0]]))
    r.analysed["unowned_bits"] = stray
    selfref = ("ref", ("H", "self", ()))
    n = 0
    # writer/reader width agreement: creating sub-node X from an arbitrary byte stores exactly the bits get_X reads
    for x in pm.subs:
        heap = {"self": pm.word(opt(0, None))}
        ret = pm.run(pm.set[x], [selfref, opt(1, bv(8, _atoms("m", 8)))], heap)
        w = heap["self"][1][pm.field] if ret != "diverge" else None
        stored = {}
        if w is not None and w[0] == "opt" and w[2] is not None and w[2][0] == "bv":
            for j, b in enumerate(w[2][2]):
                if isinstance(b, tuple) and b[1] == "m":
                    stored[j] = b[2]
        expect = {j: k for k, j in enumerate(pm.layout[x][1])}
        ok = stored == expect
        r.inst("set_%s(Some(byte)) on an absent place stores argument bits %s; get_%s reads word bits %s" % (x, sorted(stored.values()), x, pm.layout[x][1]),
               fn_loc(pm.set[x]), "ok" if ok else "report")
        if not ok:
            r.report("BIT-2|width|%s" % x, fn_loc(pm.set[x]), pm.set[x].path,
                     "set_%s stores argument bits at word positions %s but get_%s reads positions %s: writer and reader disagree on the field"
                     % (x, {v: k for k, v in sorted(stored.items())}, x, {k: j for k, j in enumerate(pm.layout[x][1])}))
    starts = [("None", opt(0, None), {x: 0 for x in pm.subs})]
    for sh in pm.shapes():
        if any(sh.values()):
            starts.append((_shape_name(sh), opt(1, pm.word_of(sh)), sh))
    for sname, w0, sh in starts:
        for x in pm.subs:
            width = len(pm.layout[x][1])
            for mname, m in (("Some", opt(1, bv(8, [("a", "m", k) for k in range(width)] + [0] * (8 - width)))), ("None", opt(0, None))):
                heap = {"self": pm.word(w0)}
                ret = pm.run(pm.set[x], [selfref, m], heap)
                if ret == "diverge":
                    r.report("BIT-2|set-diverges|%s|%s|%s" % (x, mname, sname), fn_loc(pm.set[x]), pm.set[x].path,
                             "set_%s(%s) on shape {%s} never returns" % (x, mname, sname))
                    continue
                n += 1
                r.inst("set_%s(%s) on canonical {%s}: raw word is the canonical word of the new shape" % (x, "Some(m)" if mname == "Some" else "None", sname), fn_loc(pm.set[x]))
                after = heap["self"][1][pm.field]
                sh2 = dict(sh)
                sh2[x] = 1 if mname == "Some" else 0
                # expected canonical word
                if not any(sh2.values()):
                    exp = opt(0, None)
                else:
                    bits = list(pm.word_of(sh2)[2])
                    if mname == "Some":
                        for k, j in enumerate(pm.layout[x][1]):
                            bits[j] = ("a", "m", k)
                    exp = opt(1, bv(pm.bits, bits))
                if not _same_opt(after, exp):
                    kind = "empty-not-none" if not any(sh2.values()) else "canonical"
                    r.report("BIT-2|%s|set_%s(%s)|%s" % (kind, x, mname, sname), fn_loc(pm.set[x]), pm.set[x].path,
                             "set_%s(%s) on the canonical place {%s} leaves the word %s, canonical form is %s"
                             % (x, "Some(m)" if mname == "Some" else "None", sname, _show(after), _show(exp)))
    # "removing the last place sub-node makes the place absent" for EVERY raw word: the only present sub-node is removed
    # from a word that carries arbitrary bits under the absent sub-nodes (Place derefs mutably to its Option<u16>)
    for x in pm.subs:
        sh = {y: 1 if y == x else 0 for y in pm.subs}
        heap = {"self": pm.word(opt(1, pm.word_of(sh, True)))}
        ret = pm.run(pm.set[x], [selfref, opt(0, None)], heap)
        n += 1
        after = heap["self"][1][pm.field] if ret != "diverge" else None
        ok = after is not None and _same_opt(after, opt(0, None))
        r.inst("set_%s(None) on a raw word whose only present sub-node is %s (junk under the absent ones): the place becomes None" % (x, x), fn_loc(pm.set[x]), "ok" if ok else "report")
        if not ok:
            r.report("BIT-2|empty-not-none-raw|set_%s" % x, fn_loc(pm.set[x]), pm.set[x].path,
                     "set_%s(None) removes the last sub-node of a place word that has stray bits under absent sub-nodes (e.g. 0x%04X) and leaves %s: the place stays `Some` although all four sub-nodes read as absent -- the emptiness test must look at the presence bits, not at the whole word"
                     % (x, (1 << pm.layout[x][0]) | (1 << min(j for y in pm.subs if y != x for j in pm.layout[y][1])), _show(after) if after is not None else "nothing (diverges)"))
    return r


# ---------------------------------------------------------------- Segment


def _node_variants(ctx):
    adt = ctx.adt(ctx.lib, NODEKIND)
    return [v["name"] for v in adt["variants"]]


def bit3(ctx):
    r = RuleResult("BIT-3", "Segment: get_node/set_node/set_feat/feat_match equations for every node, every single-bit mask and both polarities (bit-level abstract interpretation)", floor=1518)
    lib = ctx.lib
    pm = PlaceModel(ctx)
    sadt = ctx.adt(lib, SEG)
    fields = [(f["name"], f["ty"]) for f in sadt["variants"][0]["fields"]]
    byte_fields = [nm for nm, ty in fields if ty == "u8"]
    place_fields = [nm for nm, ty in fields if ty == PLACE]
    if len(byte_fields) != 3 or len(place_fields) != 1:
        raise AnchorMissing("Segment fields changed: %r" % fields)
    get_node = ctx.fn(lib, SEG + "::get_node")
    set_node = ctx.fn(lib, SEG + "::set_node")
    set_feat = ctx.fn(lib, SEG + "::set_feat")
    feat_match = ctx.fn(lib, SEG + "::feat_match")
    node_match = lib.body(SEG + "::node_match")
    kinds = _node_variants(ctx)
    selfref = ("ref", ("H", "self", ()))

    def seg(placeword):
        d = {nm: bv(8, _atoms(nm, 8)) for nm in byte_fields}
        d[place_fields[0]] = pm.word(placeword)
        return ("struct", d)

    def K(k):
        return ("enum", NODEKIND, k)

    def run(body, args, heap):
        return pm.run(body, args, heap)

    # classify node kinds by abstract evaluation of get_node: byte node (which field), sub-node (which), panicking
    base_shape = {x: 1 for x in pm.subs}
    full = seg(opt(1, pm.word_of(base_shape)))
    kind_of = {}
    for k in kinds:
        g = run(get_node, [selfref, K(k)], {"self": full})
        if g == "diverge":
            kind_of[k] = ("panic",)
            continue
        if g[0] == "opt" and g[1] == 1 and g[2][0] == "bv":
            names = {b[1] for b in g[2][2] if isinstance(b, tuple)}
            if len(names) == 1:
                nm = names.pop()
                kind_of[k] = ("byte", nm) if nm in byte_fields else ("sub", nm)
                continue
        raise AnchorMissing("Segment::get_node(%s) is not a plain field/sub-node read: %s" % (k, _show(g)))
    subs_seen = sorted(v[1] for v in kind_of.values() if v[0] == "sub")
    bytes_seen = sorted(v[1] for v in kind_of.values() if v[0] == "byte")
    if subs_seen != pm.subs or bytes_seen != sorted(byte_fields):
        raise AnchorMissing("NodeKind does not cover the nodes one-to-one: %r" % kind_of)
    r.analysed["node_kinds"] = {k: "/".join(v) for k, v in kind_of.items()}

    starts = [("None", opt(0, None), {x: 0 for x in pm.subs})]
    for sh in pm.shapes():
        if any(sh.values()):
            starts.append((_shape_name(sh), opt(1, pm.word_of(sh)), sh))

    def expect_node(k, sh):
        t = kind_of[k]
        if t[0] == "byte":
            return opt(1, bv(8, _atoms(t[1], 8)))
        return pm.expect_get(t[1], sh)

    def width(k):
        t = kind_of[k]
        return 8 if t[0] == "byte" else len(pm.layout[t[1]][1])

    live = [k for k in kinds if kind_of[k][0] != "panic"]
    n = 0

    def frame(after, k, sh, what, sname, fnb, exp_k):
        """every node reads as expected after an operation on node k"""
        nonlocal n
        for y in live:
            g = run(get_node, [selfref, K(y)], {"self": after})
            n += 1
            exp = exp_k if y == k else expect_node(y, sh)
            if not _same_opt(g, exp):
                r.report("BIT-3|%s|%s|get_node(%s)|%s" % ("law" if y == k else "frame", what, y, sname), fn_loc(fnb), fnb.path,
                         "%s on a segment whose place is {%s}: get_node(%s) is %s, expected %s" % (what, sname, y, _show(g), _show(exp)))

    for sname, w0, sh in starts:
        s0 = seg(w0)
        for k in live:
            wd = width(k)
            present = kind_of[k][0] == "byte" or sh[kind_of[k][1]] == 1
            old = expect_node(k, sh)
            oldbits = list(old[2][2]) if present else [0] * 8
            # get_node agrees with the shape
            g = run(get_node, [selfref, K(k)], {"self": s0})
            n += 1
            if not _same_opt(g, old):
                r.report("BIT-3|get_node|%s|%s" % (k, sname), fn_loc(get_node), get_node.path,
                         "get_node(%s) on place {%s}: %s, expected %s" % (k, sname, _show(g), _show(old)))
            r.inst("get_node/set_node/node_match(%s) on place {%s}" % (k, sname), fn_loc(set_node))
            # set_node(k, Some(v))
            v = opt(1, bv(8, [("a", "v", i) for i in range(wd)] + [0] * (8 - wd)))
            heap = {"self": s0}
            if run(set_node, [selfref, K(k), v], heap) != "diverge":
                frame(heap["self"], k, sh, "set_node(%s, Some(v))" % k, sname, set_node, v)
            else:
                r.report("BIT-3|set_node-diverges|%s|%s" % (k, sname), fn_loc(set_node), set_node.path, "set_node(%s, Some(v)) never returns" % k)
            if kind_of[k][0] == "sub":
                heap = {"self": s0}
                if run(set_node, [selfref, K(k), opt(0, None)], heap) != "diverge":
                    frame(heap["self"], k, sh, "set_node(%s, None)" % k, sname, set_node, opt(0, None))
            # the presence predicates agree with get_node
            for pname, want in (("is_node_some", 1 if present else 0), ("is_node_none", 0 if present else 1)):
                pb = lib.body(SEG + "::" + pname)
                if pb is None:
                    continue
                g = run(pb, [selfref, K(k)], {"self": s0})
                n += 1
                if g != ("bool", want):
                    r.report("BIT-3|%s|%s|%s" % (pname, k, sname), fn_loc(pb), pb.path,
                             "%s(%s) on place {%s}: %s, but get_node(%s) is %s there" % (pname, k, sname, _show(g) if g != "diverge" else g, k, "Some(..)" if present else "None"))
            for pname, want in (("is_place_some", 0 if sname == "None" else 1), ("is_place_none", 1 if sname == "None" else 0)):
                pb = lib.body(SEG + "::" + pname)
                if pb is None or k != live[0]:
                    continue
                g = run(pb, [selfref], {"self": s0})
                n += 1
                if g != ("bool", want):
                    r.report("BIT-3|%s|%s" % (pname, sname), fn_loc(pb), pb.path, "%s() on place {%s}: %s" % (pname, sname, _show(g) if g != "diverge" else g))
            # node_match
            if node_match is not None:
                for mv, mname in ((opt(0, None), "None"), (v, "Some(v)")):
                    g = run(node_match, [selfref, K(k), mv], {"self": s0})
                    n += 1
                    if mname == "None":
                        exp = ("bool", 0 if present else 1)
                    elif not present:
                        exp = ("bool", 0)
                    else:
                        exp = None   # equality of two symbolic bytes: not representable as one bit; skip
                    if exp is not None and g != exp:
                        r.report("BIT-3|node_match|%s|%s|%s" % (k, mname, sname), fn_loc(node_match), node_match.path,
                                 "node_match(%s, %s) on place {%s}: %s, expected %s" % (k, mname, sname, _show(g) if g != "diverge" else g, _show(exp)))
            for bit in range(wd):
                f = bv_const(8, 1 << bit)
                for pos in (1, 0):
                    # feat_match on the unmodified segment
                    g = run(feat_match, [selfref, K(k), f, ("bool", pos)], {"self": s0})
                    n += 1
                    if present:
                        exp = ("bool", oldbits[bit] if pos else bitdom.bnot(oldbits[bit]))
                    else:
                        exp = ("bool", 0)
                    if g != exp:
                        r.report("BIT-3|feat_match|%s|bit%d|%s|%s" % (k, bit, "+" if pos else "-", sname), fn_loc(feat_match), feat_match.path,
                                 "feat_match(%s, 1<<%d, %s) on place {%s}: %s, expected %s" % (k, bit, bool(pos), sname, _show(g) if g != "diverge" else g, _show(exp)))
                    # set_feat
                    heap = {"self": s0}
                    ret = run(set_feat, [selfref, K(k), f, ("bool", pos)], heap)
                    what = "set_feat(%s, 1<<%d, %s)" % (k, bit, "true" if pos else "false")
                    r.inst("%s / feat_match on place {%s}" % (what, sname), fn_loc(set_feat))
                    if ret == "diverge":
                        r.report("BIT-3|set_feat-diverges|%s|bit%d|%s|%s" % (k, bit, "+" if pos else "-", sname), fn_loc(set_feat), set_feat.path, what + " never returns")
                        continue
                    after = heap["self"]
                    if pos:
                        nb = list(oldbits)
                        nb[bit] = 1
                        exp_k = opt(1, bv(8, nb))
                    elif present:
                        nb = list(oldbits)
                        nb[bit] = 0
                        exp_k = opt(1, bv(8, nb))
                    else:
                        exp_k = opt(0, None)
                    frame(after, k, sh, what, sname, set_feat, exp_k)
                    # ... and the feature then matches with the polarity set (absent node: matches neither)
                    for pos2 in (1, 0):
                        g = run(feat_match, [selfref, K(k), f, ("bool", pos2)], {"self": after})
                        n += 1
                        if exp_k[1] == 0:
                            exp = ("bool", 0)
                        else:
                            exp = ("bool", 1 if pos2 == pos else 0)
                        if g != exp:
                            r.report("BIT-3|match-after-set|%s|bit%d|%s%s|%s" % (k, bit, "+" if pos else "-", "+" if pos2 else "-", sname), fn_loc(set_feat), set_feat.path,
                                     "%s then feat_match(.., %s) on place {%s}: %s, expected %s" % (what, bool(pos2), sname, _show(g) if g != "diverge" else g, _show(exp)))
    # two-bit masks: the two named bits take all four concrete values, everything else stays symbolic
    def subst(v, m):
        if isinstance(v, tuple):
            if len(v) == 3 and v[0] in ("a", "n") and isinstance(v[1], str):
                if ("a",) + v[1:] in m:
                    c = m[("a",) + v[1:]]
                    return c if v[0] == "a" else 1 - c
                return v
            return tuple(subst(x, m) for x in v)
        if isinstance(v, dict):
            return {k: subst(x, m) for k, x in v.items()}
        return v

    n_pairs = 0
    for k in live:
        wd = width(k)
        t = kind_of[k]
        pshapes = [("None", opt(0, None), {x: 0 for x in pm.subs}), ("all", opt(1, pm.word_of({x: 1 for x in pm.subs})), {x: 1 for x in pm.subs})]
        if t[0] == "sub":
            only = {x: 1 if x == t[1] else 0 for x in pm.subs}
            pshapes.append((_shape_name(only), opt(1, pm.word_of(only)), only))
        if getattr(ctx, "tier", "quick") == "thorough":
            pshapes = list(starts)          # thorough: two-bit masks on every one of the 16 place shapes
        for sname, w0, sh in pshapes:
            present = t[0] == "byte" or sh[t[1]] == 1
            aname = t[1]
            for i, j in itertools.combinations(range(wd), 2):
                f = bv_const(8, (1 << i) | (1 << j))
                n_pairs += 1
                r.inst("two-bit mask %s bits %d,%d on place {%s}: feat_match / set_feat over the 4 values of the named bits" % (k, i, j, sname), fn_loc(feat_match))
                for vi, vj in itertools.product((0, 1), repeat=2):
                    m = {("a", aname, i): vi, ("a", aname, j): vj}
                    s1 = subst(seg(w0), m)
                    old = subst(expect_node(k, sh), m)
                    for pos in (1, 0):
                        g = run(feat_match, [selfref, K(k), f, ("bool", pos)], {"self": s1})
                        n += 1
                        if not present:
                            exp = ("bool", 0)
                        else:
                            exp = ("bool", 1 if (vi == pos and vj == pos) else 0)
                        if g != exp:
                            r.report("BIT-3|feat_match2|%s|bits%d,%d=%d%d|%s|%s" % (k, i, j, vi, vj, "+" if pos else "-", sname), fn_loc(feat_match), feat_match.path,
                                     "feat_match(%s, bits %d|%d, %s) with those bits = %d,%d on place {%s}: %s, expected %s (a %s match needs every named bit %s)"
                                     % (k, i, j, bool(pos), vi, vj, sname, _show(g) if g != "diverge" else g, _show(exp), "+" if pos else "-", "set" if pos else "clear"))
                        heap = {"self": s1}
                        ret = run(set_feat, [selfref, K(k), f, ("bool", pos)], heap)
                        if ret == "diverge":
                            continue
                        g = run(get_node, [selfref, K(k)], {"self": heap["self"]})
                        n += 1
                        if pos or present:
                            ob = list(old[2][2]) if present else [0] * 8
                            ob[i] = ob[j] = pos
                            exp = opt(1, bv(8, ob))
                        else:
                            exp = opt(0, None)
                        if not _same_opt(g, exp):
                            r.report("BIT-3|set_feat2|%s|bits%d,%d=%d%d|%s|%s" % (k, i, j, vi, vj, "+" if pos else "-", sname), fn_loc(set_feat), set_feat.path,
                                     "set_feat(%s, bits %d|%d, %s) on place {%s}: get_node is %s, expected %s" % (k, i, j, bool(pos), sname, _show(g), _show(exp)))
    # [±place]: is_place_some / is_place_none agree with "any sub-node present" on every canonical place
    for nm_, neg in (("is_place_some", False), ("is_place_none", True)):
        fb = lib.body(SEG + "::" + nm_)
        if fb is None:
            raise AnchorMissing("Segment::%s not found" % nm_)
        for sname, w0, sh in starts:
            g = run(fb, [selfref], {"self": seg(w0)})
            n += 1
            want = ("bool", (0 if any(sh.values()) else 1) if neg else (1 if any(sh.values()) else 0))
            r.inst("%s on place {%s}" % (nm_, sname), fn_loc(fb), "ok" if g == want else "report")
            if g != want:
                r.report("BIT-3|%s|%s" % (nm_, sname), fn_loc(fb), fb.path, "%s on a segment whose place is {%s} is %s; the place node is positive exactly when a sub-node is present" % (
                    nm_, sname, _show(g) if g != "diverge" else g))
    # the kinds that must panic do so in all three entry points (a silent fall-through would corrupt a node)
    for k in kinds:
        if kind_of[k][0] == "panic":
            heap = {"self": full}
            s = run(set_node, [selfref, K(k), opt(1, bv_const(8, 0))], heap)
            n += 1
            if s != "diverge":
                r.report("BIT-3|set_node-nonpanic|%s" % k, fn_loc(set_node), set_node.path,
                         "get_node(%s) is refused but set_node(%s, ..) returns: the two accessors disagree on which nodes exist" % (k, k))
    r.note("%d abstract evaluations over %d node kinds x 17 place shapes x single-bit masks x polarities" % (n, len(live)))
    r.analysed["evaluations"] = n
    return r


# ---------------------------------------------------------------- BIT-4 identities behind `[αF] > [αF]`


class SegModel:
    def __init__(self, ctx):
        lib = self.lib = ctx.lib
        self.pm = pm = PlaceModel(ctx)
        sadt = ctx.adt(lib, SEG)
        fields = [(f["name"], f["ty"]) for f in sadt["variants"][0]["fields"]]
        self.byte_fields = [nm for nm, ty in fields if ty == "u8"]
        self.place_fields = [nm for nm, ty in fields if ty == PLACE]
        if len(self.byte_fields) != 3 or len(self.place_fields) != 1:
            raise AnchorMissing("Segment fields changed: %r" % fields)
        self.get_node = ctx.fn(lib, SEG + "::get_node")
        self.set_node = ctx.fn(lib, SEG + "::set_node")
        self.set_feat = ctx.fn(lib, SEG + "::set_feat")
        self.kinds = _node_variants(ctx)
        self.selfref = ("ref", ("H", "self", ()))
        full = self.seg(opt(1, pm.word_of({x: 1 for x in pm.subs})))
        self.kind_of = {}
        for k in self.kinds:
            g = pm.run(self.get_node, [self.selfref, self.K(k)], {"self": full})
            if g == "diverge":
                self.kind_of[k] = ("panic",)
                continue
            names = {b[1] for b in g[2][2] if isinstance(b, tuple)} if g[0] == "opt" and g[1] == 1 and g[2][0] == "bv" else set()
            if len(names) != 1:
                raise AnchorMissing("Segment::get_node(%s) is not a plain field/sub-node read" % k)
            nm = names.pop()
            self.kind_of[k] = ("byte", nm) if nm in self.byte_fields else ("sub", nm)
        self.live = [k for k in self.kinds if self.kind_of[k][0] != "panic"]
        self.starts = [("None", opt(0, None), {x: 0 for x in pm.subs})]
        for sh in pm.shapes():
            if any(sh.values()):
                self.starts.append((_shape_name(sh), opt(1, pm.word_of(sh)), sh))

    def seg(self, placeword):
        d = {nm: bv(8, _atoms(nm, 8)) for nm in self.byte_fields}
        d[self.place_fields[0]] = self.pm.word(placeword)
        return ("struct", d)

    def K(self, k):
        return ("enum", NODEKIND, k)

    def width(self, k):
        t = self.kind_of[k]
        return 8 if t[0] == "byte" else len(self.pm.layout[t[1]][1])


def _subst(v, m):
    if isinstance(v, tuple):
        if len(v) == 3 and v[0] in ("a", "n") and isinstance(v[1], str):
            if ("a",) + v[1:] in m:
                c = m[("a",) + v[1:]]
                return c if v[0] == "a" else 1 - c
            return v
        return tuple(_subst(x, m) for x in v)
    if isinstance(v, dict):
        return {k: _subst(x, m) for k, x in v.items()}
    return v


def _same_seg(a, b):
    """structural equality of two abstract segments (payload of an absent place is irrelevant)"""
    if a[0] != "struct" or b[0] != "struct" or set(a[1]) != set(b[1]):
        return False
    for f in a[1]:
        x, y = a[1][f], b[1][f]
        if x[0] == "struct" and y[0] == "struct":
            (fx, ox), = x[1].items()
            (fy, oy), = y[1].items()
            if fx != fy or not _same_opt(ox, oy):
                return False
        elif x != y:
            return False
    return True


def bit4(ctx):
    r = RuleResult("BIT-4", "writing back what was read is the identity: set_node(N, get_node(N)) and set_feat(N, bit, <value of that bit>) leave every segment as it was", floor=1168)
    sm = SegModel(ctx)
    pm = sm.pm
    n = 0
    for sname, w0, sh in sm.starts:
        s0 = sm.seg(w0)
        for k in sm.live:
            t = sm.kind_of[k]
            present = t[0] == "byte" or sh[t[1]] == 1
            # node copy
            v = pm.run(sm.get_node, [sm.selfref, sm.K(k)], {"self": s0})
            heap = {"self": s0}
            ret = pm.run(sm.set_node, [sm.selfref, sm.K(k), v], heap)
            n += 1
            ok = ret != "diverge" and _same_seg(heap["self"], s0)
            r.inst("set_node(%s, get_node(%s)) on place {%s} is the identity" % (k, k, sname), fn_loc(sm.set_node), "ok" if ok else "report")
            if not ok:
                r.report("BIT-4|node|%s|%s" % (k, sname), fn_loc(sm.set_node), sm.set_node.path,
                         "set_node(%s, get_node(%s)) changes a segment whose place is {%s}: `[α%s] > [α%s]` (node alpha copied back) does not leave the word as it was" % (k, k, sname, k, k))
            # feature copy: the alpha captures `bit != 0` (false on an absent node) and applies set_feat(N, bit, captured)
            for bit in range(sm.width(k)):
                f = bv_const(8, 1 << bit)
                for c in ((1, 0) if present else (0,)):
                    aname = t[1]
                    s1 = _subst(s0, {("a", aname, bit): c}) if present else s0
                    heap = {"self": s1}
                    ret = pm.run(sm.set_feat, [sm.selfref, sm.K(k), f, ("bool", c)], heap)
                    n += 1
                    ok = ret != "diverge" and _same_seg(heap["self"], s1)
                    r.inst("set_feat(%s, 1<<%d, %s) on place {%s} with that bit %s is the identity" % (k, bit, bool(c), sname, ("= %d" % c) if present else "absent"), fn_loc(sm.set_feat),
                           "ok" if ok else "report")
                    if not ok:
                        r.report("BIT-4|feat|%s|bit%d=%s|%s" % (k, bit, c if present else "absent", sname), fn_loc(sm.set_feat), sm.set_feat.path,
                                 "set_feat(%s, 1<<%d, %s) changes a segment in which that feature already has this value (place {%s}): `[αF] > [αF]` does not leave the word as it was"
                                 % (k, bit, bool(c), sname))
    r.analysed["evaluations"] = n
    return r
