"""FLW engine, part 2 — tier write-effects (C14) and representation-invariant writers (C08).

FLW-4  tier writes are guarded by a modifier of that tier; boundary-only operations do not edit segments
FLW-5  syllable emptiness: removal ⇒ emptiness check pairing; no possibly-empty syllable is put into a word
FLW-6  tone literals are capped at their origin
FLW-7  an empty place is absent: raw Place writes assign None only; setters normalise
"""
import hirq
from core import AnchorMissing, RuleResult, fn_loc, short_loc
from engine_flw import track_value, guard_switches, only_reachable_via, find_calls
from facts import callee_path

SYL = "asca::syll::Syllable"
SUPRA = "asca::parser::SupraSegs"


def resolve_place_fields(body, place, depth=0):
    """Field names along a place, looking through single-definition reference locals:
    [(adt, field name)...]"""
    out = []
    if depth < 6:
        d = _single_def(body, place["l"])
        if d is not None and d.get("k") in ("ref", "use"):
            src = d["pl"] if d["k"] == "ref" else (d["op"]["pl"] if d["op"].get("k") in ("copy", "move") else None)
            if src is not None:
                out += resolve_place_fields(body, src, depth + 1)
    for pr in place["p"]:
        if isinstance(pr, dict) and "f" in pr:
            out.append((pr.get("of"), pr.get("n")))
    return out


_def_cache = {}


def _single_def(body, l):
    key = (id(body), l)
    if key in _def_cache:
        return _def_cache[key]
    defs = []
    for blk in body.blocks:
        for s in blk["s"]:
            if s["k"] == "assign" and s["lhs"]["l"] == l and not s["lhs"]["p"]:
                defs.append(s["rv"])
        t = blk["t"]
        if t["k"] == "call" and t["dest"]["l"] == l and not t["dest"]["p"]:
            defs.append({"k": "call", "t": t})
    r = defs[0] if len(defs) == 1 else None
    _def_cache[key] = r
    return r


def option_switches(body, adt, field):
    """[(switch block, some_succ, none_succ)] for switches on the discriminant of an Option stored under adt.field"""
    out = []
    for i, blk in enumerate(body.blocks):
        t = blk["t"]
        if t["k"] != "switch" or t["op"].get("k") not in ("copy", "move") or t["op"]["pl"]["p"]:
            continue
        d = _single_def(body, t["op"]["pl"]["l"])
        if d is None or d.get("k") != "discr" or d.get("adt") != "core::option::Option":
            continue
        fields = resolve_place_fields(body, d["pl"])
        if (adt, field) not in fields:
            continue
        names = dict((dv, n) for dv, n in d.get("variants", []))
        m = {}
        for v, tgt in t["vals"]:
            m[names.get(v, str(v))] = tgt
        rest = [n for n in names.values() if n not in m]
        if len(rest) == 1:
            m[rest[0]] = t["otherwise"]
        if "Some" in m and "None" in m:
            out.append((i, m["Some"], m["None"]))
    return out


def guarded_by_some(body, blk, switches):
    cfg = body.cfg
    for sb, some, none in switches:
        if cfg.dominates(sb, blk) and only_reachable_via(cfg, sb, none, blk):
            return True
    return False


def field_writes(body, adt, names):
    """[(field, block, loc, base_is_deref, stmt)] assignments whose lhs ends in adt.field"""
    out = []
    for bi, blk in enumerate(body.blocks):
        if blk.get("cleanup"):
            continue
        for s in blk["s"]:
            if s["k"] != "assign":
                continue
            ps = s["lhs"]["p"]
            if not ps:
                continue
            last = ps[-1]
            if isinstance(last, dict) and last.get("of") == adt and last.get("n") in names:
                deref = any(p == "*" for p in ps[:-1])
                out.append((last["n"], bi, short_loc(s["loc"]), deref, s))
    return out


DEQUE = "alloc::collections::vec_deque::VecDeque::"
SEG_EDIT = ("insert", "remove", "push_back", "push_front", "pop_back", "pop_front", "clear", "truncate", "drain", "append", "swap",
            "retain", "split_off", "extend", "rotate_left", "rotate_right", "swap_remove_back", "swap_remove_front", "resize", "make_contiguous")


def deque_edits(body):
    out = []
    for i, t in body.calls():
        cp = callee_path(t) or ""
        if cp.startswith(DEQUE) and cp[len(DEQUE):] in SEG_EDIT:
            out.append((cp[len(DEQUE):], i, t))
    return out


def flw4(ctx):
    r = RuleResult("FLW-4", "stress/tone/length are written only under a modifier of that tier; segment-level code cannot reach the syllable; boundary-only merges do not edit segments", floor=36)
    lib = ctx.lib
    # ---- 4a
    sa = ctx.fn(lib, "asca::seg::Segment::apply_seg_mods")
    bad = [t for t in sa.param_tys if "syll::Syllable" in t or "word::Word" in t]
    r.inst("Segment::apply_seg_mods cannot reach a syllable or word by type (%d params)" % len(sa.param_tys), fn_loc(sa), "ok" if not bad else "report")
    if bad:
        r.report("FLW-4a|sig", fn_loc(sa), sa.path, "segment-level modifier application receives %s" % bad)
    # ---- 4b
    asm = ctx.fn(lib, "asca::syll::Syllable::apply_syll_mods")
    sw = {"stress": option_switches(asm, SUPRA, "stress"), "tone": option_switches(asm, SUPRA, "tone")}
    ws = field_writes(asm, SYL, ("stress", "tone", "segments"))
    for f, bi, loc, deref, s in ws:
        if f == "segments":
            r.inst("apply_syll_mods writes self.segments", loc, "report")
            r.report("FLW-4b|segments-write", loc, asm.path, "apply_syll_mods writes the segment tier")
            continue
        ok = guarded_by_some(asm, bi, sw[f])
        r.inst("apply_syll_mods: write of self.%s is reachable only on a Some edge of mods.%s" % (f, f), loc, "ok" if ok else "report")
        if not ok:
            ordinal = [x[2] for x in ws if x[0] == f].index(loc)
            r.report("FLW-4b|%s|#%d" % (f, ordinal), loc, asm.path,
                     "self.%s is written on a path where the rule gave no %s modifier: a %s-less matrix changes the syllable's %s" % (f, f, f, f))
    ed = deque_edits(asm)
    mut_self_calls = [(i, t) for i, t in asm.calls() if (callee_path(t) or "").startswith("asca::") and any(
        a.get("k") in ("copy", "move") and asm.local_ty(a["pl"]["l"]).startswith("&mut asca::syll::Syllable") for a in t["args"])]
    r.inst("apply_syll_mods edits no segment and passes &mut self to no one", fn_loc(asm), "ok" if not ed and not mut_self_calls else "report")
    if ed or mut_self_calls:
        r.report("FLW-4b|effects", fn_loc(asm), asm.path, "apply_syll_mods has effects beyond stress/tone: %s" % ([e[0] for e in ed] + [callee_path(t) for _, t in mut_self_calls]))
    # ---- 4c
    sup = ctx.fn(lib, "asca::syll::Syllable::apply_supras")
    lsw = option_switches(sup, SUPRA, "length")
    eds = deque_edits(sup)
    for name, bi, t in eds:
        ok = guarded_by_some(sup, bi, lsw)
        r.inst("apply_supras: segments.%s is reachable only on a Some edge of mods.length" % name, short_loc(t["loc"]), "ok" if ok else "report")
        if not ok:
            ordinal = [x[1] for x in eds].index(bi)
            r.report("FLW-4c|%s|#%d" % (name, ordinal), short_loc(t["loc"]), sup.path,
                     "copies of a segment are inserted/removed on a path without a length modifier")
    ws = field_writes(sup, SYL, ("stress", "tone"))
    r.inst("apply_supras writes stress/tone only through apply_syll_mods", fn_loc(sup), "ok" if not ws else "report")
    for f, bi, loc, deref, s in ws:
        r.report("FLW-4c|direct-%s" % f, loc, sup.path, "apply_supras writes self.%s directly" % f)
    # ---- 4d
    ssm = ctx.fn(lib, "asca::syll::Syllable::apply_seg_mods")
    eds = deque_edits(ssm)
    ws = field_writes(ssm, SYL, ("stress", "tone", "segments"))
    callees = sorted({callee_path(t) for _, t in ssm.calls() if (callee_path(t) or "").startswith("asca::")})
    allowed = {"asca::syll::Syllable::get_seg_length_at", "asca::seg::Segment::apply_seg_mods", "asca::syll::Syllable::apply_supras"}
    extra = [c for c in callees if c not in allowed]
    ok = not eds and not ws and not extra
    r.inst("Syllable::apply_seg_mods only maps Segment::apply_seg_mods over the run and delegates to apply_supras", fn_loc(ssm), "ok" if ok else "report")
    if not ok:
        r.report("FLW-4d|effects", fn_loc(ssm), ssm.path, "Syllable::apply_seg_mods has other effects: edits %s, field writes %s, callees %s" % ([e[0] for e in eds], [w[0] for w in ws], extra))
    # ---- 4e: direct stress/tone writes elsewhere in the interpreter
    interp = [b for b in lib.bodies if not b.in_test_mod() and b.path.startswith(("asca::subrule::", "asca::rule::", "asca::syll::", "asca::seg::"))
              and b.path != asm.path]
    n_sites = 0
    for b in interp:
        ws = field_writes(b, SYL, ("stress", "tone"))
        if not ws:
            continue
        cfg = b.cfg
        removals = [i for i, t in b.calls() if (callee_path(t) or "") in ("alloc::vec::Vec::remove", "asca::word::Word::remove_syll")
                    and ("syll::Syllable" in (t["callee"].get("inst") or "") or (callee_path(t) or "").endswith("remove_syll"))]
        err_exits = [i for i, t in b.calls() if (callee_path(t) or "").endswith("FromResidual<core::result::Result<core::convert::Infallible, E>>>::from_residual")]
        per_field = {}
        for f, bi, loc, deref, s in ws:
            n_sites += 1
            ordinal = per_field.get(f, 0)
            per_field[f] = ordinal + 1
            if not deref:
                # a syllable under construction (local value): must copy the field of an existing syllable
                rv = s["rv"]
                src_ok = rv["k"] == "use" and rv["op"].get("k") in ("copy", "move") and any(
                    isinstance(p, dict) and p.get("of") == SYL and p.get("n") == f for p in rv["op"]["pl"]["p"])
                if not src_ok and rv["k"] == "use" and rv["op"].get("k") in ("copy", "move") and not rv["op"]["pl"]["p"]:
                    d = _single_def(b, rv["op"]["pl"]["l"])
                    if d is not None and d.get("k") == "use" and d["op"].get("k") in ("copy", "move"):
                        src_ok = any(isinstance(p, dict) and p.get("of") == SYL and p.get("n") == f for p in d["op"]["pl"]["p"])
                r.inst("%s: new syllable's %s copied from the syllable being split" % (b.path.rsplit("::", 1)[-1], f), loc,
                       "ok" if src_ok else "report")
                if not src_ok:
                    r.report("FLW-4e|%s|fresh-%s|#%d" % (b.path, f, ordinal), loc, b.path,
                             "a new syllable's %s is set to something other than the %s of the syllable it is split from" % (f, f))
            else:
                # a syllable inside the word: only as part of a merge (the other syllable is removed on every normal path)
                ok = bool(removals) and cfg.must_pass_through(bi, set(removals) | set(err_exits), cfg.exits)
                r.inst("%s: %s of a syllable in the word is rewritten only while merging it with a removed neighbour" % (b.path.rsplit("::", 1)[-1], f),
                       loc, "ok" if ok else "report")
                if not ok:
                    r.report("FLW-4e|%s|merge-%s|#%d" % (b.path, f, ordinal), loc, b.path,
                             "%s of a syllable inside the word is written outside apply_syll_mods and not as part of a syllable merge: a segmental rule path can change prosody" % f)
    # ---- 4f: merging two syllables (boundary deletion) must not add or drop segments
    for b in interp:
        cfg = b.cfg
        for bi, blk in enumerate(b.blocks):
            t = blk["t"]
            if t["k"] != "switch" or t["op"].get("k") not in ("copy", "move") or t["op"]["pl"]["p"]:
                continue
            d = _single_def(b, t["op"]["pl"]["l"])
            if d is None or d.get("k") != "discr" or d.get("adt") != "asca::subrule::MatchElement":
                continue
            names = dict((dv, n) for dv, n in d.get("variants", []))
            tgt = [tg for v, tg in t["vals"] if names.get(v) == "SyllBound"]
            if not tgt and len([n for n in names.values() if n not in [names.get(v) for v, _ in t["vals"]]]) == 1:
                rest = [n for n in names.values() if n not in [names.get(v) for v, _ in t["vals"]]]
                if rest == ["SyllBound"]:
                    tgt = [t["otherwise"]]
            if not tgt:
                continue
            region = {x for x in cfg.reach if cfg.dominates(tgt[0], x)}
            eds = [(n, i, tt) for n, i, tt in deque_edits(b) if i in region]
            if not any(n == "append" for n, _, _ in eds):
                continue        # not a merging arm
            bad = [(n, short_loc(tt["loc"])) for n, i, tt in eds if n not in ("append",)]
            r.inst("%s: boundary-deletion arm merges by `append` only (segment tier untouched)" % b.path.rsplit("::", 1)[-1], short_loc(b.blocks[tgt[0]]["t"]["loc"]),
                   "ok" if not bad else "report")
            if bad:
                k = [x for x in deque_edits(b) if x[1] in region and x[0] != "append"][0][0]
                r.report("FLW-4f|%s|%s" % (b.path, k), bad[0][1], b.path,
                         "the syllable-boundary deletion arm also edits segments (%s): a boundary-only rule can add or drop a segment" % bad)
    r.analysed = {"interpreter_stress_tone_sites": n_sites}
    return r
